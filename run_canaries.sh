#!/bin/bash
# sensitivity self-test: every registered canary (in-memory mutant) must make its check exit 1
# usage: ./run_canaries.sh [runs] [checks...]   -> writes canaries.json
runs=${1:-64}; shift
checks=${@:-C01 C02 C03 C04 C05 C06 C07 C08 C09 C10 C11 C12 C13 C14 C15 C16 C17 C18 C19 C20}
echo "{" > canaries.json.tmp
first=1
for c in $checks; do
  for k in $(./check $c --list-canaries); do
    out=$(./check $c --runs $runs --canary $k 2>&1); rc=$?
    line=$(echo "$out" | grep -E "^violation" | grep -v "KNOWN" | head -1 | cut -c1-160 | sed 's/"/'"'"'/g')
    [ $first -eq 1 ] || echo "," >> canaries.json.tmp; first=0
    printf ' "%s/%s": {"rc": %d, "first": "%s"}' "$c" "$k" "$rc" "$line" >> canaries.json.tmp
    echo "$c $k rc=$rc"
  done
done
echo "" >> canaries.json.tmp; echo "}" >> canaries.json.tmp; mv canaries.json.tmp canaries.json
python3 -c "import json; d=json.load(open('canaries.json')); print(sum(1 for v in d.values() if v['rc']==1), 'of', len(d), 'canaries detected')"
