#!/bin/bash
# verify a list of seeded ids (e.g. C12a C06-2b) sequentially (queues work on disjoint ids)
for m in "$@"; do
  p=${m:0:3}
  t="tests/test_envs.py tests/test_utils.py"
  case $m in
    C10*|C11*|C12*|C13*|C14*) t="tests/test_utils.py tests/test_policy.py";;
    C15*) t="tests/test_utils.py tests/test_tasks.py";;
    C16*|C20*) t="tests/test_utils.py tests/test_training.py -k reinforce";;
    C17*|C19*) t="tests/test_utils.py tests/test_tasks.py tests/test_envs.py";;
  esac
  if [[ $m == *-6* ]]; then src=/tmp/wt/m6-$p/_seeded6/${m: -1}; elif [[ $m == *-5* ]]; then src=/tmp/wt/m5-$p/_seeded5/${m: -1}; elif [[ $m == *-4* ]]; then src=/tmp/wt/m4-$p/_seeded4/${m: -1}; elif [[ $m == *-3* ]]; then src=/tmp/wt/m3-$p/_seeded3/${m: -1}; elif [[ $m == *-2* ]]; then src=/tmp/wt/m-$p/_seeded2/${m: -1}; else src=/tmp/wt/m-$p/_seeded/${m: -1}; fi
  [ -f $src/patch.diff ] || src=/verif/seeded/$m
  /venv/bin/python /verif/seeded_eval.py verify $src $m "$t"
done
