#!/usr/bin/env python3
"""Regenerate seeded/INDEX.md from seeded/*/meta.json (verification + detection records)."""
import glob, json, os
HERE = os.path.dirname(os.path.abspath(__file__))
rows = []
for mp in sorted(glob.glob(os.path.join(HERE, "seeded", "*", "meta.json"))):
    mid = os.path.basename(os.path.dirname(mp))
    m = json.load(open(mp))
    v = m.get("verification", {})
    det = m.get("detection", {})
    caught = [c for c, r in det.items() if r.get("rc") == 1]
    missed = [c for c, r in det.items() if r.get("rc") == 0]
    err = [c for c, r in det.items() if r.get("rc") not in (0, 1)]
    first = ""
    for c in caught:
        if det[c].get("first"):
            first = det[c]["first"][0][:160]
            break
    rows.append((mid, m.get("property", "?"), (m.get("title") or m.get("description", ""))[:90].replace("|", "/"),
                 (m.get("what_it_needs_to_manifest", "") or "")[:160].replace("|", "/").replace("\n", " "),
                 "yes" if v.get("confirmed") else ("no: " + json.dumps({k: v.get(k) for k in ("patch_applies", "demo_without_patch_rc", "demo_with_patch_rc", "tests_unexpected_failures")})[:120] if v else "pending"),
                 ", ".join(caught) or "-", ", ".join(missed) or "-", ", ".join(err) or "-", first.replace("|", "/")))
with open(os.path.join(HERE, "seeded", "INDEX.md"), "w") as f:
    f.write("# Seeded changes (written by independent sub-agents from the property text alone)\n\n"
            "Each directory holds `patch.diff` (apply with `git -C /repo apply`), `demo.py` (fails with the change, passes "
            "without) and `meta.json` (what it needs to manifest; `verification` = our own confirmation in a scratch "
            "worktree; `detection` = exit codes of our quick checks with the patch applied to /repo).\n\n"
            "| id | property | change | needs | confirmed | caught by | not caught by | error | first violation line |\n|---|---|---|---|---|---|---|---|---|\n")
    for r in rows:
        f.write("| " + " | ".join(r) + " |\n")
    n = len(rows)
    c = sum(1 for r in rows if r[5] != "-")
    f.write(f"\n{c} of {n} seeded changes are caught by at least one quick check.\n")
print(open(os.path.join(HERE, "seeded", "INDEX.md")).read()[-600:])
