#!/usr/bin/env python3
"""Robustness matrix: run a GROUP of quick checks (not only the property's own) against each seeded change, in
scratch worktrees, and record the exit codes.  The interesting outcome is rc == 2: a seeded change must never
turn a check into a harness error.  usage: seeded_matrix.py <budget_s> <workers> id [id ...]"""
import json, os, subprocess, sys, time
VERIF = os.path.dirname(os.path.abspath(__file__))
ENVG = ["C01", "C02", "C03", "C04", "C05", "C06", "C07", "C08", "C09", "C18", "C19"]
DECG = ["C10", "C11", "C12", "C13", "C14", "C15"]
TRAING = ["C16", "C17", "C19", "C20", "C12"]


def group(mid):
    n = int(mid[1:3])
    if n <= 9 or n == 18:
        return ENVG
    if n in (10, 11, 12, 13, 14, 15):
        return DECG + (["C02", "C04"] if n in (12, 13) else [])
    return TRAING


def sh(cmd, cwd=None, timeout=3600, env=None):
    p = subprocess.run(cmd, shell=True, cwd=cwd, capture_output=True, text=True, timeout=timeout, env=env)
    return p.returncode, p.stdout + p.stderr


def main():
    budget, workers, ids = sys.argv[1], sys.argv[2], sys.argv[3:]
    for mid in ids:
        dst = os.path.join(VERIF, "seeded", mid)
        wt = f"/tmp/wt/x-{mid}"
        sh(f"git -C /repo worktree remove --force {wt}")
        sh(f"git -C /repo worktree add --detach {wt} HEAD")
        res = {}
        try:
            pf = os.path.join(dst, "patch_rebased.diff"); pf = pf if os.path.exists(pf) else os.path.join(dst, "patch.diff"); rc, out = sh(f"git apply {pf}", cwd=wt)
            if rc != 0:
                print(mid, "patch does not apply")
                continue
            env = dict(os.environ, RLSIM_REPO=wt, RLSIM_NO_EVIDENCE="1", VERIF_WORKERS=workers)
            for c in group(mid):
                rc, out = sh(f"./check {c} --tier quick --budget {budget} --det 0", cwd=VERIF, timeout=1800, env=env)
                res[c] = rc
                if rc == 2:
                    tail = [ln for ln in out.splitlines() if ln.strip()][-12:]
                    print(f"HARNESS-ERROR under {mid} in {c}:\n  " + "\n  ".join(t[:200] for t in tail), flush=True)
            print(mid, res, flush=True)
        finally:
            sh(f"git -C /repo worktree remove --force {wt}")
        mp = os.path.join(dst, "meta.json")
        meta = json.load(open(mp))
        meta.setdefault("matrix", {}).update(res)
        json.dump(meta, open(mp, "w"), indent=1)


if __name__ == "__main__":
    main()
