#!/bin/bash
# usage: seeded_detect.sh id:"checks" ...   (copies from /tmp/wt if missing; detection runs in scratch worktrees)
for m in "$@"; do
  id=${m%%:*}; ch=${m#*:}
  p=${id:0:3}
  if [[ $id == *-6* ]]; then src=/tmp/wt/m6-$p/_seeded6/${id: -1}; elif [[ $id == *-5* ]]; then src=/tmp/wt/m5-$p/_seeded5/${id: -1}; elif [[ $id == *-4* ]]; then src=/tmp/wt/m4-$p/_seeded4/${id: -1}; elif [[ $id == *-3* ]]; then src=/tmp/wt/m3-$p/_seeded3/${id: -1}; elif [[ $id == *-2* ]]; then src=/tmp/wt/m-$p/_seeded2/${id: -1}; else src=/tmp/wt/m-$p/_seeded/${id: -1}; fi
  d=/verif/seeded/$id; mkdir -p $d
  for f in patch.diff demo.py meta.json; do [ -f $d/$f ] || cp $src/$f $d/$f; done
  SEEDED_BUDGET=${SEEDED_BUDGET:-40} /venv/bin/python /verif/seeded_eval.py detect $id $ch 2>&1 | grep -v KNOWN | tail -3 | cut -c1-300
done
