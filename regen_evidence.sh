#!/bin/bash
# regenerate evidence/<id>.json for all checks from the current /repo working tree (quick tier, half the cores so
# that the committed figures are conservative); prints one line per check
for c in C01 C02 C03 C04 C05 C06 C07 C08 C09 C10 C11 C12 C13 C14 C15 C16 C17 C18 C19 C20; do
  out=$(VERIF_SEED=${VERIF_SEED:-1} ./check $c --tier quick --workers ${1:-8} 2>&1); rc=$?
  echo "rc=$rc $(echo "$out" | grep -E 'tier=' | tail -1)"
  if [ $rc -ne 0 ]; then echo "$out" | grep -E "^violation|^VIOLATION|HARNESS|Error" | cut -c1-300 | head -8; fi
done
