#!/usr/bin/env python3
"""Verify a seeded change delivered by an independent sub-agent and run our checks against it.

  seeded_eval.py verify <src_dir> <id>          copy to /verif/seeded/<id>, confirm in a scratch worktree that the
                                                demo passes without the patch, fails with it, and that the relevant
                                                existing tests still pass with it
  seeded_eval.py detect <id> C04 [C03 ...]      apply seeded/<id>/patch.diff to /repo, run the quick checks, undo

Never leaves /repo modified (git checkout -- . in a finally block)."""
import json
import os
import shutil
import subprocess
import sys
import time

VERIF = os.path.dirname(os.path.abspath(__file__))
PY = "/venv/bin/python"
KNOWN_FAIL = {"test_eda[DPPEnv]", "test_eda[MDPPEnv]", "test_am_policy[dpp]", "test_am_policy[mdpp]"}


def sh(cmd, cwd=None, timeout=3600):
    p = subprocess.run(cmd, shell=True, cwd=cwd, capture_output=True, text=True, timeout=timeout)
    return p.returncode, (p.stdout + p.stderr)


def _patch(dst):
    """patch_rebased.diff, when the line the change edits was itself repaired later (see meta.json 'rebased')"""
    r = os.path.join(dst, "patch_rebased.diff")
    return r if os.path.exists(r) else os.path.join(dst, "patch.diff")


def verify(src, mid, tests):
    dst = os.path.join(VERIF, "seeded", mid)
    os.makedirs(dst, exist_ok=True)
    keep = {}
    if os.path.exists(os.path.join(dst, "meta.json")):
        keep = json.load(open(os.path.join(dst, "meta.json"))).get("detection", {})
    for f in ("patch.diff", "demo.py", "meta.json"):
        if os.path.abspath(src) != os.path.abspath(dst):
            shutil.copy(os.path.join(src, f), os.path.join(dst, f))
    if keep:
        m0 = json.load(open(os.path.join(dst, "meta.json")))
        m0["detection"] = keep
        json.dump(m0, open(os.path.join(dst, "meta.json"), "w"), indent=1)
    wt = f"/tmp/wt/v-{mid}"
    sh(f"git -C /repo worktree remove --force {wt}")
    rc, out = sh(f"git -C /repo worktree add --detach {wt} HEAD")
    res = {}
    try:
        os.makedirs(os.path.join(wt, "_seeded", "x"), exist_ok=True)
        shutil.copy(os.path.join(dst, "demo.py"), os.path.join(wt, "_seeded", "x", "demo.py"))
        rc, out = sh(f"OMP_NUM_THREADS=4 PYTHONPATH={wt} {PY} _seeded/x/demo.py", cwd=wt, timeout=3600)
        res["demo_without_patch_rc"] = rc
        rc, out = sh(f"git apply {_patch(dst)}", cwd=wt)
        res["patch_applies"] = rc == 0
        rc, out = sh(f"OMP_NUM_THREADS=4 PYTHONPATH={wt} {PY} _seeded/x/demo.py", cwd=wt, timeout=3600)
        res["demo_with_patch_rc"] = rc
        res["demo_with_patch_tail"] = out.strip().splitlines()[-3:]
        rc, out = sh(f"OMP_NUM_THREADS=2 {PY} -m pytest -q -p no:cacheprovider --timeout=3000 {tests} 2>&1 | tail -15", cwd=wt,
                     timeout=14400)
        failed = [ln for ln in out.splitlines() if ln.startswith("FAILED")]
        unexpected = [ln for ln in failed if not any(k in ln for k in KNOWN_FAIL)]
        res["tests"] = tests
        res["tests_summary"] = out.strip().splitlines()[-1:] if out.strip() else []
        res["tests_unexpected_failures"] = unexpected
    finally:
        sh(f"git -C /repo worktree remove --force {wt}")
    res["confirmed"] = bool(res.get("patch_applies") and res.get("demo_without_patch_rc") == 0
                            and res.get("demo_with_patch_rc") not in (0, None)
                            and not res.get("tests_unexpected_failures"))
    mp = os.path.join(dst, "meta.json")
    meta = json.load(open(mp))  # re-read: a detection sweep may have written meanwhile
    meta["verification"] = res
    json.dump(meta, open(mp, "w"), indent=1)
    print(mid, json.dumps(res)[:600])


def detect(mid, checks, budget):
    """Apply the patch in a scratch worktree of /repo and run the quick checks against it (RLSIM_REPO), so
    /repo itself is never touched and sweeps can run in parallel.  (The registered checks always run
    against /repo; this is only the sensitivity experiment.)"""
    dst = os.path.join(VERIF, "seeded", mid)
    wt = f"/tmp/wt/d-{mid}"
    sh(f"git -C /repo worktree remove --force {wt}")
    rc, out = sh(f"git -C /repo worktree add --detach {wt} HEAD")
    results = {}
    try:
        rc, out = sh(f"git apply {_patch(dst)}", cwd=wt)
        if rc != 0:
            print(mid, "patch does not apply to the current HEAD", out[:300])
            results["_patch"] = {"rc": 2, "first": [out[:200]]}
        else:
            for c in checks:
                t0 = time.time()
                rc, out = sh(f"RLSIM_REPO={wt} RLSIM_NO_EVIDENCE=1 ./check {c} --tier quick --budget {budget} --det 0",
                             cwd=VERIF, timeout=1800)
                lines = [ln[:300] for ln in out.splitlines() if ln.startswith(("violation:", "VIOLATION"))]
                results[c] = {"rc": rc, "wall_s": round(time.time() - t0), "first": lines[:3]}
                print(mid, c, "rc", rc, (lines[:1] or [""])[0][:200])
    finally:
        sh(f"git -C /repo worktree remove --force {wt}")
    mp = os.path.join(dst, "meta.json")
    meta = json.load(open(mp))
    meta.setdefault("detection", {}).update(results)
    json.dump(meta, open(mp, "w"), indent=1)


if __name__ == "__main__":
    if sys.argv[1] == "verify":
        tests = sys.argv[4] if len(sys.argv) > 4 else "tests/test_envs.py tests/test_utils.py"
        verify(sys.argv[2], sys.argv[3], tests)
    elif sys.argv[1] == "detect":
        budget = os.environ.get("SEEDED_BUDGET", "40")
        detect(sys.argv[2], sys.argv[3:], budget)
