#!/bin/bash
# soak: run checks under several seeds / tiers; prints one line per run; non-zero exits are the interesting ones
# usage: ./soak.sh "<seeds>" <tier> [budget] [checks...]
seeds=${1:-"1 2 3"}; tier=${2:-quick}; budget=${3:-40}; shift 3
checks=${@:-C01 C02 C03 C04 C05 C06 C07 C08 C09 C10 C11 C12 C13 C14 C15 C16 C17 C18 C19 C20}
for s in $seeds; do for c in $checks; do
  out=$(./check $c --tier $tier --seed $s --budget $budget --det 4 2>&1); rc=$?
  echo "rc=$rc seed=$s $(echo "$out" | grep -E "tier=" | tail -1)"
  if [ $rc -ne 0 ]; then echo "$out" | grep -E "^violation|^VIOLATION|HARNESS|Error" | cut -c1-400 | head -12; fi
done; done
