"""C16 — training losses are the stated policy-gradient surrogates, with their gradients.

A run is one training history of a tiny model (AttentionModelPolicy / SymNCOPolicy, embed 32, one
encoder layer) on TSP or CVRP instances written in the plan: ``setup()``, then 1-6 successive
``shared_step(batch, i, "train")`` calls with ``on_train_epoch_end()`` callbacks scheduled between
them by the chooser, everything outside Lightning's loop (trainer shims, rlsim/train_util.py).
After every step the loss is recomputed in float64 from the recorded rollout (reward, log-likelihood,
critic value, dataset `extra`) and from the reference's *own* baseline state (EMA, warm-up alpha,
running advantage statistics), rewards and baseline values are checked to carry no gradient into the
policy, shared-baseline groups are checked to lie within one instance and to have zero-mean
advantages, and the gradient left on the parameters by ``backward()`` is compared with the autograd
gradient of the reference surrogate built on the same log-likelihood tensor.  PPO is checked at every
inner mini-batch step through the ``manual_backward`` shim."""
from __future__ import annotations

import contextlib
import math

import torch

from .. import envs as E
from .. import train_util as T
from ..kernel import HarnessError, StopRun, Streams
from ..ref import training as R

ALGOS = (["reinforce"] * 9) + ["pomo"] * 3 + ["symnco"] * 3 + ["a2c"] * 2 + ["ppo"] * 3
BASELINES = ["no", "mean", "exponential", "rollout", "rollout", "rollout", "warmup_string",
             "warmup_critic", "warmup_critic", "critic"]
GRAD_RTOL = 1e-4
GRAD_ATOL = 1e-7


def _L(t) -> list:
    return [float(x) for x in torch.as_tensor(t).detach().reshape(-1).tolist()]


def _hex(x: float) -> str:
    x = float(x)
    return x.hex() if x == x and abs(x) != float("inf") else repr(x)


def _scope(plan) -> str:
    a = plan["algo"]
    if a == "reinforce":
        return "REINFORCE/" + plan["baseline"]
    return {"pomo": "POMO", "symnco": "SymNCO", "a2c": "A2C", "ppo": "PPO"}[a]


class C16:
    prop = "C16"
    level = "exploration"
    chunk = 2
    rule = ("run = one training history: algorithm (REINFORCE x {no, mean, exponential, rollout with 1-3 "
            "warm-up epochs, 'warmup' registry form, warm-up over a critic, critic}, POMO, SymNCO, A2C, PPO) x "
            "env (tsp, cvrp; 5-8 nodes) x batch 4-8 x swarm knobs (normalisation, optimiser, learning rate, "
            "reward scaling, critic sharing the policy encoder, num_starts / num_augment, PPO inner epochs / "
            "mini-batch size / clip / lambdas / advantage normalisation) x 1-6 training steps with epoch "
            "callbacks scheduled between steps; every step is followed by loss, no-gradient, group and "
            "gradient comparisons with the float64 reference.  Non-trivial = at least two steps or an epoch "
            "callback before a step (stateful baseline exercised); distinct = distinct event-log digest.")
    components_real = ["rl4co.models.rl.reinforce.REINFORCE (shared_step, calculate_loss, on_train_epoch_end, "
                       "wrap_dataset, setup)", "rl4co.models.rl.reinforce.baselines.* (No, Mean/Exponential, "
                       "Warmup, Rollout incl. dataset wrapping, Critic, Shared)", "rl4co.models.rl.a2c.A2C",
                       "rl4co.models.rl.ppo.PPO.shared_step (inner loop, DataLoader over the rollout)",
                       "rl4co.models.zoo.pomo.POMO, rl4co.models.zoo.symnco.SymNCO + losses",
                       "rl4co.models.rl.common.critic.CriticNetwork", "RewardScaler inside calculate_loss",
                       "AttentionModelPolicy / SymNCOPolicy (embed 32, 1 layer) on the real TSP / CVRP envs",
                       "the models' own configure_optimizers (torch Adam / SGD)"]
    components_stub = ["Lightning Trainer (FakeTrainer + log/optimizers/manual_backward/clip_gradients shims; "
                       "automatic optimisation is played by the harness: zero_grad, backward, step)",
                       "env.generator replaced by a pool generator serving the plan's explicit instances"]
    assumptions = ["CPU float32", "instances from the real generators at 5-8 nodes",
                   "SymNCO's invariance term L_inv is taken as reported (it is not a policy-gradient term and the "
                   "property does not state it); its policy-gradient terms are recomputed",
                   "which SymNCO axis is 'starts' and which 'augmentations' is not demanded, only that each group "
                   "lies within one instance (DESIGN section 7)",
                   "the gradient comparison covers policy parameters (monitor grad_policy) and, separately, the "
                   "baseline's / critic's own parameters (monitor grad_baseline)"]
    required_probes = ["epoch_callback", "step_with_extra", "step_warmup_mix_eval", "ema_second_step",
                       "partial_last_batch", "critic_shares_encoder", "shared_groups_checked",
                       "ppo_partial_minibatch", "ppo_inner_step", "reward_scaled"]
    excluded = ["REINFORCE(baseline='shared') without POMO/SymNCO regrouping: SharedBaseline.eval needs a "
                "[batch, starts] reward (IndexError by construction)",
                "RolloutBaseline.eval on batches without `extra` while alpha > 0: never reached through "
                "wrap_dataset; the state handed to it is already terminal (AssertionError in the decoder)",
                "get_reinforce_baseline('warmup', baseline=...) : TypeError (duplicate argument) - warm-up over "
                "other inner baselines is built by constructing WarmupBaseline directly",
                "SymNCO(num_starts=None): constructor compares None > 1",
                "get_reinforce_baseline('warmup', n_epochs=k) nests WarmupBaseline(WarmupBaseline(Rollout)): at "
                "0 < alpha < 1 with a wrapped dataset the baseline value is taken as reported (the stated mixture of "
                "the nested form is open); alpha = 0 and alpha = 1 steps and the alpha schedule are checked",
                "PPO normalize_adv=True with a mini-batch of one row (sample std undefined -> NaN)",
                "A2C with a critic sharing the policy's encoder (its two optimiser groups would overlap; torch "
                "refuses) - the shared-encoder critic is exercised through REINFORCE(baseline='critic') and PPO"]
    CANARIES = {}

    # ---------------------------------------------------------------------------------------------
    @staticmethod
    def make_plan(run_seed: int, tier: str) -> dict:
        st = Streams(run_seed)
        rc = st.get("config")
        algo = rc.choice(ALGOS)
        env_name = rc.choice(["tsp", "tsp", "cvrp"])
        n = rc.randint(5, 8)
        B = rc.randint(4, 8)
        cfg = {"env": env_name, "n": n, "kw": {}, "gen": {"num_loc": n}}
        plan = {"algo": algo, "cfg": cfg, "B": B,
                "normalization": rc.choice(["batch", "instance"]),
                "optimizer": rc.choice(["Adam", "Adam", "SGD"]),
                "lr": rc.choice([1e-4, 1e-3, 1e-2]),
                "steps": rc.randint(1, 6 if tier == "quick" else 8),
                "p_epoch_end": rc.choice([0.0, 0.3, 0.5, 0.8]),
                "val_size": rc.randint(3, 6),
                "seed": rc.randrange(1 << 30)}
        spe = rc.randint(1, 3)
        rem = rc.choice([0, 0, rc.randint(1, B - 1)])
        if algo == "reinforce":
            bl = rc.choice(BASELINES)
            plan["baseline"] = bl
            plan["beta"] = rc.choice([0.3, 0.8, 0.9])
            plan["n_epochs"] = rc.randint(1, 3)
            plan["share_encoder"] = rc.random() < 0.4
            plan["reward_scale"] = rc.choice([None] * 8 + [10, "norm", "scale"])
            if bl in ("rollout", "warmup_string", "warmup_critic"):
                plan["p_epoch_end"] = rc.choice([0.3, 0.5, 0.8])
                spe = rc.randint(1, 2)
        elif algo == "pomo":
            plan["num_starts"] = rc.choice([None, 2, 3, n])
            plan["reward_scale"] = rc.choice([None] * 6 + [10, "norm", "scale"])
        elif algo == "symnco":
            S = rc.choice([0, 0, 2, 3, n])
            A = rc.choice([2, 3, 4]) if S == 0 else rc.choice([1, 2, 2, 3, 4])
            plan["num_starts"], plan["num_augment"] = S, A
            plan["sym_alpha"] = rc.choice([0.0, 0.2, 1.0])
            plan["sym_beta"] = rc.choice([0.5, 1, 1, 2.0])
        elif algo == "a2c":
            plan["share_encoder"] = False  # A2C.configure_optimizers puts actor and critic in two groups
            plan["critic_via"] = rc.choice(["kwargs", "object"])
            plan["reward_scale"] = rc.choice([None] * 6 + [10, "norm"])
        elif algo == "ppo":
            plan["steps"] = rc.randint(1, 3)
            plan["share_encoder"] = rc.random() < 0.4
            plan["ppo_epochs"] = rc.randint(1, 3)
            plan["clip_range"] = rc.choice([0.05, 0.1, 0.2, 0.3])
            plan["vf_lambda"] = rc.choice([0.5, 1.0, 0.1])
            plan["entropy_lambda"] = rc.choice([0.0, 0.01, 0.1])
            plan["normalize_adv"] = rc.random() < 0.35
            plan["max_grad_norm"] = rc.choice([None, 0.5, 1.0])
            plan["lr"] = rc.choice([1e-3, 1e-2, 3e-2])
            if plan["normalize_adv"]:
                rem = 0
                cands = [m for m in range(2, B + 3) if min(m, B) == B or B % m != 1]
                plan["mini_batch_size"] = rc.choice(cands)
            else:
                plan["mini_batch_size"] = rc.choice([1, 2, 3, 4, 5, B, B + 2, 0.25, 0.5, 1.0])
                if rc.random() < 0.1:  # the default fraction on a short last batch
                    plan["mini_batch_size"], spe, rem = 0.25, 1, rc.randint(1, 3)
        plan["train_size"] = B * spe + rem
        pool_n = min(max(2 * B, plan["train_size"]) + rc.randint(0, 5), 30)
        env = E.make_env(cfg)
        rows = E.gen_rows(env, cfg, pool_n, st.torch_seed("instances"))
        plan["instances"] = [E.enc_row(r) for r in rows]
        return plan

    @staticmethod
    def sample(run):
        p = {k: v for k, v in run.plan.items() if k != "instances"}
        return {"plan": p, "n_instances": len(run.plan["instances"]), "instance0": run.plan["instances"][0],
                "history": getattr(run, "history", [])}

    @staticmethod
    def shrink(plan):
        s = plan["steps"]
        for m in (1, s // 2, s - 1):
            if 1 <= m < s:
                p = dict(plan)
                p["steps"] = m
                yield p
        if plan.get("reward_scale") is not None:
            p = dict(plan)
            p["reward_scale"] = None
            yield p

    # ---------------------------------------------------------------------------------------------
    @staticmethod
    def execute(run):
        _History(run).drive()


# ------------------------------------------------------------------------------------------------
# model construction
# ------------------------------------------------------------------------------------------------
def _build(run, plan, env):
    from rl4co.models.rl import A2C, PPO, REINFORCE
    from rl4co.models.rl.reinforce import baselines as BL
    from rl4co.models.zoo import POMO, SymNCO

    algo = plan["algo"]
    name = plan["cfg"]["env"]
    common = dict(batch_size=plan["B"], train_data_size=plan["train_size"], val_data_size=plan["val_size"],
                  test_data_size=2, optimizer=plan["optimizer"], optimizer_kwargs={"lr": plan["lr"]})
    policy = T.tiny_policy(name, "symnco" if algo == "symnco" else "am", plan["normalization"])
    critic = None
    if algo == "reinforce":
        bl = plan["baseline"]
        kw = dict(reward_scale=plan["reward_scale"])
        if bl in ("no", "mean"):
            model = REINFORCE(env, policy, baseline=bl, **kw, **common)
        elif bl == "exponential":
            model = REINFORCE(env, policy, baseline="exponential", baseline_kwargs={"beta": plan["beta"]}, **kw,
                              **common)
        elif bl == "rollout":
            model = REINFORCE(env, policy, baseline="rollout",
                              baseline_kwargs={"n_epochs": plan["n_epochs"], "exp_beta": plan["beta"]}, **kw, **common)
        elif bl == "warmup_string":
            model = REINFORCE(env, policy, baseline="warmup",
                              baseline_kwargs={"n_epochs": plan["n_epochs"], "warmup_exp_beta": plan["beta"]}, **kw,
                              **common)
        elif bl == "critic":
            critic = T.tiny_critic(policy, plan["share_encoder"])
            model = REINFORCE(env, policy, baseline="critic", baseline_kwargs={"critic": critic}, **kw, **common)
        elif bl == "warmup_critic":
            critic = T.tiny_critic(policy, plan["share_encoder"])
            wb = BL.WarmupBaseline(BL.CriticBaseline(critic), n_epochs=plan["n_epochs"],
                                   warmup_exp_beta=plan["beta"])
            model = REINFORCE(env, policy, baseline=wb, **kw, **common)
        else:
            raise HarnessError(bl)
    elif algo == "pomo":
        model = POMO(env, policy, num_starts=plan["num_starts"], reward_scale=plan["reward_scale"], **common)
    elif algo == "symnco":
        model = SymNCO(env, policy, num_starts=plan["num_starts"], num_augment=plan["num_augment"],
                       alpha=plan["sym_alpha"], beta=plan["sym_beta"], **common)
    elif algo == "a2c":
        if plan["critic_via"] == "object" or plan["share_encoder"]:
            critic = T.tiny_critic(policy, plan["share_encoder"])
            model = A2C(env, policy, critic=critic, reward_scale=plan["reward_scale"], **common)
        else:
            model = A2C(env, policy, critic_kwargs=dict(embed_dim=32, hidden_dim=32),
                        reward_scale=plan["reward_scale"], **common)
            critic = model.baseline.critic
    elif algo == "ppo":
        critic = T.tiny_critic(policy, plan["share_encoder"])
        model = PPO(env, policy, critic=critic, clip_range=plan["clip_range"], ppo_epochs=plan["ppo_epochs"],
                    mini_batch_size=plan["mini_batch_size"], vf_lambda=plan["vf_lambda"],
                    entropy_lambda=plan["entropy_lambda"], normalize_adv=plan["normalize_adv"],
                    max_grad_norm=plan["max_grad_norm"], **common)
    else:
        raise HarnessError(algo)
    return model, policy, critic


# ------------------------------------------------------------------------------------------------
# the history driver
# ------------------------------------------------------------------------------------------------
class _History:
    def __init__(self, run):
        self.run = run
        self.plan = run.plan
        self.scope = _scope(run.plan)
        run.history = []

    # -- helpers --------------------------------------------------------------------------------
    def violate(self, monitor, message, constraint, scope=None, **detail):
        p = {k: v for k, v in self.plan.items() if k != "instances"}
        self.run.violate(scope or self.scope, monitor, message, constraint=constraint, step=self.step_no,
                         epoch=self.epoch, history=list(self.run.history), plan=p, **detail)

    def seed(self, *what):
        torch.manual_seed(self.run.streams.torch_seed("|".join(str(w) for w in (self.plan["seed"],) + what)))

    # -- main loop ------------------------------------------------------------------------------
    def drive(self):
        run, plan = self.run, self.plan
        self.step_no, self.epoch = 0, 0
        rows = [E.dec_row(r) for r in plan["instances"]]
        cfg = plan["cfg"]
        with run.guard(self.scope, "construct env"):
            env = E.make_env(cfg)
        env.generator = T.PoolGenerator(rows, env.generator)
        self.env = env
        self.seed("init")
        with run.guard(self.scope, "construct model"):
            self.model, self.policy, self.critic = _build(run, plan, env)
        model = self.model
        self.tap = T.PolicyTap(self.policy, "policy")
        self.ctap = T.PolicyTap(self.critic, "critic") if self.critic is not None else None
        self.sh = T.shim(model)
        with run.guard(self.scope, "model.setup()"):
            model.setup("fit")
        if plan.get("share_encoder") and self.critic is not None:
            run.probe("critic_shares_encoder")
        self._init_reference()
        self.policy_params = [p for p in self.policy.parameters() if p.requires_grad]
        pid = {id(p) for p in self.policy_params}
        aux = model.critic if plan["algo"] == "ppo" else getattr(model, "baseline", None)
        self.aux_params = [p for p in (aux.parameters() if aux is not None else [])
                           if p.requires_grad and id(p) not in pid]
        # only parameters the optimiser trains can receive a gradient that matters
        with run.guard(self.scope, "configure_optimizers"):
            opt = model.optimizers()
        trained = {id(p) for g in opt.param_groups for p in g["params"]}
        self.aux_params = [p for p in self.aux_params if id(p) in trained]
        model.train()
        loader = iter(model.train_dataloader())
        steps_in_epoch = 0
        epoch_ends = 0
        pending = None
        while self.step_no < plan["steps"]:
            if pending is None:
                pending = next(loader, None)
            can_end = steps_in_epoch >= 1 and epoch_ends < 5
            if pending is None:
                do_end = True
            elif can_end:
                p_end = plan["p_epoch_end"]
                do_end = run.chooser.pick(2, lambda: 1 if run.chooser.rng.random() < p_end else 0) == 1
            else:
                do_end = False
            if do_end:
                if steps_in_epoch < 1:
                    raise HarnessError("empty epoch")
                self._epoch_end()
                epoch_ends += 1
                steps_in_epoch = 0
                pending = None
                if getattr(self, "_last_of_fit", False):
                    # the next fit (or a validate / test call in between) runs setup() again on the same module:
                    # everything observed so far -- running advantage statistics, moving averages -- carries over
                    with run.guard(self.scope, "model.setup() of the next fit"):
                        model.setup("fit")
                    run.probe("setup_again")
                model.train()
                loader = iter(model.train_dataloader())
                continue
            batch, pending = pending, None
            if int(batch.batch_size[0]) != plan["B"]:
                run.probe("partial_last_batch")
            self._step(batch, steps_in_epoch)
            steps_in_epoch += 1
            self.step_no += 1
            if self.step_no >= 2 or epoch_ends >= 1:
                run.nontrivial = True
            run.tick()

    # -- reference state ------------------------------------------------------------------------
    def _init_reference(self):
        plan = self.plan
        self.ema = None
        self.warm = None
        self.adv_stats = R.RunningStats()
        self.reported_bypass = False
        if plan["algo"] == "reinforce":
            bl = plan["baseline"]
            if bl == "mean":
                self.ema = R.EMA(0.0)
            elif bl == "exponential":
                self.ema = R.EMA(plan["beta"])
            elif bl in ("rollout", "warmup_string", "warmup_critic"):
                self.warm = R.Warmup(plan["n_epochs"], plan["beta"])

    # -- epoch end ------------------------------------------------------------------------------
    def _epoch_end(self):
        run, model = self.run, self.model
        self.sh.trainer.current_epoch = self.epoch
        # one epoch end in three is the LAST epoch of a fit (trainer.max_epochs == epoch + 1) after which training
        # is continued with a larger max_epochs: the baseline's epoch callback (warm-up weight, rollout update)
        # belongs to the epoch that just ended, whether or not another one follows in this fit
        # (not with a greedy-rollout baseline: there the next fit re-wraps the training set in setup(), which this
        # harness does not replay; continuing on the unwrapped set hits rl4co's on-the-fly rollout path, which is
        # known not to work on a finished state -- observation, DESIGN 10.3)
        rollout_based = self.plan["algo"] == "reinforce" and self.plan.get("baseline") in ("rollout", "warmup_string")
        last_of_fit = (not rollout_based) and run.chooser.pick(3, lambda: run.chooser.rng.randrange(3)) == 0
        self.sh.trainer.max_epochs = self.epoch + 1 if last_of_fit else 1000
        self._last_of_fit = last_of_fit
        if last_of_fit:
            run.probe("epoch_end_last_of_fit")
            run.fault("fit_boundary")
        self.tap.clear()
        if self.ctap:
            self.ctap.clear()
        self.seed("epoch_end", self.epoch)
        try:
            with run.guard(self.scope, "on_train_epoch_end()", epoch=self.epoch):
                model.on_train_epoch_end()
        except StopRun as e:
            cause = e.__cause__
            if isinstance(cause, AssertionError) and "T-statistic" in str(cause):
                # RolloutBaseline.epoch_callback asserts t < 0 although candidate and baseline values tie up
                # to rounding (tiny validation set): nothing C16 states -> observation, not a violation
                run.violations.pop()
                run.probe("obs_rollout_ttest_assert")
                run.log.add("observation", "ttest assert", self.epoch)
            raise
        self.tap.clear()
        self.sh.trainer.max_epochs = 1000
        run.probe("epoch_callback")
        run.history.append(["epoch_end", self.epoch])
        if self.warm is not None:
            self.warm.callback(self.epoch)
            got = float(model.baseline.alpha)
            run.log.add("epoch_end", self.epoch, _hex(got))
            if got != self.warm.alpha:
                self.violate("warmup_alpha", f"after the callback of epoch {self.epoch} alpha = {got!r}, stated "
                             f"(epoch+1)/n_epochs = {self.warm.alpha!r}", "alpha", got=got, ref=self.warm.alpha)
                raise StopRun()
        else:
            run.log.add("epoch_end", self.epoch)
        self.epoch += 1

    # -- one training step ----------------------------------------------------------------------
    def _step(self, batch, batch_idx):
        run, plan, model = self.run, self.plan, self.model
        algo = plan["algo"]
        batch0 = batch.clone()
        self.batch0 = batch0
        self.tap.clear()
        if self.ctap:
            self.ctap.clear()
        opt = model.optimizers()
        self.seed("step", self.step_no)
        if algo == "ppo":
            self._ppo_step(batch, batch_idx)
            return
        opt.zero_grad()
        with run.guard(self.scope, 'shared_step(batch, i, "train")', step=self.step_no, B=int(batch0.batch_size[0])):
            out = model.shared_step(batch, batch_idx, "train")
        recs = [r for r in self.tap.records if r["main"] and r["grad_enabled"]]
        if len(recs) != 1:
            raise HarnessError(f"expected one training forward of the policy, saw {len(recs)}")
        po = recs[0]["out"]
        loss_t = out["loss"]
        if not isinstance(loss_t, torch.Tensor):
            raise HarnessError(f"loss is {loss_t!r}")
        reward_t, ll_t = po["reward"], po["log_likelihood"]
        Rw, LL = _L(reward_t), _L(ll_t)
        Bn = int(batch0.batch_size[0])
        run.history.append(["step", self.step_no, Bn, "extra" in batch0.keys()])
        # ---- rewards carry no gradient ------------------------------------------------------------
        if reward_t.requires_grad and T.reaches(reward_t, self.policy_params):
            self.violate("reward_grad", "the reward tensor has a gradient path into the policy parameters",
                         "reward_no_grad")
            raise StopRun()
        if algo == "symnco":
            ref_loss, ref_t, adv_res = self._ref_symnco(po, Rw, LL, Bn)
        else:
            ref_loss, ref_t, adv_res = self._ref_reinforce(po, Rw, LL, Bn, ll_t)
        got = float(loss_t)
        run.log.add("loss", self.step_no, _hex(got))
        if abs(got - ref_loss) > R.tol(ref_loss) + self.cond:
            self.violate("loss", f"step {self.step_no}: reported loss {got!r}, reference surrogate {ref_loss!r}",
                         "surrogate", got=got, ref=ref_loss, B=Bn, tol=R.tol(ref_loss) + self.cond)
            raise StopRun()
        self._grad_check(loss_t, ref_t, lambda: loss_t.backward(), ll_t.mean(), adv_res, len(Rw))
        with run.guard(self.scope, "optimizer.step()"):
            opt.step()
        run.state(self.scope, self.step_no, self.epoch, Bn, "extra" in batch0.keys())

    # -- REINFORCE family -----------------------------------------------------------------------
    def _critic_value(self):
        recs = [r for r in self.ctap.records if r["main"]]
        if not recs:
            # the stated baseline for this step needs the critic's value; the library did not evaluate the critic
            # at all (e.g. its warm-up weight is not where the configured schedule puts it)
            self.violate("baseline_value", f"step {self.step_no}: the baseline of this step is (partly) the critic's "
                         "value, but the library did not evaluate the critic", "critic_not_evaluated")
            raise StopRun()
        if len(recs) != 1:
            raise HarnessError(f"expected one critic forward, saw {len(recs)}")
        return recs[0]["out"]

    def _ref_reinforce(self, po, Rw, LL, Bn, ll_t):
        run, plan = self.run, self.plan
        algo = plan["algo"]
        n = len(Rw)
        bl_kind = plan["baseline"] if algo == "reinforce" else {"pomo": "shared", "a2c": "critic"}[algo]
        extra = self.batch0.get("extra", None) if "extra" in self.batch0.keys() else None
        bl_val_lib = po["bl_val"]
        bl_loss_t = None     # torch expression of the baseline's own loss (None = 0)
        bl_loss = 0.0
        v_t = None
        # ---- the baseline value the reference expects -----------------------------------------------
        if bl_kind == "no":
            b = 0.0
        elif bl_kind in ("mean", "exponential"):
            if self.ema.v is not None:
                run.probe("ema_second_step")
            b = self.ema.update(Rw)
        elif bl_kind == "shared":
            b, means = R.shared_baseline(Rw, Bn)
            self._check_shared(po, Rw, Bn, means)
        elif bl_kind == "critic":
            v_t = self._critic_value()
            b = _L(v_t)
            bl_loss = R.mse(b, Rw)
            bl_loss_t = R.t_mse(v_t, Rw)
        elif bl_kind in ("rollout", "warmup_string"):
            a = self.warm.alpha
            if extra is not None:
                run.probe("step_with_extra")
                ex = _L(extra)
                if len(ex) != n:
                    raise HarnessError("extra does not align with the batch")
                if a == 1:
                    b = ex
                elif a == 0:
                    raise HarnessError("dataset wrapped while alpha == 0")
                elif bl_kind == "warmup_string":
                    # get_reinforce_baseline("warmup") nests WarmupBaseline(WarmupBaseline(Rollout)): what the
                    # "stated" mixture of the nested form is stays open -> take the value as reported and
                    # re-synchronise the outer moving average from the library
                    run.probe("nested_warmup_mix_unchecked")
                    b = _L(bl_val_lib)
                    if len(b) != n:
                        b = ex
                    v_lib = self.model.baseline.warmup_baseline.v
                    self.warm.ema.v = None if v_lib is None else float(v_lib)
                else:
                    run.probe("step_warmup_mix_extra")
                    ema_before = self.warm.ema.v
                    b, _ = self.warm.value(Rw, ex, 0.0)
                    got_b = _L(bl_val_lib)
                    pure = len(got_b) == n and all(abs(got_b[i] - ex[i]) <= 1e-6 * max(1.0, abs(ex[i]))
                                                   for i in range(n))
                    mixed = len(got_b) == n and all(R.close(got_b[i], b[i]) for i in range(n))
                    if pure and not mixed:
                        if not self.reported_bypass:
                            self.reported_bypass = True
                            i = max(range(n), key=lambda j: abs(got_b[j] - b[j]))
                            self.violate("baseline_value", f"step {self.step_no} (epoch {self.epoch}, warm-up alpha="
                                         f"{a:.4g} of n_epochs={plan['n_epochs']}): the baseline subtracted from the reward "
                                         f"is the dataset's `extra` (pure rollout value {ex[i]!r}), not the warm-up "
                                         f"baseline's stated convex combination alpha*rollout+(1-alpha)*EMA = {b[i]!r}; "
                                         f"the exponential average is not advanced either",
                                         "warmup_mix_bypassed_by_extra", scope="REINFORCE/rollout", alpha=a,
                                         n_epochs=plan["n_epochs"], got=got_b[i], ref=b[i])
                        # re-synchronise with the library so that the rest of the history is still checked
                        self.warm.ema.v = ema_before
                        b = ex
            else:
                if a != 0:
                    raise HarnessError("unwrapped dataset while alpha > 0")
                if self.warm.ema.v is not None:
                    run.probe("ema_second_step")
                b, _ = self.warm.value(Rw, None, 0.0)
        elif bl_kind == "warmup_critic":
            a = self.warm.alpha
            if a > 0:
                v_t = self._critic_value()
                iv = _L(v_t)
                il = R.mse(iv, Rw)
                if a < 1:
                    run.probe("step_warmup_mix_eval")
                b, bl_loss = self.warm.value(Rw, iv, il)
                bl_loss_t = a * R.t_mse(v_t, Rw)
            else:
                b, bl_loss = self.warm.value(Rw, None, 0.0)
        else:
            raise HarnessError(bl_kind)
        # ---- baseline value as reported -------------------------------------------------------------
        b_list = b if isinstance(b, list) else [b] * n
        got_b = _L(bl_val_lib)
        if bl_kind == "shared":
            pass  # compared per instance in _check_shared
        elif len(got_b) == 1:
            if not all(R.close(got_b[0], x) for x in b_list):
                self.violate("baseline_value", f"step {self.step_no}: baseline value {got_b[0]!r}, reference "
                             f"{b_list[0]!r}", "value", got=got_b[0], ref=b_list[0], baseline=bl_kind)
                raise StopRun()
        else:
            bad = [i for i in range(min(n, len(got_b))) if not R.close(got_b[i], b_list[i])]
            if len(got_b) != n or bad:
                i = bad[0] if bad else 0
                self.violate("baseline_value", f"step {self.step_no}: baseline value has {len(got_b)} entries for {n} "
                             f"rollouts; entry {i} is {got_b[i] if got_b else None!r}, reference {b_list[i]!r}", "value",
                             got=got_b[:8], ref=b_list[:8], baseline=bl_kind)
                raise StopRun()
        # ---- baseline value carries no gradient into the policy ------------------------------------------
        if isinstance(bl_val_lib, torch.Tensor) and bl_val_lib.requires_grad:
            if T.reaches(bl_val_lib, self.policy_params):
                self.violate("baseline_grad_path", "the baseline value has a gradient path into the policy parameters",
                             "baseline_no_grad", baseline=bl_kind)
                raise StopRun()
            run.probe("baseline_value_requires_grad")
        # ---- advantage scaling ----------------------------------------------------------------------
        mode = plan.get("reward_scale")
        amap = None
        if mode is not None:
            run.probe("reward_scaled")
            if not isinstance(mode, int):
                adv_raw = [Rw[i] - b_list[i] for i in range(n)]
                self.adv_stats.observe([float(torch.tensor(a, dtype=torch.float32)) for a in adv_raw])
            stats = self.adv_stats

            def amap(adv):
                return R.scaler_transform(adv, mode, stats)
        ref_loss, ref_pg, adv = R.reinforce(Rw, LL, b_list, bl_loss, amap)
        run.log.add("ref", self.step_no, _hex(ref_loss), _hex(bl_loss))
        # conditioning: the advantages are float32 differences known to ~1e-6 * A (divided by the scaler's
        # divisor); each is multiplied by a log-likelihood of size max|ll| before the terms largely cancel
        A = max([1.0] + [abs(x) for x in Rw] + [abs(x) for x in b_list])
        den = 1.0
        if isinstance(mode, int):
            den = float(mode)
        elif mode in ("norm", "scale"):
            s_adv = self.adv_stats.mean_std()[1]
            if not (s_adv > 1e-3 * max(self.adv_stats.scale(), 1e-30)):
                run.probe("degenerate_advantage_std")  # all advantages equal: the scaled term is eps-dominated
                self.cond = 0.0
                return float(po["reinforce_loss"]) + bl_loss, None, 0.0
            den = s_adv + R.F32_EPS
        adv_res = 1e-6 * A / den
        cond = adv_res * max(abs(x) for x in LL) * (50.0 if mode in ("norm", "scale") else 1.0)
        self.cond = cond
        got_pg = float(po["reinforce_loss"])
        if abs(got_pg - ref_pg) > R.tol(ref_pg) + cond:
            self.violate("loss", f"step {self.step_no}: policy-gradient term {got_pg!r}, reference -mean((R-b)*ll) = "
                         f"{ref_pg!r}" + (f" (advantages scaled with {mode!r})" if mode is not None else ""),
                         "pg_term", got=got_pg, ref=ref_pg, baseline=bl_kind, tol=R.tol(ref_pg) + cond)
            raise StopRun()
        got_bl = float(po["bl_loss"])
        if not R.close(got_bl, bl_loss):
            self.violate("loss", f"step {self.step_no}: baseline loss {got_bl!r}, reference {bl_loss!r}", "bl_loss",
                         got=got_bl, ref=bl_loss, baseline=bl_kind)
            raise StopRun()
        ref_t = R.t_pg(adv, ll_t)
        if bl_loss_t is not None:
            ref_t = ref_t + bl_loss_t
        # the library standardises the advantages with float32 running statistics (Welford + a float32 square
        # root): their rounding enters every advantage, on top of the rounding of the difference itself
        return ref_loss, ref_t, adv_res * (10.0 if mode in ("norm", "scale") else 1.0)

    def _coords(self, i):
        b0 = self.batch0
        locs = b0["locs"][i].tolist()
        if self.plan["cfg"]["env"] == "cvrp":
            return [b0["depot"][i].tolist()] + locs
        return locs

    def _check_shared(self, po, Rw, Bn, means):
        """Groups of a shared baseline lie within one instance and have zero-mean advantages."""
        run = self.run
        name = self.plan["cfg"]["env"]
        n = len(Rw)
        if n % Bn:
            self.violate("shared_groups", f"{n} rollouts for {Bn} instances", "layout")
            raise StopRun()
        run.probe("shared_groups_checked")
        acts = po["actions"]
        # (a) flat row f is a rollout of instance f % B: its reward is the cost of its actions there
        for f in range(n):
            c = -R.tour_cost(name, self._coords(f % Bn), acts[f].tolist())
            if abs(c - Rw[f]) > 1e-4 * max(1.0, abs(c)):
                self.violate("rollout_identity", f"rollout {f}: reward {Rw[f]!r} is not the cost {c!r} of its actions on "
                             f"instance {f % Bn}", "row_instance", row=f, got=Rw[f], ref=c)
                raise StopRun()
        blv = po.get("bl_val") if isinstance(po, dict) else None
        if blv is None:
            return
        gb = _L(blv)
        if len(gb) != Bn:
            self.violate("shared_groups", f"shared baseline has {len(gb)} values ({tuple(blv.shape)}) for {Bn} instances",
                         "one_value_per_instance", shape=list(blv.shape))
            raise StopRun()
        S = n // Bn
        for i in range(Bn):
            if not R.close(gb[i], means[i]):
                self.violate("shared_groups", f"instance {i}: shared baseline {gb[i]!r}, mean reward of its own {S} "
                             f"rollouts {means[i]!r}", "group_mean", instance=i, got=gb[i], ref=means[i])
                raise StopRun()
            s = math.fsum(Rw[f] - gb[i] for f in range(i, n, Bn))
            if abs(s) > 1e-5 * S * max(1.0, abs(means[i])):
                self.violate("shared_groups", f"instance {i}: advantages sum to {s!r}", "zero_mean", instance=i, got=s)
                raise StopRun()

    # -- SymNCO ---------------------------------------------------------------------------------
    def _ref_symnco(self, po, Rw, LL, Bn):
        run, plan = self.run, self.plan
        name = plan["cfg"]["env"]
        S0, A0 = plan["num_starts"], plan["num_augment"]
        S = S0 if S0 > 1 else 1
        A = A0 if A0 > 1 else 1
        n = len(Rw)
        if n != Bn * S * A:
            self.violate("shared_groups", f"{n} rollouts for {Bn} instances x {S} starts x {A} augmentations", "layout")
            raise StopRun()
        run.probe("shared_groups_checked")
        acts = po["actions"]
        for f in range(n):
            c = -R.tour_cost(name, self._coords(f % Bn), acts[f].tolist())
            if abs(c - Rw[f]) > 1e-4 * max(1.0, abs(c)):
                self.violate("rollout_identity", f"rollout {f}: reward {Rw[f]!r} is not the cost {c!r} of its actions on "
                             f"instance {f % Bn} (augmentation must preserve costs)", "row_instance", row=f, got=Rw[f],
                             ref=c)
                raise StopRun()
        inv_t = po.get("loss_inv", 0)
        inv = float(inv_t)
        total, ps, ss = R.symnco(Rw, LL, Bn, S0, A0, plan["sym_beta"], plan["sym_alpha"], inv)
        amag = max([1.0] + [abs(x) for x in Rw])
        self.cond = 1e-6 * amag * max(abs(x) for x in LL) * (1.0 + plan["sym_beta"])
        for key, ref in (("loss_ps", ps), ("loss_ss", ss)):
            got = float(po[key])
            if abs(got - ref) > R.tol(ref) + self.cond:
                self.violate("loss", f"step {self.step_no}: {key} = {got!r}, reference group-mean REINFORCE term {ref!r}",
                             key, got=got, ref=ref, S=S, A=A)
                raise StopRun()
        blocks, strides = R.symnco_groups(Bn, S, A)
        ll_t = po["log_likelihood"]
        ref_t = torch.zeros((), dtype=torch.float64)
        if S > 1:
            ref_t = ref_t + R.t_pg(R.group_mean_pg(Rw, LL, blocks)[1], ll_t)
        if A > 1:
            ref_t = ref_t + plan["sym_beta"] * R.t_pg(R.group_mean_pg(Rw, LL, strides)[1], ll_t)
            if isinstance(inv_t, torch.Tensor):
                ref_t = ref_t + plan["sym_alpha"] * inv_t.double()
        return total, ref_t, 1e-6 * amag * (1.0 + plan["sym_beta"])

    # -- gradients ------------------------------------------------------------------------------
    def _grad_check(self, loss_t, ref_t, do_backward, ll_mean_t=None, adv_res=0.0, n=1, ref32_t=None):
        """ll_mean_t / adv_res / n: conditioning of the comparison.  The advantages entering the surrogate
        are float32 differences known to about adv_res; an error of that size on each of n rollouts moves
        the gradient by up to adv_res * mean_i |grad ll_i| <~ adv_res * sqrt(n) * |grad mean(ll)|.  Without
        this floor a step whose advantages cancel (mean baseline on a batch of one) compares noise."""
        run = self.run
        if ref_t is None:
            do_backward()
            return
        params = self.policy_params + self.aux_params
        g_ref = torch.autograd.grad(ref_t, params, retain_graph=True, allow_unused=True) \
            if ref_t.requires_grad else [None] * len(params)
        floor = 0.0
        if ll_mean_t is not None and adv_res > 0 and ll_mean_t.requires_grad:
            g_ll = torch.autograd.grad(ll_mean_t, self.policy_params, retain_graph=True, allow_unused=True)
            floor = adv_res * math.sqrt(n) * math.sqrt(sum(float((g.double() ** 2).sum()) for g in g_ll
                                                            if g is not None))
        # conditioning yardstick: the same reference formula evaluated in float32 (see R.as_float32)
        cond = [0.0, 0.0]
        if ref32_t is not None and ref32_t.requires_grad:
            g32 = torch.autograd.grad(ref32_t, params, retain_graph=True, allow_unused=True)
            kk = len(self.policy_params)
            for idx, (a32, a64) in enumerate(zip(g32, g_ref)):
                if a32 is None and a64 is None:
                    continue
                x = a32.double() if a32 is not None else 0.0
                y = a64.double() if a64 is not None else 0.0
                cond[0 if idx < kk else 1] += float(((x - y) ** 2).sum())
            cond = [math.sqrt(c) for c in cond]
        for p in params:
            p.grad = None
        with run.guard(self.scope, "backward()", step=self.step_no):
            do_backward()
        k = len(self.policy_params)
        for name, lo, hi, monitor in (("policy", 0, k, "grad_policy"), ("baseline", k, len(params), "grad_baseline")):
            if hi <= lo:
                continue
            num = den = got = 0.0
            for p, g in zip(params[lo:hi], g_ref[lo:hi]):
                a = p.grad.double() if p.grad is not None else torch.zeros_like(p, dtype=torch.float64)
                r = g.double() if g is not None else torch.zeros_like(p, dtype=torch.float64)
                num += float(((a - r) ** 2).sum())
                den += float((r ** 2).sum())
                got += float((a ** 2).sum())
            num, den, got = math.sqrt(num), math.sqrt(den), math.sqrt(got)
            run.log.add("grad", self.step_no, name, _hex(round(got, 6)))
            fl = (floor if name == "policy" else 0.0) + 4.0 * cond[0 if name == "policy" else 1]
            if cond[0 if name == "policy" else 1] > GRAD_RTOL * den:
                run.probe("grad_float32_conditioning_dominates")
            if not (num <= GRAD_RTOL * den + GRAD_ATOL + fl) or got != got:
                self.violate(monitor, f"step {self.step_no}: gradient on the {name} parameters differs from the gradient "
                             f"of the reference surrogate: |g - g_ref| = {num:.6g}, |g_ref| = {den:.6g}, |g| = {got:.6g}",
                             "gradient", diff=num, ref_norm=den, got_norm=got, floor=fl)
                raise StopRun()
            if den > 0:
                run.probe("grad_nonzero_" + name)
            if fl > GRAD_RTOL * den:
                run.probe("grad_floor_dominates")

    # -- PPO ------------------------------------------------------------------------------------
    def _ppo_step(self, batch, batch_idx):
        run, plan, model = self.run, self.plan, self.model
        Bn = int(self.batch0.batch_size[0])
        run.history.append(["step", self.step_no, Bn, False])
        st = {"inner": 0, "last": None, "used": [], "sizes": []}

        def on_backward(loss):
            self._ppo_inner(loss, st, Bn)

        self.sh.on_backward = on_backward
        try:
            with run.guard(self.scope, 'shared_step(batch, i, "train")', step=self.step_no, B=Bn):
                out = model.shared_step(batch, batch_idx, "train")
        finally:
            self.sh.on_backward = None
        if st["inner"] == 0:
            raise HarnessError("PPO made no inner step")
        mb = plan["mini_batch_size"]
        mb = max(1, int(Bn * mb)) if isinstance(mb, float) else mb
        mb = min(mb, Bn)
        if Bn % mb:
            run.probe("ppo_partial_minibatch")
        # every inner epoch is one pass over the rollout (harness sanity: attribution of rows)
        per_epoch = math.ceil(Bn / mb)
        if st["inner"] != per_epoch * plan["ppo_epochs"]:
            raise HarnessError(f"{st['inner']} inner steps, expected {per_epoch * plan['ppo_epochs']}")
        for e in range(plan["ppo_epochs"]):
            rows = sorted(r for chunk in st["used"][e * per_epoch:(e + 1) * per_epoch] for r in chunk)
            if rows != list(range(Bn)):
                raise HarnessError(f"inner epoch {e} visited rows {rows}")
        got = float(out["loss"])
        last = st["last"]
        nscale = 30.0 if plan["normalize_adv"] else 1.0   # (A - mean) / std in float32, as for the inner steps
        if not R.close(got, last["total"], base=1e-5 * nscale):
            self.violate("loss", f"step {self.step_no}: reported loss {got!r}, reference of the last mini-batch "
                         f"{last['total']!r}", "reported_last", got=got, ref=last["total"])
            raise StopRun()
        for key, ref in (("train/surrogate_loss", last["surr"]), ("train/value_loss", last["vl"]),
                         ("train/entropy", last["ent"])):
            if key in out and not R.close(float(out[key]), ref, base=1e-5 * (nscale if "surrogate" in key else 1.0)):
                self.violate("loss", f"step {self.step_no}: reported {key} = {float(out[key])!r}, reference {ref!r}",
                             "reported_" + key.split("/")[1], got=float(out[key]), ref=ref)
                raise StopRun()
        run.state(self.scope, self.step_no, self.epoch, Bn, mb, plan["ppo_epochs"])

    def _ppo_inner(self, loss_t, st, Bn):
        run, plan = self.run, self.plan
        k = st["inner"]
        st["inner"] += 1
        run.probe("ppo_inner_step")
        prec = [r for r in self.tap.records if r["main"]]
        crec = [r for r in self.ctap.records if r["main"]]
        if len(prec) != k + 2 or len(crec) != k + 1 or prec[0]["grad_enabled"]:
            raise HarnessError(f"PPO tap out of step: {len(prec)} policy / {len(crec)} critic forwards at inner {k}")
        roll = prec[0]["out"]                      # the rollout under no_grad
        R0, LL0, A0 = _L(roll["reward"]), _L(roll["log_likelihood"]), roll["actions"]
        locs0 = prec[0]["args"][0]["locs"]
        cur = prec[-1]["out"]
        sub = crec[-1]["args"][0]
        v_t = crec[-1]["out"]
        ll_t, ent_t = cur["log_likelihood"], cur["entropy"]
        b = int(sub.batch_size[0])
        # ---- which rollout rows are in this mini-batch ----------------------------------------------
        rows = []
        for r in range(b):
            m = [i for i in range(Bn) if torch.equal(sub["locs"][r], locs0[i])]
            if len(m) != 1:
                raise HarnessError(f"mini-batch row {r} matches rollout rows {m}")
            rows.append(m[0])
        st["used"].append(rows)
        st["sizes"].append(b)
        old_lp, old_r = _L(sub["logprobs"]), _L(sub["reward"])
        for r, i in enumerate(rows):
            same_act = torch.equal(sub["action"][r], A0[i])
            if old_lp[r] != LL0[i] or old_r[r] != R0[i] or not same_act:
                self.violate("ppo_rollout_identity", f"inner step {k}: mini-batch row {r} is instance {i} but carries "
                             f"old log-prob {old_lp[r]!r} / reward {old_r[r]!r} / actions equal={same_act}; the rollout "
                             f"gave {LL0[i]!r} / {R0[i]!r}", "old_values", inner=k, row=r, instance=i)
                raise StopRun()
        for name, t in (("old log-probability", sub["logprobs"]), ("reward", sub["reward"])):
            if t.requires_grad:
                self.violate("reward_grad", f"inner step {k}: the stored {name} requires grad", "reward_no_grad")
                raise StopRun()
        if ll_t.dim() != 2 or ll_t.shape[0] != b or tuple(v_t.shape) != (b, 1) or ent_t.numel() != b:
            raise HarnessError(f"unexpected shapes ll {tuple(ll_t.shape)} v {tuple(v_t.shape)} ent {tuple(ent_t.shape)}")
        ll_new = _L(ll_t.sum(-1))
        Rsub = [R0[i] for i in rows]
        old = [LL0[i] for i in rows]
        V = _L(v_t)
        total, surr, vl, ent, ratio, adv = R.ppo(ll_new, old, Rsub, V, _L(ent_t), plan["clip_range"],
                                                 plan["vf_lambda"], plan["entropy_lambda"], plan["normalize_adv"])
        got = float(loss_t)
        run.log.add("ppo", self.step_no, k, b, _hex(got))
        st["last"] = {"total": total, "surr": surr, "vl": vl, "ent": ent}
        if any(abs(x - 1.0) > plan["clip_range"] for x in ratio):
            run.probe("ppo_ratio_clipped")
        scale = 30.0 if plan["normalize_adv"] else 1.0   # (A - mean) / std in float32
        if not R.close(got, total, base=1e-5 * scale):
            self.violate("loss", f"step {self.step_no}, inner step {k} (mini-batch of {b}): loss {got!r}, reference "
                         f"clipped surrogate + {plan['vf_lambda']}*Huber - {plan['entropy_lambda']}*entropy = {total!r} "
                         f"(surrogate {surr!r}, value {vl!r}, entropy {ent!r})", "ppo_objective", got=got, ref=total,
                         inner=k, mb=b, ratios=ratio[:8])
            raise StopRun()
        ref_t = R.t_ppo(ll_t, old, adv, v_t, Rsub, ent_t, plan["clip_range"], plan["vf_lambda"],
                        plan["entropy_lambda"])
        A = max([1.0] + [abs(x) for x in Rsub] + [abs(x) for x in V])
        den = 1.0
        if plan["normalize_adv"]:
            den = R.two_pass([Rsub[i] - V[i] for i in range(b)])[1] + 1e-8
        with R.as_float32():
            ref32_t = R.t_ppo(ll_t, old, adv, v_t, Rsub, ent_t, plan["clip_range"], plan["vf_lambda"],
                              plan["entropy_lambda"])
        self._grad_check(loss_t, ref_t, lambda: loss_t.backward(), ll_t.sum(-1).mean(),
                         1e-6 * A / den * (1.0 + plan["clip_range"]), b, ref32_t=ref32_t)


# ------------------------------------------------------------------------------------------------
# canary mutants (in-memory regressions of the anchors; DESIGN Appendix C row C16)
# ------------------------------------------------------------------------------------------------
@contextlib.contextmanager
def _swap(obj, attr, new):
    old = obj.__dict__[attr] if attr in obj.__dict__ else getattr(obj, attr)
    setattr(obj, attr, new)
    try:
        yield
    finally:
        setattr(obj, attr, old)


def _canary_advantage_sign():
    """advantage = bl_val - reward."""
    from rl4co.models.rl.reinforce.reinforce import REINFORCE

    def calculate_loss(self, td, batch, policy_out, reward=None, log_likelihood=None):
        extra = batch.get("extra", None)
        reward = reward if reward is not None else policy_out["reward"]
        log_likelihood = log_likelihood if log_likelihood is not None else policy_out["log_likelihood"]
        bl_val, bl_loss = self.baseline.eval(td, reward, self.env) if extra is None else (extra, 0)
        advantage = bl_val - reward
        advantage = self.advantage_scaler(advantage)
        reinforce_loss = -(advantage * log_likelihood).mean()
        loss = reinforce_loss + bl_loss
        policy_out.update({"loss": loss, "reinforce_loss": reinforce_loss, "bl_loss": bl_loss, "bl_val": bl_val})
        return policy_out

    return _swap(REINFORCE, "calculate_loss", calculate_loss)


def _canary_shared_mean_dim0():
    """shared baseline averaged over the batch axis after regrouping (`.mean(0)`)."""
    from rl4co.models.rl.reinforce.baselines import SharedBaseline

    def ev(self, td, reward, env=None, on_dim=0):
        return reward.mean(dim=on_dim, keepdims=True), 0

    return _swap(SharedBaseline, "eval", ev)


def _canary_critic_not_detached():
    """critic baseline value returned with its graph."""
    import torch.nn.functional as F

    from rl4co.models.rl.reinforce.baselines import CriticBaseline

    def ev(self, x, c, env=None):
        v = self.critic(x).squeeze(-1)
        return v, F.mse_loss(v, c.detach())

    return _swap(CriticBaseline, "eval", ev)


def _canary_critic_no_squeeze():
    """critic value kept as [B,1]: reward[B] - value[B,1] silently forms a BxB advantage matrix."""
    import torch.nn.functional as F

    from rl4co.models.rl.reinforce.baselines import CriticBaseline

    def ev(self, x, c, env=None):
        v = self.critic(x)
        return v.detach(), F.mse_loss(v.squeeze(-1), c.detach())

    return _swap(CriticBaseline, "eval", ev)


class _TorchProxy:
    """Stands in for the `torch` / `F` module global of rl4co.models.rl.ppo.ppo with a few functions
    overridden."""

    def __init__(self, real, **over):
        self._real = real
        self._over = over

    def __getattr__(self, name):
        over = self.__dict__["_over"]
        if name in over:
            return over[name]
        return getattr(self.__dict__["_real"], name)


def _canary_ppo_ratio_inverted():
    """ratio = exp(old - new)."""
    from rl4co.models.rl.ppo import ppo as M

    return _swap(M, "torch", _TorchProxy(torch, exp=lambda x: torch.exp(-x)))


def _canary_ppo_clamp_swapped():
    """clamp(ratio, 1 + eps, 1 - eps)."""
    from rl4co.models.rl.ppo import ppo as M

    return _swap(M, "torch", _TorchProxy(torch, clamp=lambda x, lo, hi: torch.clamp(x, hi, lo)))


def _canary_ppo_value_detached():
    """value loss computed on the detached prediction (critic never learns)."""
    import torch.nn.functional as F

    from rl4co.models.rl.ppo import ppo as M

    return _swap(M, "F", _TorchProxy(F, huber_loss=lambda v, r: F.huber_loss(v.detach(), r)))


def _canary_ppo_value_mse():
    """value loss MSE instead of the stated Huber loss."""
    import torch.nn.functional as F

    from rl4co.models.rl.ppo import ppo as M

    return _swap(M, "F", _TorchProxy(F, huber_loss=lambda v, r: F.mse_loss(v, r)))


def _canary_symnco_group_dim0():
    """problem-symmetricity baseline averaged over the batch axis (mixes instances)."""
    from rl4co.models.zoo.symnco import model as M

    def ps(reward, log_likelihood, dim=1):
        if reward.shape[dim] < 2:
            return 0
        advantage = reward - reward.mean(dim=0, keepdim=True)
        return (-advantage * log_likelihood).mean()

    def ss(reward, log_likelihood, dim=-1):
        if reward.shape[dim] < 2:
            return 0
        advantage = reward - reward.mean(dim=0, keepdim=True)
        return (-advantage * log_likelihood).mean()

    @contextlib.contextmanager
    def cm():
        with _swap(M, "problem_symmetricity_loss", ps), _swap(M, "solution_symmetricity_loss", ss):
            yield

    return cm()


def _canary_reinforce_sum():
    """-(advantage * ll).sum() instead of the mean."""
    from rl4co.models.rl.reinforce.reinforce import REINFORCE

    def calculate_loss(self, td, batch, policy_out, reward=None, log_likelihood=None):
        extra = batch.get("extra", None)
        reward = reward if reward is not None else policy_out["reward"]
        log_likelihood = log_likelihood if log_likelihood is not None else policy_out["log_likelihood"]
        bl_val, bl_loss = self.baseline.eval(td, reward, self.env) if extra is None else (extra, 0)
        advantage = self.advantage_scaler(reward - bl_val)
        reinforce_loss = -(advantage * log_likelihood).sum()
        loss = reinforce_loss + bl_loss
        policy_out.update({"loss": loss, "reinforce_loss": reinforce_loss, "bl_loss": bl_loss, "bl_val": bl_val})
        return policy_out

    return _swap(REINFORCE, "calculate_loss", calculate_loss)


C16.CANARIES = {
    "advantage_sign": _canary_advantage_sign,
    "shared_mean_dim0": _canary_shared_mean_dim0,
    "critic_not_detached": _canary_critic_not_detached,
    "critic_no_squeeze": _canary_critic_no_squeeze,
    "ppo_ratio_inverted": _canary_ppo_ratio_inverted,
    "ppo_clamp_swapped": _canary_ppo_clamp_swapped,
    "ppo_value_detached": _canary_ppo_value_detached,
    "ppo_value_mse": _canary_ppo_value_mse,
    "symnco_group_dim0": _canary_symnco_group_dim0,
    "reinforce_sum": _canary_reinforce_sum,
}
