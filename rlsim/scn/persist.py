"""C19 — persistence round trips preserve instances, environments and policies.

Operation sequences with crash points (crash = every Python object of the writer is dropped; only the
SimFS / the per-run temp dir survives).  Five kinds of runs:

* ``npz``      save_tensordict_to_npz (plain / compressed; SimFile or path) -> crash -> load_npz_to_tensordict
* ``genfile``  generate_dataset / generate_env_data / generator output saved as npz -> env.load_data /
               env.dataset(phase) -> content compared with the same instance fed directly, then episodes along a
               scheduled action sequence: masks and reward must coincide
* ``sched``    fjsp.parser.write (JSSP: a harness writer in the parser's documented format) -> directory (listdir
               shuffled) -> FJSPFileGenerator / JSSPFileGenerator / env.load_data / env.dataset -> multiset of
               instances equal up to padding, then episodes
* ``envcopy``  copy.deepcopy / pickle of the environment at scheduled ticks mid-episode (env-restart), optionally
               followed by an unrelated episode on the original object; masks and reward equal the uninterrupted
               run; a pickled env carries the RNG state it had when pickled
* ``ckpt``     Trainer.fit of a tiny REINFORCE model -> save_checkpoint -> crash -> load_from_checkpoint
               (load_baseline on/off, path / file object) -> restored policy and restored rollout-baseline policy
               give the same greedy actions and rewards on fresh instances

Storage faults (short / torn / bit-flipped files) are outside the property; they run in an observational mode
("load raises, or returns what was saved"), are counted (run.fault) and never reported as violations.
"""
from __future__ import annotations

import contextlib
import copy
import gc
import io
import os
import pickle

import numpy as np
import torch

from .. import drive as D
from .. import envs as E
from .. import persist_util as PU
from ..kernel import H, HarnessError, StopRun, Streams, innermost_project_frame, patched
from ..ref import data as R

KINDS = ["npz", "genfile", "sched", "envcopy", "ckpt"]
KIND_WEIGHTS = {"quick": [0.15, 0.24, 0.15, 0.28, 0.18], "thorough": [0.15, 0.24, 0.15, 0.28, 0.18]}

# generate_data.py problem name per environment
GD_PROBLEM = {"tsp": "tsp", "cvrp": "vrp", "sdvrp": "vrp", "pctsp": "pctsp", "spctsp": "pctsp", "op": "op",
              "pdp": "pdp", "atsp": "atsp"}
# generator output saved with save_tensordict_to_npz and read back with env.load_data (cvrp/sdvrp expect raw
# demand files, fjsp/jssp directories, dpp/mdpp have a loader of their own on the generator)
GENSAVE_ENVS = ["tsp", "atsp", "cvrptw", "svrp", "op", "pctsp", "spctsp", "pdp", "mtsp", "mdcpdp", "mtvrp",
                "ffsp", "smtwtp", "flp", "mcp"]
CKPT_BASELINES = ["no", "exponential", "mean", "rollout", "rollout", "rollout", "warmup2", "warmup2", "critic",
                  "pomo", "pomo"]  # pomo = POMO(policy=<object>, shared baseline, multistart decode types)


def _tol(ref: float, n: int = 1) -> float:
    return 1e-5 * max(1.0, abs(ref)) * max(1.0, n) ** 0.5


def _td_dict(td):
    return {k: td[k] for k in td.keys()}


def _observe(run, what, fn, expected=()):
    """Run library code whose failure the property does not speak about: (True, result) or (False, exc).
    `expected`: exception types that are the observation itself, wherever they are raised."""
    try:
        return True, fn()
    except (HarnessError, StopRun):
        raise
    except Exception as e:  # noqa: BLE001
        where, f, func, _ = innermost_project_frame(e)
        if where == "verif" and not isinstance(e, expected):
            raise
        run.log.add("observed-exception", what, type(e).__name__, f, func)
        return False, e


# ------------------------------------------------------------------------------------------------
# episode driving (record on one object, replay on the other)
# ------------------------------------------------------------------------------------------------
def _drive(run, scope, env, cfg, td_in, strategies, what):
    """Lock-step episode under the scheduler.  Returns the record or None when a finished row has no
    admitted padding action / the generic step cap is hit (both are other properties' business)."""
    with run.guard(scope, f"reset ({what})"):
        td = env.reset(td_in)
    B = td.batch_size[0]
    cap = D.step_bound_generic(cfg, td)
    rec = {"actions": [], "masks": [], "B": B}
    t = 0
    while True:
        done = E.done_vec(td)
        if bool(done.all()):
            break
        if t > cap:
            run.probe("episode_step_cap")
            return None
        bits, acts = [], []
        for i in range(B):
            bits.append(D.mask_bits(td["action_mask"][i]))
            opts = D.admitted(td["action_mask"][i])
            if not opts:
                run.probe("row_without_action")
                return None
            if bool(done[i]):
                acts.append(opts[0])
            else:
                acts.append(D.choose(run, strategies[i % len(strategies)], td, i, opts))
        rec["masks"].append(bits)
        rec["actions"].append(acts)
        with run.guard(scope, f"step ({what})", tick=t):
            td = E.step(env, td, torch.tensor(acts))
        run.tick()
        t += 1
    rec["final_masks"] = [D.mask_bits(td["action_mask"][i]) for i in range(B)]
    rec["T"] = t
    if t == 0:
        run.probe("episode_done_at_reset")
        return None
    with run.guard(scope, f"get_reward ({what})"):
        r = env.get_reward(td, torch.tensor(rec["actions"]).T.contiguous())
    rec["reward"] = [float(x) for x in torch.as_tensor(r).flatten().tolist()]
    if len(rec["reward"]) != B:
        run.probe("reward_shape_unexpected")
        return None
    run.log.add("episode", what, rec["actions"], [x.hex() if x == x else "nan" for x in rec["reward"]])
    return rec


def _replay(run, scope, env, cfg, td_in, rec, what, monitor, hooks=None, **detail):
    """Same action sequence on another object; masks per tick and reward must coincide with the record.
    hooks: {tick: fn(env, td) -> env} applied before the masks of that tick are read."""
    with run.guard(scope, f"reset ({what})"):
        td = env.reset(td_in)
    B = rec["B"]
    if td.batch_size[0] != B:
        run.violate(scope, monitor, f"{what}: batch of {td.batch_size[0]} rows, expected {B}", constraint="count",
                    **detail)
        raise StopRun()
    for t in range(rec["T"]):
        if hooks and t in hooks:
            env = hooks[t](env, td)
        bits = [D.mask_bits(td["action_mask"][i]) for i in range(B)]
        if bits != rec["masks"][t]:
            i = [j for j in range(B) if bits[j] != rec["masks"][t][j]][0]
            run.violate(scope, monitor, f"{what}: tick {t} row {i}: mask {bits[i]} != {rec['masks'][t][i]} of the "
                        f"reference episode", constraint="mask", tick=t, row=i, got=bits[i], want=rec["masks"][t][i],
                        **detail)
            raise StopRun()
        with run.guard(scope, f"step ({what})", tick=t):
            td = E.step(env, td, torch.tensor(rec["actions"][t]))
        run.tick()
    if hooks and rec["T"] in hooks:
        env = hooks[rec["T"]](env, td)
    done = E.done_vec(td)
    fin = [D.mask_bits(td["action_mask"][i]) for i in range(B)]
    if not bool(done.all()) or fin != rec["final_masks"]:
        run.violate(scope, monitor, f"{what}: after {rec['T']} steps done={done.tolist()} final masks {fin}, reference "
                    f"episode was finished with {rec['final_masks']}", constraint="mask", tick=rec["T"], **detail)
        raise StopRun()
    with run.guard(scope, f"get_reward ({what})"):
        r = env.get_reward(td, torch.tensor(rec["actions"]).T.contiguous())
    got = [float(x) for x in torch.as_tensor(r).flatten().tolist()]
    for i in range(B):
        a, b = got[i] if i < len(got) else float("nan"), rec["reward"][i]
        if (a != a) and (b != b):
            continue
        if (a != a) != (b != b) or abs(a - b) > _tol(b, rec["T"]):
            run.violate(scope, monitor, f"{what}: row {i} reward {a!r} != {b!r} of the reference episode",
                        constraint="reward", row=i, got=a, want=b, **detail)
            raise StopRun()
    run.log.add("replayed", what, [x.hex() if x == x else "nan" for x in got])
    return env


def _content_check(run, scope, monitor, saved: dict, loaded: dict, **detail):
    bad = R.compare_saved_loaded(saved, loaded)
    if bad is not None:
        d = dict(bad)
        run.violate(scope, monitor, d.pop("message"), constraint=d.pop("constraint"), **d, **detail)
        raise StopRun()


# ------------------------------------------------------------------------------------------------
class C19:
    prop = "C19"
    level = "exploration"
    chunk = 4
    rule = ("run = one operation sequence with a crash point, of one of five kinds (npz 15%, generated/saved data "
            "files through env.load_data / env.dataset 24%, FJSP/JSSP text directories 15%, env deepcopy/pickle "
            "mid-episode over the 21 constructive environments 28%, Trainer.fit + checkpoint restore over 6 baselines "
            "18%).  Sizes, dtypes, file kind (SimFile / path), compression, consumer API, listdir order, restart ticks, "
            "copy method, baseline, load_baseline and the action sequence are scheduled per run.  Non-trivial = a "
            "crash point was crossed and the restored object was driven / compared; distinct = distinct event log.")
    components_real = ["rl4co.data.utils.save_tensordict_to_npz/load_npz_to_tensordict", "rl4co.data.generate_data."
                       "generate_dataset/generate_env_data", "RL4COEnvBase.dataset/load_data and the CVRP, CVRPTW, MTVRP, "
                       "FJSP, JSSP overrides", "fjsp.parser.write/read, jssp.parser.read, FJSPFileGenerator, "
                       "JSSPFileGenerator", "RL4COEnvBase.__getstate__/__setstate__ (copy.deepcopy, pickle) of all 21 "
                       "constructive environments", "REINFORCE + baselines (no, exponential, mean, warm-up+rollout, critic), "
                       "lightning Trainer.fit/save_checkpoint, REINFORCE.load_from_checkpoint, RolloutBaseline."
                       "__getstate__/__setstate__", "numpy npz / zipfile, torch.save / torch.load"]
    components_stub = ["action chooser (seeded scheduler)", "JSSP text writer (the library has none; written by the "
                       "harness in the format documented in jssp/parser.py)", "EDA PDN data files (random stub npy)",
                       "in-memory file objects (SimFS) where the API takes file-likes; real files in a per-run /tmp dir "
                       "elsewhere", "os.listdir (seeded permutation)"]
    assumptions = ["completed writes: storage faults are observational only", "one process: a crash is modelled by dropping "
                   "every object of the writer and garbage collection", "CPU, float32", "checkpoint loads are given "
                   "weights_only=False (torch >= 2.6 default would refuse the pickled hyper-parameters)",
                   "text directories hold instances of one (jobs, machines) shape, as one generator configuration emits"]
    required_probes = ["npz_roundtrip", "genfile_episode", "sched_multiset_equal", "env_restarted", "rng_continued",
                       "ckpt_policy_restored", "listdir_permuted", "crash"]
    excluded = ["CVRP/SDVRP generator output saved and read with CVRPEnv.load_data (the loader expects raw-demand files "
                "as written by generate_data.py; the generator's output is already normalised)",
                "MTVRPEnv.load_data(scale=True) (file format for unscaled data is not documented)",
                "DPP/MDPP files (loader lives on the generator and needs the 10x10 PDN data)",
                "REINFORCE(baseline='rollout_only') checkpoints: setup() wraps the training set before the baseline has "
                "a policy (AttributeError), so fit never starts", "shared baseline (needs multi-start rewards)"]
    CANARIES = {}

    @staticmethod
    def prepare():
        import lightning  # noqa: F401
        import rl4co.data.generate_data  # noqa: F401
        import rl4co.envs  # noqa: F401
        import rl4co.models  # noqa: F401
        import rl4co.models.rl  # noqa: F401
        import rl4co.utils.trainer  # noqa: F401

    # ---------------------------------------------------------------------------------------------
    @staticmethod
    def make_plan(run_seed: int, tier: str) -> dict:
        st = Streams(run_seed)
        rc = st.get("config")
        kinds = KINDS
        only = os.environ.get("RLSIM_KIND")
        if only:
            kind = only
        else:
            kind = rc.choices(kinds, weights=KIND_WEIGHTS[tier])[0]
        plan = {"kind": kind, "fault": None}
        if kind == "npz":
            plan.update(_plan_npz(st, rc, tier))
        elif kind == "genfile":
            plan.update(_plan_genfile(st, rc, tier))
        elif kind == "sched":
            plan.update(_plan_sched(st, rc, tier))
        elif kind == "envcopy":
            plan.update(_plan_envcopy(st, rc, tier))
        else:
            plan.update(_plan_ckpt(st, rc, tier))
        return plan

    @staticmethod
    def sample(run):
        p = {k: v for k, v in run.plan.items() if k not in ("instances", "fresh", "rows")}
        for k in ("instances", "fresh", "rows"):
            if k in run.plan:
                p[k + "_first"] = run.plan[k][:1]
        return {"plan": p, "summary": getattr(run, "summary", {}), "choices": run.chooser.trace[:60]}

    @staticmethod
    def shrink(plan):
        for key in ("instances", "rows"):
            if key in plan and len(plan[key]) > 1:
                p = copy.deepcopy(plan)
                p[key] = p[key][:-1]
                if "strategies" in p:
                    p["strategies"] = p["strategies"][: len(p[key])] or p["strategies"][:1]
                yield p
        if plan.get("restarts"):
            for i in range(len(plan["restarts"])):
                p = copy.deepcopy(plan)
                del p["restarts"][i]
                yield p
            for i, r in enumerate(plan["restarts"]):
                if r.get("disturb"):
                    p = copy.deepcopy(plan)
                    p["restarts"][i]["disturb"] = False
                    yield p
        if plan.get("listdir_shuffle"):
            p = copy.deepcopy(plan)
            p["listdir_shuffle"] = False
            yield p
        if plan.get("kind") == "ckpt" and plan.get("max_epochs", 1) > 1:
            p = copy.deepcopy(plan)
            p["max_epochs"] -= 1
            yield p

    # ---------------------------------------------------------------------------------------------
    @staticmethod
    def execute(run):
        run.summary = {}
        kind = run.plan["kind"]
        with PU.RunDir("c19") as rd:
            cwd = os.getcwd()
            try:
                {"npz": _exec_npz, "genfile": _exec_genfile, "sched": _exec_sched, "envcopy": _exec_envcopy,
                 "ckpt": _exec_ckpt}[kind](run, rd)
            finally:
                os.chdir(cwd)
        run.probe("kind_" + kind)


# ================================================================================================
# npz
# ================================================================================================
_NP_DT = {"float32": torch.float32, "float64": torch.float64, "int64": torch.int64, "int32": torch.int32,
          "bool": torch.bool, "uint8": torch.uint8}


def _plan_npz(st, rc, tier):
    ri = st.get("instance")
    B = rc.randint(1, 6)
    if rc.random() < 0.5:
        name = rc.choice(E.only_filter([e for e in E.ALL_CONSTRUCTIVE]))
        cfg = E.sample_cfg(name, rc, tier)
        env = E.make_env(cfg)
        rows = E.gen_rows(env, cfg, B, st.torch_seed("instances"))
        if name == "mcp":
            w = max(r["membership"].shape[-1] for r in rows)
            rows = [dict(r, membership=torch.nn.functional.pad(r["membership"], (0, w - r["membership"].shape[-1])))
                    for r in rows]
        src = {"source": "generator", "cfg": cfg}
    else:
        k = rc.randint(1, 6)
        fields = []
        for j in range(k):
            dt = rc.choice(["float32", "float32", "float64", "int64", "int32", "bool", "uint8"])
            fields.append({"name": f"k{j}_{dt}", "dtype": dt, "shape": rc.choice([[], [1], [3], [4, 2], [2, 3, 2], [0]])})
        rows = []
        for i in range(B):
            row = {}
            for f in fields:
                cnt = int(np.prod(f["shape"])) if f["shape"] else 1
                if f["dtype"].startswith("float"):
                    vals = [ri.choice([ri.random(), ri.uniform(-1e6, 1e6), 0.0, -0.0, float("inf"), 1e-40, 1 / 3])
                            for _ in range(cnt)]
                elif f["dtype"] == "bool":
                    vals = [ri.random() < 0.5 for _ in range(cnt)]
                elif f["dtype"] == "uint8":
                    vals = [ri.randint(0, 255) for _ in range(cnt)]
                elif f["dtype"] == "int32":
                    vals = [ri.randint(-2**31, 2**31 - 1) for _ in range(cnt)]
                else:
                    vals = [ri.choice([ri.randint(-9, 9), 2**53 + 1, -(2**62), ri.randint(-2**40, 2**40)]) for _ in range(cnt)]
                row[f["name"]] = torch.tensor(vals, dtype=_NP_DT[f["dtype"]]).reshape(f["shape"])
            rows.append(row)
        src = {"source": "synthetic", "fields": fields}
    fault = rc.choice(["short", "torn", "bitflip"]) if rc.random() < 0.25 else None
    return {**src, "instances": [E.enc_row(r) for r in rows], "compress": rc.random() < 0.5,
            "target": rc.choice(["simfile", "simfile", "path", "path", "path_noext"]), "fault": fault,
            "fault_seed": rc.randrange(1 << 30), "noncontig": rc.random() < 0.2}


def _exec_npz(run, rd):
    from tensordict import TensorDict

    from rl4co.data.utils import load_npz_to_tensordict, save_tensordict_to_npz

    plan = run.plan
    scope = "npz"
    rows = [E.dec_row(r) for r in plan["instances"]]
    B = len(rows)
    td = E.stack_rows(rows)
    if plan["noncontig"]:
        # a strided view (what indexing a bigger data set gives) holds the same instances
        big = E.stack_rows([r for r in rows for _ in range(2)])
        td = TensorDict({k: big[k][::2] for k in big.keys()}, batch_size=[B])
    saved = {k: v.clone() for k, v in _td_dict(td).items()}
    fs = PU.SimFS()
    target = plan["target"]
    path = rd.join("inst.npz" if target != "path_noext" else "inst")
    if target == "simfile":
        f = fs.open("inst.npz", "wb")
        with run.guard(scope, "save_tensordict_to_npz (file object)", compress=plan["compress"]):
            save_tensordict_to_npz(td, f, compress=plan["compress"])
        f.close()
    else:
        with run.guard(scope, "save_tensordict_to_npz (path)", compress=plan["compress"]):
            save_tensordict_to_npz(td, path, compress=plan["compress"])
    _content_check(run, scope, "save_mutates_source", saved, _td_dict(td), what="tensordict after saving")
    # ---- crash ---------------------------------------------------------------------------------------
    del td
    gc.collect()
    run.probe("crash")
    run.fault("crash-restart")
    if target == "path_noext":
        # numpy appends '.npz': reading back under the name that was written is not possible (observation)
        ok, _res = _observe(run, "load extension-less name", lambda: load_npz_to_tensordict(path),
                            expected=(FileNotFoundError,))
        run.probe("obs_noext_name_readable" if ok else "obs_noext_name_not_found")
        path = path + ".npz"
    if plan["fault"]:
        if target != "simfile":
            fs.import_path("inst.npz", path)
        info = fs.corrupt("inst.npz", plan["fault"], Streams(plan["fault_seed"]).get("faults"))
        run.fault("storage-" + plan["fault"], info)
        if target != "simfile":
            fs.export_path("inst.npz", path)
        src = fs.open("inst.npz") if target == "simfile" else path
        ok, res = _observe(run, "load damaged npz", lambda: _td_dict(load_npz_to_tensordict(src)),
                           expected=(Exception,))
        if not ok:
            run.probe("fault_load_raised")
        else:
            try:  # a damaged file may load as something that is not even a tensor: observation only
                intact = R.compare_saved_loaded(saved, res) is None
            except Exception:  # noqa: BLE001
                intact = False
            run.probe("fault_load_intact" if intact else "obs_fault_silent_damage")
        run.summary = {"fault": info}
        return
    src = fs.open("inst.npz") if target == "simfile" else path
    with run.guard(scope, "load_npz_to_tensordict", target=target, compress=plan["compress"]):
        td2 = load_npz_to_tensordict(src)
    if list(td2.batch_size) != [B]:
        run.violate(scope, "npz_roundtrip", f"loaded batch_size {list(td2.batch_size)}, saved [{B}]",
                    constraint="shape", target=target)
        raise StopRun()
    _content_check(run, scope, "npz_roundtrip", saved, _td_dict(td2), target=target, compress=plan["compress"],
                   source=plan["source"])
    run.log.add("npz", target, plan["compress"], {k: R.fp_tensor(v) for k, v in saved.items()})
    run.probe("npz_roundtrip")
    run.state("npz", target, plan["compress"], tuple(sorted((k, str(v.dtype)) for k, v in saved.items())))
    run.nontrivial = True
    run.summary = {"keys": {k: R.describe(v) for k, v in saved.items()}}


# ================================================================================================
# generated / saved data files consumed by the environment's loader
# ================================================================================================
def _plan_genfile(st, rc, tier):
    route = rc.choice(["generate_dataset", "generate_env_data", "generate_env_data", "hand_vrp", "hand_vrp",
                       "generator_save", "generator_save"])
    K = rc.randint(2, 5)
    seed = rc.randrange(1, 1 << 20)
    plan = {"route": route, "K": K, "np_seed": seed, "strategies": [rc.choice(D.STRATEGIES) for _ in range(K)],
            "compress": rc.random() < 0.3}
    if route == "generator_save":
        name = rc.choice(E.only_filter(GENSAVE_ENVS + ["mtvrp"]))  # MTVRP has a writer and a loader of its own
        cfg = E.sample_cfg(name, rc, tier)
        if name == "mtvrp" and rc.random() < 0.5:
            cfg["gen"]["scale_demand"] = False  # integer demands against the original capacity
        if name == "mcp":
            cfg["gen"]["min_size"] = cfg["gen"]["max_size"]  # one membership width per file
        env = E.make_env(cfg)
        rows = E.gen_rows(env, cfg, K, st.torch_seed("instances"))
        plan.update(cfg=cfg, instances=[E.enc_row(r) for r in rows],
                    consumer=rc.choice(["load_data", "load_data_simfile", "dataset_val", "dataset_filename",
                                        "dataset_test_multi"]))
        if name == "mtvrp":
            plan["writer"] = rc.choice(["save_data", "save_tensordict_to_npz"])
        return plan
    if route == "hand_vrp":
        name = rc.choice(["cvrp", "sdvrp"])
        n = rc.choice([10, 15])
        plan["caps"] = [rc.choice([20.0, 25.0, 30.0, 40.0, 17.0]) for _ in range(K)]
    else:
        name = rc.choice(E.only_filter(list(GD_PROBLEM)))
        if GD_PROBLEM[name] == "vrp":
            n = rc.choice([10, 15]) if tier == "quick" else rc.choice([10, 15, 20])
        elif GD_PROBLEM[name] in ("op", "pctsp") and route == "generate_dataset":
            n = 20
        else:
            n = rc.randint(4, 8)
        if name == "pdp":
            n += n % 2
    cfg = {"env": name, "n": n, "kw": {}, "gen": {"num_loc": n}}
    if name == "pdp":
        cfg["kw"] = {"force_start_at_depot": rc.random() < 0.5}
    if name == "op":
        plan["distribution"] = rc.choice(["const", "unif", "dist"])
        cfg["gen"]["prize_type"] = "dist"
        cfg["kw"] = {"prize_type": plan["distribution"]}
    plan.update(cfg=cfg, consumer=rc.choice(["load_data", "load_data_simfile", "dataset_val", "dataset_filename",
                                             "dataset_test_multi"]))
    if route == "generate_dataset":
        plan["consumer"] = rc.choice(["load_data", "dataset_val", "dataset_filename", "dataset_test_multi"])
        plan["explicit_filename"] = rc.random() < 0.3
    return plan


def _gd_args(plan):
    """positional / keyword arguments of generate_env_data for this plan."""
    name = plan["cfg"]["env"]
    n = plan["cfg"]["n"]
    prob = GD_PROBLEM[name]
    kw = {}
    dist = plan.get("distribution")
    if prob in ("op", "pctsp") and n not in (20, 50, 100):
        kw["max_lengths"] = {n: 2.0}
    return prob, n, dist, kw


def _direct_from_numpy(name, d):
    """What the instances of a raw data dict are, as the environment's input (the harness' own reading of the
    file format: CVRP files carry integer demands and the capacity; the environment works with demand/capacity)."""
    out = {k: torch.from_numpy(np.ascontiguousarray(v)) for k, v in d.items()}
    if name in ("cvrp", "sdvrp"):
        out["demand"] = out["demand"] / out["capacity"].reshape(-1, 1)
    return out


def _exec_genfile(run, rd):
    from tensordict import TensorDict
    from torch.utils.data import DataLoader

    from rl4co.data.generate_data import generate_dataset, generate_env_data
    from rl4co.data.utils import save_tensordict_to_npz

    plan = run.plan
    cfg = plan["cfg"]
    name = cfg["env"]
    scope = name
    K = plan["K"]
    route = plan["route"]
    fs = PU.SimFS()
    consumer = plan["consumer"]
    files = []      # (relative name under data dir)
    direct_sets = []
    # "dataset_filename" may run against an env that already has ANOTHER file configured for that phase: the
    # explicitly requested file must win (documented override used by tasks/eval.py and the search models)
    over_configured = consumer == "dataset_filename" and plan["np_seed"] % 2 == 0
    n_files = 2 if (consumer == "dataset_test_multi" or over_configured) else 1
    n_expected = 2 if consumer == "dataset_test_multi" else 1
    data_dir = rd.join("data")
    os.makedirs(data_dir, exist_ok=True)

    for fi in range(n_files):
        seed = plan["np_seed"] + 17 * fi
        rel = f"set{n_files - 1 - fi}.npz"  # a file list in non-alphabetical order: [set1.npz, set0.npz]
        if route in ("generate_dataset", "generate_env_data", "hand_vrp"):
            prob, n, dist, kw = _gd_args(plan)
            if route == "hand_vrp":
                parts = []
                for j, c in enumerate(plan["caps"]):
                    np.random.seed(seed + j)
                    with contextlib.redirect_stdout(io.StringIO()):  # generate_vrp_data prints the override
                        parts.append(generate_env_data("vrp", 1, n, capacities={n: c}))
                raw = {k: np.concatenate([p[k] for p in parts], 0) for k in parts[0]}
                if consumer == "load_data_simfile":
                    f = fs.open(rel, "wb")
                    np.savez(f, **raw)
                    f.close()
                else:
                    np.savez(os.path.join(data_dir, rel), **raw)
            elif route == "generate_env_data":
                np.random.seed(seed)
                with run.guard(scope, "generate_env_data", problem=prob):
                    raw = generate_env_data(prob, K, n, dist, **kw)
                if consumer == "load_data_simfile":
                    f = fs.open(rel, "wb")
                    (np.savez_compressed if plan["compress"] else np.savez)(f, **raw)
                    f.close()
                else:
                    (np.savez_compressed if plan["compress"] else np.savez)(os.path.join(data_dir, rel), **raw)
            else:
                if plan.get("explicit_filename"):
                    fname_arg = rel
                    if plan["np_seed"] % 5 in (1, 2, 3):
                        # a requested name without the extension and with a dot in it ("tsp20_v1.0"): the documented
                        # behaviour appends ".npz" (as np.savez does), the environment is then given that file
                        fname_arg = f"set{fi}_v1.{fi}"
                        rel = fname_arg + ".npz"
                        run.probe("genfile_dotted_name_without_extension")
                    with run.guard(scope, "generate_dataset(filename=...)", problem=prob):
                        generate_dataset(filename=os.path.join(data_dir, fname_arg), problem=prob, dataset_size=K,
                                         graph_sizes=[n], seed=seed, overwrite=True,
                                         **({"data_distribution": dist} if dist else {}))
                else:
                    with run.guard(scope, "generate_dataset(data_dir=...)", problem=prob):
                        generate_dataset(data_dir=data_dir, name=f"s{fi}", problem=prob, dataset_size=K,
                                         graph_sizes=[n], seed=seed,
                                         **({"data_distribution": dist} if dist else {}))
                    rel = os.path.join(prob, "{}{}{}_{}_seed{}.npz".format(prob, f"_{dist}" if dist else "", n, f"s{fi}", seed))
                if not os.path.isfile(os.path.join(data_dir, rel)):
                    run.violate(scope, "generated_file", f"generate_dataset wrote no file {rel}", constraint="file",
                                problem=prob)
                    raise StopRun()
                # the instances the file is meant to hold: the same generator call under the same numpy seed
                np.random.seed(seed)
                raw = generate_env_data(prob, K, n, dist, **kw)
            direct = _direct_from_numpy(name, raw)
        else:
            rows = [E.dec_row(r) for r in plan["instances"]]
            if fi == 1:
                rows = rows[::-1]
            td_src = E.batch_of(cfg, rows)
            direct = {k: v.clone() for k, v in _td_dict(td_src).items()}
            if name == "mtvrp" and plan.get("writer") == "save_data":
                from rl4co.envs.routing.mtvrp.generator import MTVRPGenerator

                with run.guard(scope, "MTVRPGenerator.save_data"):
                    MTVRPGenerator.save_data(td_src, os.path.join(data_dir, rel))
                if consumer == "load_data_simfile":  # save_data only takes a path: move the file into the SimFS
                    fs.import_path(rel, os.path.join(data_dir, rel))
            elif consumer == "load_data_simfile":
                f = fs.open(rel, "wb")
                with run.guard(scope, "save_tensordict_to_npz (file object)"):
                    save_tensordict_to_npz(td_src, f, compress=plan["compress"])
                f.close()
            else:
                with run.guard(scope, "save_tensordict_to_npz (path)"):
                    save_tensordict_to_npz(td_src, os.path.join(data_dir, rel), compress=plan["compress"])
            del td_src
        files.append(rel)
        direct_sets.append(direct)
    # ---- crash: nothing of the writer survives but the files ----------------------------------------------
    gc.collect()
    run.probe("crash")
    run.fault("crash-restart")

    cfg2 = copy.deepcopy(cfg)
    if consumer == "dataset_val":
        cfg2["kw"].update(data_dir=data_dir, val_file=files[0])
    elif consumer == "dataset_test_multi":
        cfg2["kw"].update(data_dir=data_dir, test_file=list(files), test_dataloader_names=["a", "b"])
    elif over_configured:
        cfg2["kw"].update(data_dir=data_dir, test_file=files[1])
        run.probe("filename_over_configured_file")
    with run.guard(scope, "construct env (reader)"):
        env = E.make_env(cfg2)
    loaded_sets = []
    # perturbation: the same file(s) were already read once through the same environment (validation and test
    # set from one file, a second epoch, load_data followed by dataset): the read under test must not notice
    if plan["np_seed"] % 3 == 0 and consumer != "load_data_simfile":
        with run.guard(scope, "earlier read of the same file(s)", consumer=consumer, promise=False):
            if consumer == "load_data":
                env.load_data(os.path.join(data_dir, files[0]))
            elif consumer == "dataset_val":
                env.dataset(K, phase="val")
            elif consumer == "dataset_filename":
                env.dataset(K, phase="test", filename=os.path.join(data_dir, files[0]))
            else:
                env.dataset(K, phase="test")
        run.fault("earlier_read_same_file")
        run.probe("genfile_read_twice")
    if consumer in ("load_data", "load_data_simfile"):
        src = fs.open(files[0]) if consumer == "load_data_simfile" else os.path.join(data_dir, files[0])
        with run.guard(scope, "env.load_data", constraint="load_data", consumer=consumer):
            loaded_sets.append(_td_dict(env.load_data(src)))
    else:
        with run.guard(scope, f"env.dataset ({consumer})", constraint="dataset_from_file", consumer=consumer):
            if consumer == "dataset_val":
                ds = {"val": env.dataset(K, phase="val")}
            elif consumer == "dataset_filename":
                ds = {"f": env.dataset(K, phase="test", filename=os.path.join(data_dir, files[0]))}
            else:
                ds = env.dataset(K, phase="test")
        if not isinstance(ds, dict) or len(ds) != n_expected:
            run.violate(scope, "dataset_from_file", f"env.dataset returned {type(ds).__name__} for {n_expected} file(s)",
                        constraint="count", consumer=consumer)
            raise StopRun()
        for nm in (["a", "b"] if consumer == "dataset_test_multi" else list(ds)):
            d = ds[nm]
            with run.guard(scope, "read data set through a loader", consumer=consumer):
                bs = 1 + run.chooser.pick(K + 1)
                parts = [_td_dict(b) for b in DataLoader(d, batch_size=bs, collate_fn=d.collate_fn)]
            loaded_sets.append({k: torch.cat([p[k] for p in parts], 0) for k in parts[0]})
    for fi, (direct, loaded) in enumerate(zip(direct_sets, loaded_sets)):
        _content_check(run, scope, "file_content", direct, loaded, consumer=consumer, route=route, file=fi, env=name)
    run.probe("genfile_content_equal")
    # ---- episodes: the loaded instances and the same instances fed directly -----------------------------------
    fi = run.chooser.pick(len(loaded_sets))
    loaded, direct = loaded_sets[fi], direct_sets[fi]
    nrow = R.batch_len(direct)
    td_l = TensorDict({k: v.clone() for k, v in loaded.items()}, batch_size=[nrow])
    td_d = TensorDict({k: v.clone() for k, v in direct.items()}, batch_size=[nrow])
    rec = _drive(run, scope, env, cfg, td_l, plan["strategies"], "loaded instances")
    if rec is None:
        return
    env_d = E.make_env(cfg)
    _replay(run, scope, env_d, cfg, td_d, rec, "same instances fed directly", "loaded_vs_direct_episode",
            consumer=consumer, route=route, env_name=name)
    run.probe("genfile_episode")
    run.probe("genfile_" + route)
    run.probe(f"genfile:{name}")
    run.state("genfile", name, route, consumer, K)
    run.nontrivial = True
    run.summary = {"files": files, "T": rec["T"], "reward": rec["reward"]}


# ================================================================================================
# FJSP / JSSP text directories
# ================================================================================================
def _plan_sched(st, rc, tier):
    name = rc.choice(E.only_filter(["fjsp", "jssp"]))
    if name not in ("fjsp", "jssp"):
        name = "fjsp"
    cfg = E.sample_cfg(name, rc, tier)
    env = E.make_env(cfg)
    K = rc.randint(1, 5)
    rows = E.gen_rows(env, cfg, K, st.torch_seed("instances"))
    consumers = ["file_generator", "env_generator_params", "load_data", "dataset_val"]
    if name == "jssp" and K == 1:
        consumers.append("single_file")
    # earlier requests served by the same file-backed generator (each reaches the end of the file list, so the
    # next request starts from the first file again): a later read must still return every instance
    pre = [rc.choice([K, K + 1, K + 2, 2 * K + 1]) for _ in range(rc.randint(1, 3))] if rc.random() < 0.4 else []
    return {"cfg": cfg, "instances": [E.enc_row(r) for r in rows], "consumer": rc.choice(consumers),
            "pre_reads": pre, "listdir_shuffle": rc.random() < 0.7, "listdir_seed": rc.randrange(1 << 30),
            "strategies": [rc.choice(D.STRATEGIES) for _ in range(K)]}


def _write_jssp(where, rows):
    """Harness writer for JSSP instances in the format jssp/parser.py documents: first line
    '<jobs> <machines>', then one line per job with '<machine (1-based)> <duration>' pairs."""
    os.makedirs(where, exist_ok=True)
    for i, row in enumerate(rows):
        n_ma, jobs = R.sched_canonical(row)
        lines = [f"{len(jobs)} {n_ma}"]
        for ops in jobs:
            parts = []
            for op in ops:
                if len(op) != 1:
                    raise HarnessError("JSSP operation with several machines")
                m, dur = op[0]
                parts += [str(m + 1), str(int(dur))]
            lines.append(" ".join(parts))
        with open(os.path.join(where, f"{str(i + 1).rjust(4, '0')}_{len(jobs)}j_{n_ma}m.txt"), "w") as fh:
            fh.write("\n".join(lines))


def _exec_sched(run, rd):
    from tensordict import TensorDict
    from torch.utils.data import DataLoader

    plan = run.plan
    cfg = plan["cfg"]
    name = cfg["env"]
    scope = name
    rows = [E.dec_row(r) for r in plan["instances"]]
    K = len(rows)
    where = rd.join("data", "inst")
    os.makedirs(rd.join("data"), exist_ok=True)
    env_w = E.make_env(cfg)
    want = [R.sched_canonical(r) for r in rows]
    if name == "fjsp":
        from rl4co.envs.scheduling.fjsp.parser import write

        with run.guard(scope, "reset (writer)"):
            td_state = E.reset(env_w, cfg, rows)
        with run.guard(scope, "fjsp.parser.write"):
            write(where, td_state)
        del td_state
    else:
        _write_jssp(where, rows)
    n_files = len([f for f in os.listdir(where)])
    if n_files != K:
        run.violate(scope, "files_written", f"{n_files} files for {K} instances", constraint="count")
        raise StopRun()
    gc.collect()
    run.probe("crash")
    run.fault("crash-restart")
    # ---- read back --------------------------------------------------------------------------------------
    consumer = plan["consumer"]

    def fired(changed):
        run.fault("listdir-shuffle", changed)
        if changed:
            run.probe("listdir_permuted")

    cm = PU.shuffled_listdir(plan["listdir_seed"], fired) if plan["listdir_shuffle"] else contextlib.nullcontext()
    env_r = None
    with cm:
        if consumer == "file_generator":
            if name == "fjsp":
                from rl4co.envs.scheduling.fjsp.generator import FJSPFileGenerator as G
            else:
                from rl4co.envs.scheduling.jssp.generator import JSSPFileGenerator as G
            with run.guard(scope, f"{G.__name__}(directory)", consumer=consumer):
                g = G(where)
                for s_ in plan.get("pre_reads", []):
                    g(batch_size=[s_])
                    run.probe("sched_pre_read")
                td_l = g(batch_size=[K])
        elif consumer == "single_file":
            from rl4co.envs.scheduling.jssp.generator import JSSPFileGenerator as G

            with run.guard(scope, "JSSPFileGenerator(single file)", consumer=consumer):
                g = G(os.path.join(where, sorted(os.listdir(where))[0]))
                td_l = g(batch_size=[K])
        elif consumer == "env_generator_params":
            cfg2 = copy.deepcopy(cfg)
            cfg2["gen"] = {"file_path": where}
            with run.guard(scope, "Env(generator_params={'file_path': dir})", consumer=consumer):
                env_r = E.make_env(cfg2)
                for s_ in plan.get("pre_reads", []):
                    env_r.generator(batch_size=[s_])
                    run.probe("sched_pre_read")
                td_l = env_r.generator(batch_size=[K])
        elif consumer == "load_data":
            with run.guard(scope, "env.load_data(directory)", consumer=consumer):
                td_l = E.make_env(cfg).load_data(where, batch_size=[K])
        else:
            cfg2 = copy.deepcopy(cfg)
            cfg2["kw"].update(data_dir=rd.join("data"), val_file="inst")
            with run.guard(scope, "env.dataset(phase='val') from a directory", consumer=consumer):
                env_r = E.make_env(cfg2)
                for s_ in plan.get("pre_reads", []):
                    env_r.dataset(s_, phase="val")
                    run.probe("sched_pre_read")
                d = env_r.dataset(K, phase="val")
                parts = [_td_dict(b) for b in DataLoader(d, batch_size=K, collate_fn=d.collate_fn)]
                td_l = TensorDict({k: torch.cat([p[k] for p in parts], 0) for k in parts[0]}, batch_size=[K])
    if td_l.batch_size[0] != K:
        run.violate(scope, "sched_multiset", f"{td_l.batch_size[0]} instances read back, {K} written",
                    constraint="count", consumer=consumer)
        raise StopRun()
    loaded_rows = E.td_rows(td_l)
    try:
        got = [R.sched_canonical(r) for r in loaded_rows]
    except ValueError as e:
        run.violate(scope, "sched_multiset", f"instance read back is malformed: {e}", constraint="malformed",
                    consumer=consumer)
        raise StopRun()
    if sorted(got) != sorted(want):
        missing = [w for w in want if w not in got]
        run.violate(scope, "sched_multiset", f"instances read back differ from the instances written "
                    f"({len(missing)} of {K} not found)", constraint="content", consumer=consumer,
                    example_written=missing[:1], example_read=[g_ for g_ in got if g_ not in want][:1])
        raise StopRun()
    run.probe("sched_multiset_equal")
    if any(loaded_rows[0][k].dtype != rows[0][k].dtype for k in rows[0]):
        run.probe("obs_index_dtype_changed")
    if loaded_rows[0]["proc_times"].shape != rows[0]["proc_times"].shape:
        run.probe("padding_differs")
    run.log.add("sched", consumer, [H(g_) for g_ in got])
    # ---- episodes on the loaded batch, replayed on the matching originals ----------------------------------
    order, used = [], set()
    for g_ in got:
        j = [i for i, w in enumerate(want) if w == g_ and i not in used][0]
        used.add(j)
        order.append(j)
    if env_r is None:
        env_r = E.make_env(cfg)
    rec = _drive(run, scope, env_r, cfg, E.batch_of(cfg, loaded_rows), plan["strategies"], "instances read back")
    if rec is None:
        return
    _replay(run, scope, env_w, cfg, E.batch_of(cfg, [{k: v.clone() for k, v in rows[j].items()} for j in order]), rec,
            "original instances", "loaded_vs_original_episode", consumer=consumer, env_name=name)
    run.probe("sched_episode")
    run.probe(f"sched:{name}:{consumer}")
    run.state("sched", name, consumer, K, plan["listdir_shuffle"])
    run.nontrivial = True
    run.summary = {"order": order, "T": rec["T"], "reward": rec["reward"]}


# ================================================================================================
# env deepcopy / pickle mid-episode
# ================================================================================================
def _plan_envcopy(st, rc, tier):
    pool = E.only_filter(E.ALL_CONSTRUCTIVE)
    name = pool[rc.randrange(len(pool))]
    cfg = E.sample_cfg(name, rc, tier)
    env = E.make_env(cfg)
    B = rc.choice([1, 1, 2, 3])
    rows = E.gen_rows(env, cfg, B + 1, st.torch_seed("instances"))
    restarts = []
    for _ in range(rc.randint(1, 3)):
        restarts.append({"at": rc.randint(0, 7), "how": rc.choice(["deepcopy", "pickle", "pickle"]),
                         "disturb": rc.random() < 0.5, "draws": rc.randint(0, 3)})
    return {"cfg": cfg, "instances": [E.enc_row(r) for r in rows], "B": B,
            "strategies": [rc.choice(D.STRATEGIES) for _ in range(B)], "restarts": restarts,
            "rng_seed": rc.randrange(1 << 30)}


def _exec_envcopy(run, rd):
    plan = run.plan
    cfg = plan["cfg"]
    name = cfg["env"]
    scope = name
    rows = [E.dec_row(r) for r in plan["instances"]]
    B = min(plan["B"], len(rows))
    main, other = rows[:B], rows[B:] or rows[:1]
    with run.guard(scope, "construct env"):
        env = E.make_env(cfg)
    rec = _drive(run, scope, env, cfg, E.batch_of(cfg, [{k: v.clone() for k, v in r.items()} for r in main]),
                 plan["strategies"], "uninterrupted")
    if rec is None:
        return
    hooks = {}
    for ri, rs in enumerate(sorted(plan["restarts"], key=lambda r: r["at"])):
        t = min(rs["at"], rec["T"])
        if t in hooks:
            continue

        def hook(env_, td_, rs=rs, ri=ri, t=t):
            torch.manual_seed(plan["rng_seed"] + ri)
            state = torch.default_generator.get_state().clone()
            if rs["how"] == "deepcopy":
                with run.guard(scope, "copy.deepcopy(env) mid-episode", tick=t):
                    new = copy.deepcopy(env_)
                # deep-copying must not move the random stream the environment shares
                if not torch.equal(torch.default_generator.get_state(), state):
                    run.violate(scope, "rng_stream", "copy.deepcopy(env) changed the state of the random generator the "
                                "environment draws from", constraint="rng", how="deepcopy", tick=t)
                    raise StopRun()
            else:
                with run.guard(scope, "pickle.dumps(env) mid-episode", tick=t):
                    blob = pickle.dumps(env_)
                ref = torch.rand(4, generator=_gen_from(state)).tolist()
                if rs["draws"]:
                    torch.rand(rs["draws"])  # the writer goes on drawing after it pickled the env
                fs = PU.SimFS()
                fs.put("env.pkl", blob)
                del blob
                with run.guard(scope, "pickle.loads(env) mid-episode", tick=t):
                    new = pickle.loads(fs.get("env.pkl"))
                got = torch.rand(4, generator=new.rng).tolist()
                if got != ref:
                    run.violate(scope, "rng_stream", "the unpickled env does not continue the random stream from the "
                                "state it was pickled with", constraint="rng", how="pickle", tick=t, got=got, want=ref)
                    raise StopRun()
                run.probe("rng_continued")
            if type(new) is not type(env_):
                run.violate(scope, "env_restart", f"copy is a {type(new).__name__}", constraint="type")
                raise StopRun()
            run.fault("env-restart", rs["how"], t)
            run.probe("env_restarted")
            run.probe("crash")
            if rs["disturb"]:
                # the original object goes on living: an unrelated episode on it must not reach the copy
                ok, _ = _observe(run, "episode on the original after copying", lambda: _scribble(run, env_, cfg, other))
                if ok:
                    run.fault("alternate-on-original", t)
            return new

        hooks[t] = hook
    td_in = E.batch_of(cfg, [{k: v.clone() for k, v in r.items()} for r in main])
    _replay(run, scope, env, cfg, td_in, rec, "episode with env restarts", "env_restart", hooks=hooks, env_name=name,
            restarts=plan["restarts"])
    run.probe(f"envcopy:{name}")
    run.state("envcopy", name, B, tuple((r["at"], r["how"], r["disturb"]) for r in plan["restarts"]))
    run.nontrivial = True
    run.summary = {"T": rec["T"], "reward": rec["reward"], "restarts": plan["restarts"]}


def _gen_from(state):
    g = torch.Generator()
    g.set_state(state)
    return g


def _scribble(run, env, cfg, rows):
    """A short unrelated episode (lowest admitted action) on an env object."""
    td = env.reset(E.batch_of(cfg, [{k: v.clone() for k, v in r.items()} for r in rows]))
    for _ in range(3):
        if bool(E.done_vec(td).all()):
            break
        acts = []
        for i in range(td.batch_size[0]):
            opts = D.admitted(td["action_mask"][i])
            if not opts:
                return
            acts.append(opts[-1])
        td = E.step(env, td, torch.tensor(acts))


# ================================================================================================
# checkpoints
# ================================================================================================
def _plan_ckpt(st, rc, tier):
    name = rc.choice(E.only_filter(["tsp", "cvrp"]))
    if name not in ("tsp", "cvrp", "op", "pctsp", "sdvrp"):
        name = "tsp"
    n = rc.randint(4, 6)
    cfg = {"env": name, "n": n, "kw": {}, "gen": {"num_loc": n}}
    env = E.make_env(cfg)
    fresh = E.gen_rows(env, cfg, 4, st.torch_seed("fresh"))
    return {"cfg": cfg, "baseline": rc.choice(CKPT_BASELINES), "max_epochs": rc.randint(1, 2),
            "train_data_size": rc.choice([8, 12, 16]), "batch_size": 4, "val_data_size": rc.choice([4, 6]),
            "trainer": rc.choice(["lightning", "rl4co"]), "load_baseline": rc.random() < 0.7,
            "src": rc.choice(["path", "path", "fileobj"]), "policy_seed": rc.randrange(1 << 30),
            "fresh": [E.enc_row(r) for r in fresh],
            "fault": rc.choice(["short", "torn", "bitflip"]) if rc.random() < 0.12 else None,
            "fault_seed": rc.randrange(1 << 30), "num_starts": rc.randint(2, n), "num_augment": rc.choice([1, 2])}


def _rollout_policy(model):
    """The greedy-rollout baseline's policy of a model, if it has one."""
    from rl4co.models.rl.reinforce.baselines import RolloutBaseline, WarmupBaseline

    b = model.baseline
    if isinstance(b, WarmupBaseline):
        b = b.baseline
    if isinstance(b, RolloutBaseline):
        return getattr(b, "policy", None)
    return None


def _phase_decode(policy, env, td_batch, k):
    """What the model's validation / test step computes: policy(..., phase='test') with the decode type the
    model configured on the policy (POMO: multistart_greedy), no explicit decode_type."""
    policy.eval()
    with torch.inference_mode():
        out = policy(env.reset(td_batch.clone()), env, phase="test", num_starts=k, return_actions=True)
    return out["actions"].tolist(), [float(x) for x in out["reward"].flatten().tolist()]


def _exec_ckpt(run, rd):
    from rl4co.models.rl import REINFORCE

    plan = run.plan
    cfg = plan["cfg"]
    name = cfg["env"]
    bl = plan["baseline"]
    scope = f"REINFORCE[{bl}]"
    fresh = E.batch_of(cfg, [E.dec_row(r) for r in plan["fresh"]])
    env = E.make_env(cfg)
    policy = PU.tiny_policy(name, plan["policy_seed"])
    kw = {}
    if bl == "critic":
        baseline = PU.tiny_critic_baseline(policy)
    elif bl == "warmup2":
        baseline, kw = "rollout", {"baseline_kwargs": {"n_epochs": 2}}
    else:
        baseline = bl
    torch.manual_seed(run.streams.torch_seed("fit"))
    Model = REINFORCE
    if bl == "pomo":
        from rl4co.models.zoo import POMO

        Model = POMO
        scope = "POMO[shared]"
        ok, model = _observe(run, "construct POMO", lambda: POMO(
            env, policy=policy, num_starts=plan.get("num_starts", 3), num_augment=plan.get("num_augment", 2),
            batch_size=plan["batch_size"], train_data_size=plan["train_data_size"],
            val_data_size=plan["val_data_size"], test_data_size=2, optimizer_kwargs={"lr": 1e-2}))
    else:
        ok, model = _observe(run, "construct REINFORCE", lambda: PU.tiny_reinforce(
            env, policy, baseline, batch_size=plan["batch_size"], train_data_size=plan["train_data_size"],
            val_data_size=plan["val_data_size"], test_data_size=2, **kw))
    if not ok:
        run.probe("obs_model_construction_failed")
        return
    trainer = PU.tiny_trainer(rd.join("lightning"), plan["max_epochs"], plan["trainer"] == "rl4co")
    ok, err = _observe(run, "Trainer.fit", lambda: trainer.fit(model))
    if not ok:
        run.probe("obs_fit_failed")
        run.summary = {"fit_failed": repr(err)[:200]}
        return
    run.tick(int(trainer.global_step))
    run.probe("fit_done")
    # ---- what the objects compute before the crash ------------------------------------------------------
    before = {"policy": PU.greedy(model.policy, model.env, fresh)}
    if bl == "pomo":  # the model's own evaluation decode (phase='test': multi-start greedy, deterministic)
        before["phase"] = _phase_decode(model.policy, model.env, fresh, plan.get("num_starts", 3))
    rp = _rollout_policy(model)
    if rp is not None:
        before["baseline_policy"] = PU.greedy(rp, model.env, fresh)
        if before["baseline_policy"] != before["policy"]:
            run.probe("baseline_policy_differs_from_policy")
    if bl == "critic":
        with torch.inference_mode():
            before["critic"] = [float(x) for x in model.baseline.critic(model.env.reset(fresh.clone())).flatten().tolist()]
    obs = {"alpha": getattr(model.baseline, "alpha", None),
           "exp_v": None if getattr(model.baseline, "v", None) is None else float(model.baseline.v)}
    path = rd.join("model.ckpt")
    with run.guard(scope, "Trainer.save_checkpoint"):
        trainer.save_checkpoint(path)
    # ---- crash ----------------------------------------------------------------------------------------------
    del model, trainer, policy, env, rp, baseline
    gc.collect()
    run.probe("crash")
    run.fault("crash-restart")
    fs = PU.SimFS()
    fs.import_path("model.ckpt", path)
    lb = plan["load_baseline"]
    src = plan["src"]
    if plan["fault"]:
        info = fs.corrupt("model.ckpt", plan["fault"], Streams(plan["fault_seed"]).get("faults"))
        fs.export_path("model.ckpt", path)
        run.fault("storage-" + plan["fault"], info)
        ok, m2 = _observe(run, "load damaged checkpoint",
                          lambda: Model.load_from_checkpoint(path, load_baseline=False, weights_only=False))
        if not ok:
            run.probe("fault_load_raised")
        else:
            try:  # a damaged pickle may load as a model that cannot even run: observation only
                same = PU.greedy(m2.policy, m2.env, fresh) == before["policy"]
            except Exception:  # noqa: BLE001
                same = False
            run.probe("fault_load_intact" if same else "obs_fault_silent_damage")
        run.summary = {"fault": info}
        return

    def source():
        return fs.open("model.ckpt") if src == "fileobj" else path

    def load(**extra):
        return Model.load_from_checkpoint(source(), load_baseline=lb, weights_only=False, **extra)

    m2 = None
    how = "as documented"
    try:
        with run.guard("REINFORCE.load_from_checkpoint", f"load_from_checkpoint(load_baseline={lb}, {src})",
                       constraint=f"load_baseline={lb}", load_baseline=lb, src=src, baseline=bl):
            m2 = load()
    except StopRun:
        m2 = None
    if m2 is None:
        # keep going behind the failure: torch.load defaulting to weights_only=False (what the inner load of
        # load_from_checkpoint lacks), then from a path, so that the restored objects are still compared
        with _lenient_torch_load():
            try:
                with run.guard("REINFORCE.load_from_checkpoint", f"load_from_checkpoint(load_baseline={lb}, {src}) with "
                               "torch.load defaulting to weights_only=False",
                               constraint=f"load_baseline={lb},{src},lenient-torch-load", load_baseline=lb, src=src,
                               baseline=bl):
                    m2 = load()
                how = "lenient torch.load"
            except StopRun:
                m2 = None
            if m2 is None and src == "fileobj":
                ok, m2 = _observe(run, "load from path with lenient torch.load",
                                  lambda: Model.load_from_checkpoint(path, load_baseline=lb, weights_only=False))
                how = "lenient torch.load, path"
                if not ok:
                    m2 = None
        if m2 is None:
            raise StopRun()
        run.probe("ckpt_loaded_behind_failure")
    after = PU.greedy(m2.policy, m2.env, fresh)
    _cmp_greedy(run, scope, "restored_policy", before["policy"], after, "policy", how=how, load_baseline=lb, src=src)
    run.probe("ckpt_policy_restored")
    if "phase" in before:
        ph2 = _phase_decode(m2.policy, m2.env, fresh, plan.get("num_starts", 3))
        _cmp_greedy(run, scope, "restored_policy_phase_decode", before["phase"], ph2,
                    "policy under its own test-phase decoding (multi-start greedy)", how=how, load_baseline=lb, src=src)
        run.probe("ckpt_phase_decode_restored")
    if lb and "baseline_policy" in before:
        rp2 = _rollout_policy(m2)
        if rp2 is None:
            run.violate(scope, "restored_baseline_policy", "load_baseline=True restored no rollout-baseline policy",
                        constraint="missing", how=how, src=src)
            raise StopRun()
        _cmp_greedy(run, scope, "restored_baseline_policy", before["baseline_policy"],
                    PU.greedy(rp2, m2.env, fresh), "rollout-baseline policy", how=how, load_baseline=lb, src=src)
        run.probe("ckpt_baseline_policy_restored")
    # state the property does not name: counted, never reported
    if bl == "critic" and getattr(m2.baseline, "critic", None) is not None:
        with torch.inference_mode():
            c2 = [float(x) for x in m2.baseline.critic(m2.env.reset(fresh.clone())).flatten().tolist()]
        run.probe("obs_critic_restored" if c2 == before["critic"] else "obs_critic_not_restored")
    if obs["alpha"] is not None:
        run.probe("obs_warmup_alpha_restored" if getattr(m2.baseline, "alpha", None) == obs["alpha"]
                  else "obs_warmup_alpha_not_restored")
    if obs["exp_v"] is not None:
        v2 = getattr(m2.baseline, "v", None)
        run.probe("obs_exponential_v_restored" if v2 is not None and float(v2) == obs["exp_v"]
                  else "obs_exponential_v_not_restored")
    run.log.add("ckpt", bl, lb, src, how, [x.hex() for x in after[1]])
    run.probe(f"ckpt:{bl}:load_baseline={lb}")
    run.state("ckpt", name, bl, lb, src, plan["trainer"], plan["max_epochs"])
    run.nontrivial = True
    run.summary = {"how": how, "reward_before": before["policy"][1], "reward_after": after[1]}


@contextlib.contextmanager
def _lenient_torch_load():
    """torch.load calls that do not say otherwise get weights_only=False (torch's own switch; no /verif frame
    ends up in the traceback of a failing load)."""
    old = os.environ.get("TORCH_FORCE_NO_WEIGHTS_ONLY_LOAD")
    os.environ["TORCH_FORCE_NO_WEIGHTS_ONLY_LOAD"] = "1"
    try:
        yield
    finally:
        if old is None:
            os.environ.pop("TORCH_FORCE_NO_WEIGHTS_ONLY_LOAD", None)
        else:
            os.environ["TORCH_FORCE_NO_WEIGHTS_ONLY_LOAD"] = old


def _cmp_greedy(run, scope, monitor, before, after, what, **detail):
    if before[0] != after[0]:
        i = [j for j in range(len(before[0])) if before[0][j] != after[0][j]][0]
        run.violate(scope, monitor, f"restored {what} takes other greedy actions on fresh instance {i}: "
                    f"{after[0][i]} vs {before[0][i]} before the crash", constraint="actions", instance=i, **detail)
        raise StopRun()
    for i, (a, b) in enumerate(zip(after[1], before[1])):
        if abs(a - b) > 1e-6 * max(1.0, abs(b)):
            run.violate(scope, monitor, f"restored {what}: reward {a!r} vs {b!r} before the crash on fresh instance {i}",
                        constraint="reward", instance=i, got=a, want=b, **detail)
            raise StopRun()


# ------------------------------------------------------------------------------------------------
# canary mutants
# ------------------------------------------------------------------------------------------------
def _canary_npz_load_float32():
    """load_npz_to_tensordict casts every array to float32."""
    import rl4co.data.utils as U
    import rl4co.envs.common.base as B
    import rl4co.envs.routing.cvrp.env as C
    import rl4co.envs.routing.cvrptw.env as CT
    import rl4co.envs.routing.mtvrp.env as M
    from tensordict import TensorDict

    def load(filename):
        x = dict(np.load(filename))
        x = {k: v.astype(np.float32) for k, v in x.items()}
        return TensorDict(x, batch_size=x[list(x.keys())[0]].shape[0])

    import contextlib

    @contextlib.contextmanager
    def cm():
        with contextlib.ExitStack() as st:
            for mod in (U, B, C, CT, M):
                st.enter_context(patched(mod, "load_npz_to_tensordict", load))
            yield

    return cm()


def _canary_cvrp_capacity_max():
    """CVRPEnv.load_data divides the demand by capacity.max() instead of the instance's capacity."""
    import contextlib

    import rl4co.envs.routing.cvrp.env as C

    orig = C.CVRPEnv.load_data

    def load_data(fpath, batch_size=[]):
        td = C.load_npz_to_tensordict(fpath)
        td.set("demand", td["demand"] / td["capacity"].max())
        return td

    @contextlib.contextmanager
    def cm():
        C.CVRPEnv.load_data = staticmethod(load_data)
        try:
            yield
        finally:
            C.CVRPEnv.load_data = staticmethod(orig)

    return cm()


def _canary_setstate_reseeds():
    """RL4COEnvBase.__setstate__ reseeds with 0 and forgets the pickled generator state."""
    from rl4co.envs.common.base import RL4COEnvBase

    def setstate(self, state):
        self.__dict__.update(state)
        self.rng = torch.manual_seed(0)

    return patched(RL4COEnvBase, "__setstate__", setstate)


def _canary_fjsp_write_skips_last_job():
    """fjsp.parser.write_one leaves out the last job of every instance (header still counts it)."""
    import rl4co.envs.scheduling.fjsp.parser as P

    orig = P.write_one

    def write_one(args, where=None):
        id_, instance = args
        n_jobs = instance["next_op"].size(0)
        if n_jobs > 1:
            instance = instance.clone()
            adj = instance["job_ops_adj"].clone()
            last_ops = adj[n_jobs - 1].nonzero().squeeze(1)
            adj[n_jobs - 1] = 0
            instance["job_ops_adj"] = adj
            pm = instance["pad_mask"].clone()
            pm[last_ops] = True
            instance["pad_mask"] = pm
        return orig((id_, instance), where=where)

    return patched(P, "write_one", write_one)


def _canary_ckpt_baseline_keys_not_stripped():
    """load_from_checkpoint no longer strips the 'baseline.' prefix: with strict=False nothing is restored."""
    from typing import cast

    from lightning.pytorch.core.saving import _load_from_checkpoint

    from rl4co.models.rl.reinforce.reinforce import REINFORCE

    def load_from_checkpoint(cls, checkpoint_path, map_location=None, hparams_file=None, strict=False,
                             load_baseline=True, **kwargs):
        loaded = _load_from_checkpoint(cls, checkpoint_path, map_location, hparams_file, False, **kwargs)
        if load_baseline:
            loaded.setup()
            loaded.post_setup_hook()
            if hasattr(checkpoint_path, "seek"):
                checkpoint_path.seek(0)
            state_dict = torch.load(checkpoint_path, map_location=map_location, weights_only=False)["state_dict"]
            state_dict = {k: v for k, v in state_dict.items() if "baseline" in k}
            loaded.baseline.load_state_dict(state_dict, strict=False)
        return cast(cls, loaded)

    import contextlib

    @contextlib.contextmanager
    def cm():
        old = REINFORCE.__dict__["load_from_checkpoint"]
        REINFORCE.load_from_checkpoint = classmethod(load_from_checkpoint)
        try:
            yield
        finally:
            REINFORCE.load_from_checkpoint = old

    return cm()


def _canary_jssp_read_zero_based():
    """jssp.parser.read stops subtracting one from the machine index (last machine wraps to -1 -> shifted)."""
    import rl4co.envs.scheduling.jssp.generator as G
    import rl4co.envs.scheduling.jssp.parser as P

    orig = P.read

    def read(loc, max_ops=None):
        td, nj, nm, mo = orig(loc, max_ops)
        td["proc_times"] = torch.roll(td["proc_times"], 1, dims=1)
        return td, nj, nm, mo

    import contextlib

    @contextlib.contextmanager
    def cm():
        with patched(P, "read", read), patched(G, "read", read):
            yield

    return cm()


C19.CANARIES = {
    "npz_load_float32": _canary_npz_load_float32,
    "cvrp_capacity_max": _canary_cvrp_capacity_max,
    "setstate_reseeds": _canary_setstate_reseeds,
    "fjsp_write_skips_last_job": _canary_fjsp_write_skips_last_job,
    "ckpt_baseline_keys_not_stripped": _canary_ckpt_baseline_keys_not_stripped,
    "jssp_read_rolls_machines": _canary_jssp_read_zero_based,
}
