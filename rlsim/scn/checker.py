"""C06 — the built-in solution checker agrees with the ground-truth definition.

Fault enumeration on recorded histories: a base solution (mask-driven episode, or a feasible solution
built by the reference in an unusual shape) is validated, then EVERY position x fault kind single-fault
corruption of it is enumerated (drop / duplicate / swap / move / merge routes / pickup<->delivery /
instance-side faults: raise a demand, shrink a time window, the length limit, a skill, lower a prize).
The independent verdict is the reference model's `violations()` with the float band; the checker must
return normally when the verdict is 'feasible', raise when it is 'violates beyond the band', and cases
inside the band are skipped (counted)."""
from __future__ import annotations

import copy

import torch

from .. import drive as D
from .. import envs as E
from ..kernel import HarnessError, StopRun, Streams
from ..ref import routing as RR
from . import canaries_env as CE

ENVS = ["tsp", "atsp", "cvrp", "cvrptw", "sdvrp", "svrp", "op", "pctsp", "spctsp", "pdp", "mtvrp",
        "tsp_kopt", "pdp_ruin_repair"]
DEPOT_ENVS = {"cvrp", "cvrptw", "sdvrp", "svrp", "op", "pctsp", "spctsp", "mtvrp"}
MAX_FAULTS = {"quick": 120, "thorough": 400}
INSTANCE_KINDS = {"raise_demand", "shrink_window", "raise_skill", "lower_tech", "shrink_max_length", "lower_prize",
                  "shrink_distance_limit", "shift_window_earlier"}
INSTANCE_SANITY = ("unfeasible time windows", "get back to depot in time", "must be non-negative")


def cfg_for(name, rc):
    if name in ("tsp_kopt", "pdp_ruin_repair"):
        n = rc.randint(4, 8)
        if name == "pdp_ruin_repair":
            n += n % 2
        cfg = {"env": name, "n": n, "kw": {}, "gen": {"num_loc": n}}
        if name == "tsp_kopt":
            cfg["kw"] = {"k_max": rc.choice([2, 3])}
        return cfg
    cfg = E.sample_cfg(name, rc, "quick")
    if cfg["gen"].get("num_loc", 0) > 10:
        cfg["gen"]["num_loc"] = rc.randint(4, 8) + (0 if name != "pdp" else 0)
        if name == "pdp":
            cfg["gen"]["num_loc"] += cfg["gen"]["num_loc"] % 2
    return cfg


def make_env(cfg):
    if cfg["env"] in ("tsp_kopt", "pdp_ruin_repair"):
        from rl4co.envs import get_env

        return get_env(cfg["env"], generator_params=dict(cfg["gen"]), **cfg.get("kw", {}))
    return E.make_env(cfg)


# ----------------------------------------------------------------------------------------------------
# corruptions of action lists
# ----------------------------------------------------------------------------------------------------
def action_faults(name, acts, n_nodes):
    """yield (kind, position info, new action list) for every single-fault corruption"""
    T = len(acts)
    depot = name in DEPOT_ENVS
    for i in range(T):
        if acts[i] != 0 or not depot:
            if depot:
                yield ("drop", i, acts[:i] + [0] + acts[i + 1:])
            for j in range(T):
                if j != i and acts[j] != acts[i] and (acts[j] != 0 or not depot):
                    yield ("duplicate", (i, j), acts[:i] + [acts[j]] + acts[i + 1:])
                    break
    for i in range(T):
        for j in range(i + 1, T):
            if acts[i] != acts[j]:
                b = list(acts)
                b[i], b[j] = b[j], b[i]
                yield ("swap", (i, j), b)
    for i in range(T):
        for j in range(T):
            if i != j and abs(i - j) > 1:
                b = list(acts)
                x = b.pop(i)
                b.insert(j, x)
                yield ("move", (i, j), b)
    if depot:
        for i in range(T):
            if acts[i] == 0 and 0 < i < T - 1:
                yield ("merge_routes", i, acts[:i] + acts[i + 1:] + [0])
    else:
        # tours without a depot symbol: a node left out (shorter sequence) and a node visited again (longer one)
        for i in range(T):
            yield ("delete", i, acts[:i] + acts[i + 1:])
        for i in range(T):
            for j in (0, T // 2, T):
                if j != i and j != i + 1:
                    yield ("insert_revisit", (i, j), acts[:j] + [acts[i]] + acts[j:])


def instance_faults(name, row, acts, rc):
    """yield (kind, info, new_row): instance-side single faults that may invalidate the base solution"""
    def cp():
        return {k: v.clone() for k, v in row.items()}

    if name in ("cvrp", "cvrptw", "sdvrp"):
        for j in range(row["demand"].shape[0]):
            r = cp()
            r["demand"][j] = r["demand"][j] + 0.5
            yield ("raise_demand", j, r)
    if name == "cvrptw":
        for j in range(1, row["time_windows"].shape[0]):
            r = cp()
            lo, hi = float(r["time_windows"][j, 0]), float(r["time_windows"][j, 1])
            mid = lo + (hi - lo) * 0.5
            r["time_windows"][j, 1] = mid if not float(mid).is_integer() or True else mid
            yield ("shrink_window", j, r)
    if name == "svrp":
        for j in range(row["skills"].shape[0]):
            r = cp()
            r["skills"][j] = r["techs"].max() * 0.999
            yield ("raise_skill", j, r)
        r = cp()
        r["techs"][0] = r["techs"][0] * 0.25
        yield ("lower_tech", 0, r)
    if name == "op":
        for f in (0.9, 0.6, 0.3):
            r = cp()
            r["max_length"] = r["max_length"] * f
            yield ("shrink_max_length", f, r)
    if name in ("pctsp", "spctsp"):
        key = "stochastic_prize" if name == "spctsp" else "deterministic_prize"
        for j in range(row[key].shape[0]):
            r = cp()
            r[key][j] = r[key][j] * 0.1
            yield ("lower_prize", j, r)
    if name == "mtvrp":
        for j in range(1, row["demand_linehaul"].shape[0]):
            r = cp()
            k = "demand_linehaul" if float(r["demand_linehaul"][j]) > 0 else "demand_backhaul"
            r[k][j] = r[k][j] + 0.6
            yield ("raise_demand", j, r)
        if float(row["distance_limit"].flatten()[0]) != float("inf"):
            for f in (0.8, 0.5):
                r = cp()
                r["distance_limit"] = r["distance_limit"] * f
                yield ("shrink_distance_limit", f, r)
        if float(row["time_windows"][1, 1]) != float("inf"):
            for j in range(1, row["time_windows"].shape[0]):
                r = cp()
                lo, hi = float(r["time_windows"][j, 0]), float(r["time_windows"][j, 1])
                r["time_windows"][j, 0] = lo * 0.5
                r["time_windows"][j, 1] = lo * 0.5 + (hi - lo) * 0.5
                yield ("shift_window_earlier", j, r)


# ----------------------------------------------------------------------------------------------------
# ground truth for successor arrays (improvement envs)
# ----------------------------------------------------------------------------------------------------
def rec_violations(name, rec):
    n = len(rec)
    v = []
    if sorted(rec) != list(range(n)):
        v.append(("not_a_permutation", 1.0))
        return v
    seen, cur, order = set(), 0, []
    for _ in range(n):
        cur = rec[cur]
        if cur in seen:
            break
        seen.add(cur)
        order.append(cur)
    if len(seen) != n:
        v.append(("not_a_single_cycle", float(n - len(seen))))
        return v
    if name == "pdp_ruin_repair":
        # visiting order starting after the depot (node 0); order ends with 0
        pos = {node: k for k, node in enumerate(order)}
        half = (n - 1) // 2
        for p in range(1, half + 1):
            if pos[p] > pos[p + half]:
                v.append(("pickup_before_delivery", 1.0))
    return v


def rec_faults(rec):
    n = len(rec)
    for i in range(n):
        for j in range(i + 1, n):
            b = list(rec)
            b[i], b[j] = b[j], b[i]
            yield ("swap_successors", (i, j), b)
    for i in range(n):
        for x in range(n):
            if x != rec[i]:
                b = list(rec)
                b[i] = x
                yield ("set_successor", (i, x), b)
                break
    # reversal of a segment of the tour (valid single cycle, may break PDP precedence)
    order, cur = [], 0
    for _ in range(n):
        order.append(cur)
        cur = rec[cur]
    for i in range(1, n - 1):
        for j in range(i + 1, n):
            o = order[:i] + order[i:j + 1][::-1] + order[j + 1:]
            b = [0] * n
            for k in range(n):
                b[o[k]] = o[(k + 1) % n]
            yield ("reverse_segment", (i, j), b)


# ----------------------------------------------------------------------------------------------------
class C06:
    prop = "C06"
    level = "fault_enumeration"
    chunk = 2
    rule = ("run = one instance of one checker-shipping environment (tsp, atsp, cvrp, cvrptw scaled/unscaled, sdvrp, "
            "svrp, op, pctsp, spctsp, pdp both start modes, mtvrp presets, tsp_kopt, pdp_ruin_repair) x one base "
            "solution (mask-driven episode under a seeded strategy, or a reference-built feasible solution, plus padded "
            "/ no-final-depot shapes) x EVERY position x fault-kind single-fault corruption of the action list (drop, "
            "duplicate, swap, move, merge routes) and instance-side faults (raise demand, shrink window / length limit / "
            "skill, lower prize), capped at 120/400 per base solution by seeded sampling.  evaluations counts runs; "
            "coverage.checker_calls counts verdict/checker comparisons.  Non-trivial = at least one corruption judged "
            "infeasible and one judged feasible; distinct = distinct event-log digest.")
    components_real = ["check_solution_validity of every environment that ships one", "env._reset (td handed to the checker)",
                       "rl4co generators"]
    components_stub = ["ground truth = rlsim/ref/routing.py violations() (problem definitions) and successor-array validity"]
    assumptions = ["verdicts inside the float band are skipped (counted as indeterminate)",
                   "any exception raised by a checker counts as rejection; acceptance = normal return",
                   "SDVRP: consecutive depot visits while demand remains are not generated (encoding convention of the checker)"]
    required_probes = ["accept_checked", "reject_checked"]
    CANARIES = CE.C06_CANARIES if hasattr(CE, "C06_CANARIES") else {}

    @staticmethod
    def make_plan(run_seed, tier):
        st = Streams(run_seed)
        rc = st.get("config")
        pool = E.only_filter(ENVS)
        name = pool[rc.randrange(len(pool))]
        cfg = cfg_for(name, rc)
        env = make_env(cfg)
        two = E.gen_rows(env, cfg, 2, st.torch_seed("instances"))
        if rc.random() < 0.4:  # hand-supplied documented-format data (service durations, own budgets, low prizes)
            two, _src = E.hand_format(name, two, rc)
        row = two[0]
        companion = E.enc_row(two[1]) if (name not in ("tsp_kopt", "pdp_ruin_repair") and rc.random() < 0.5) else None
        return {"cfg": cfg, "instance": E.enc_row(row), "companion": companion, "strategy": rc.choice(D.STRATEGIES),
                "base": rc.choice(["mask", "mask", "ref"]), "max_faults": MAX_FAULTS[tier],
                "fault_seed": rc.randrange(1 << 30), "pad": rc.randint(0, 3),
                "moves": rc.randint(0, 6)}

    @staticmethod
    def sample(run):
        p = run.plan
        return {"env": p["cfg"], "base": p["base"], "instance": p["instance"],
                "summary": getattr(run, "summary", None)}

    @staticmethod
    def execute(run):
        p = run.plan
        cfg = p["cfg"]
        name = cfg["env"]
        row = E.dec_row(p["instance"])
        with run.guard(name, "construct env"):
            env = make_env(cfg)
        if name in ("tsp_kopt", "pdp_ruin_repair"):
            _improvement(run, env, cfg, row)
        else:
            # exact integer verdict on the capacity constraint for k/Q demands (an exactly full vehicle is
            # feasible; float32 summation order must not decide)
            RR.INTEGER_CAPACITY = "verdict" if run.plan["base"] == "ref" else True
            try:
                _constructive(run, env, cfg, row)
            finally:
                RR.INTEGER_CAPACITY = False


def _verdict(ref, acts):
    RR.MAY_COUNT = 0
    v = ref.violations(acts)
    if v:
        return "infeasible", v
    if RR.MAY_COUNT:
        return "band", v
    return "feasible", v


def _call_checker(run, env, td, acts):
    """-> None if the checker returned normally, else the exception.  With a companion (another instance with
    a feasible solution of its own, e.g. another MTVRP variant) the checker is called on the batch of both,
    the tested solution first or second: the batch verdict must be the tested solution's verdict."""
    comp = getattr(run, "_companion", None)
    if comp is not None and run.plan["cfg"]["env"] not in DEPOT_ENVS and len(acts) != len(comp["acts"]):
        comp = None  # no depot symbol to pad with: a sequence of another length is judged alone
    try:
        if comp is None:
            env.check_solution_validity(td, torch.tensor([acts], dtype=torch.long))
        else:
            run._comp_flip = not getattr(run, "_comp_flip", False)
            T = max(len(acts), len(comp["acts"]))
            a = list(acts) + [0] * (T - len(acts))
            c = list(comp["acts"]) + [0] * (T - len(comp["acts"]))
            rows = [comp["row"], run._tested_row] if run._comp_flip else [run._tested_row, comp["row"]]
            td2 = E.reset(env, run.plan["cfg"], rows)
            env.check_solution_validity(td2, torch.tensor([c, a] if run._comp_flip else [a, c], dtype=torch.long))
            run.probe("batched_checker_call")
        return None
    except Exception as e:  # noqa: BLE001 - any exception is a rejection
        return e


def _judge(run, name, cfg, row, ref, env, td, acts, kind, info, stats):
    run._tested_row = row
    verdict, v = _verdict(ref, acts)
    if verdict == "band":
        run.probe("indeterminate_band")
        return
    exc = _call_checker(run, env, td, acts)
    stats["calls"] += 1
    run.stats["checker_calls"] += 1
    if verdict == "feasible" and exc is not None and kind in INSTANCE_KINDS and any(
            m in str(exc) for m in INSTANCE_SANITY):
        run.probe("instance_fault_rejected_as_malformed")  # the corrupted *instance* left the documented format
        return
    if verdict == "feasible":
        stats["feasible"] += 1
        run.probe("accept_checked")
        if exc is not None:
            run.violate(name, "checker_rejects_feasible", f"{kind}{info}: solution {acts} is feasible by the problem "
                        f"definition but the checker raised {type(exc).__name__}: {str(exc)[:120]}",
                        constraint=f"{kind}", fault=kind, info=info, actions=acts, cfg=cfg,
                        instance=E.enc_row(row), exc=type(exc).__name__)
            raise StopRun()
    else:
        stats["infeasible"] += 1
        run.probe("reject_checked")
        if exc is None:
            run.violate(name, "checker_accepts_infeasible", f"{kind}{info}: solution {acts} violates {v[:2]} but the "
                        "checker accepted it", constraint=v[0][0].split(":")[0], fault=kind, info=info, actions=acts,
                        violations=[list(x) for x in v[:4]], cfg=cfg, instance=E.enc_row(row))
            raise StopRun()
    run.log.add("judge", kind, str(info), verdict, exc is None)


def _complementary_pair(run, name, cfg, row, ref0, env, acts, rng):
    """Two corrupted solutions of the same instance in one batch whose faults mirror each other (one visits y
    twice and leaves out x, the other visits x twice and leaves out y): each is infeasible on its own, so the
    batch has to be rejected -- node counts taken over the whole batch instead of per solution would cancel."""
    nodes = sorted({a for a in acts if a != 0 or name not in DEPOT_ENVS})
    if len(nodes) < 2:
        return
    x, y = rng.sample(nodes, 2)
    a1 = [y if a == x else a for a in acts]
    a2 = [x if a == y else a for a in acts]
    v1, w1 = _verdict(ref0, a1)
    v2, w2 = _verdict(ref0, a2)
    if v1 != "infeasible" or v2 != "infeasible":
        run.probe("complementary_pair_not_clearly_infeasible")
        return
    try:
        td2 = E.reset(env, cfg, [row, row])
        env.check_solution_validity(td2, torch.tensor([a1, a2], dtype=torch.long))
        exc = None
    except Exception as e:  # noqa: BLE001 - any exception is a rejection
        exc = e
    run.stats["checker_calls"] += 1
    run.probe("complementary_pair_checked")
    run.fault("action:complementary_pair")
    run.log.add("judge", "complementary_pair", f"{x}<->{y}", "infeasible", exc is None)
    if exc is None:
        run.violate(name, "checker_accepts_infeasible", f"complementary_pair({x},{y}): the batch of {a1} (violates "
                    f"{w1[:1]}) and {a2} (violates {w2[:1]}) on the same instance was accepted: each solution is "
                    "infeasible on its own", constraint=w1[0][0].split(":")[0], fault="complementary_pair",
                    info=[x, y], actions=a1, actions_b=a2, cfg=cfg, instance=E.enc_row(row))
        raise StopRun()


def _constructive(run, env, cfg, row):
    import random

    name = cfg["env"]
    p = run.plan
    ref0 = RR.make_ref(name, row, cfg)
    with run.guard(name, "reset (B=1)"):
        td0 = E.reset(env, cfg, [row])
    # ---- base solution -------------------------------------------------------------------------------
    acts = []
    if p["base"] == "mask":
        td = td0.clone()
        cap = D.step_bound_generic(cfg, td)
        while not bool(E.done_vec(td)[0]) and len(acts) < cap:
            opts = D.admitted(td["action_mask"][0])
            if not opts:
                return
            a = D.choose(run, p["strategy"], td, 0, opts)
            acts.append(a)
            with run.guard(name, "step"):
                td = E.step(env, td, torch.tensor([a]))
            run.tick()
    else:
        ref = ref0.clone()
        rng = run.chooser
        while ref.done() != "must" and len(acts) <= ref.step_bound() + 1:
            adm = ref.admissible()
            opts = [a for a in sorted(adm) if adm[a] == "must" and not ref.pruned(a)]
            if not opts:
                return
            a = opts[rng.pick(len(opts))]
            ref.apply(a)
            acts.append(a)
        # unusual shape: drop the final depot return (still a complete feasible solution)
        if name in ("cvrp", "cvrptw", "svrp", "mtvrp") and acts and acts[-1] == 0 and acts.count(0) >= 1:
            acts = acts[:-1]
            run.probe("no_final_depot")
    stats = {"calls": 0, "feasible": 0, "infeasible": 0}
    verdict, v = _verdict(ref0, acts)
    if verdict != "feasible":
        run.probe("base_not_clearly_feasible")
        return
    run._companion = None
    if p.get("companion") and name in DEPOT_ENVS | {"tsp", "atsp", "pdp"}:
        crow = E.dec_row(p["companion"])
        cref = RR.make_ref(name, crow, cfg)
        tdc = E.reset(env, cfg, [crow])
        cacts = []
        capc = D.step_bound_generic(cfg, tdc)
        while not bool(E.done_vec(tdc)[0]) and len(cacts) < capc:
            oc = D.admitted(tdc["action_mask"][0])
            if not oc:
                break
            cacts.append(oc[run.chooser.pick(len(oc))])
            tdc = E.step(env, tdc, torch.tensor([cacts[-1]]))
        if bool(E.done_vec(tdc)[0]) and _verdict(cref, cacts)[0] == "feasible" and (
                name in DEPOT_ENVS or len(cacts) == len(acts)):
            run._companion = {"row": crow, "acts": cacts}
    _judge(run, name, cfg, row, ref0, env, td0, acts, "base", "", stats)
    pad = p["pad"]
    if name == "svrp":  # a lock-step batch never pads beyond the number of technicians
        pad = max(0, min(pad, len(cfg["gen"]["tech_costs"]) - 1 - acts.count(0)))
    if name in DEPOT_ENVS and pad:
        # padded form (finished row waiting for batch-mates)
        _judge(run, name, cfg, row, ref0, env, td0, acts + [0] * pad, "padded", pad, stats)
    # ---- single-fault corruptions ----------------------------------------------------------------------
    n_nodes = td0["action_mask"].shape[-1]
    faults = list(action_faults(name, acts, n_nodes))
    rng = random.Random(p["fault_seed"])
    if len(faults) > p["max_faults"]:
        faults = rng.sample(faults, p["max_faults"])
        run.probe("faults_sampled")
    else:
        run.probe("faults_exhaustive")
    for kind, info, b in faults:
        if name == "sdvrp" and _mid_double_depot(b):
            continue  # consecutive depot visits while demand remains: encoding convention, not generated
        _judge(run, name, cfg, row, ref0, env, td0, b, kind, info, stats)
        run.fault("action:" + kind)
    _complementary_pair(run, name, cfg, row, ref0, env, acts, rng)
    for kind, info, r2 in instance_faults(name, row, acts, rng):
        ref2 = RR.make_ref(name, r2, cfg)
        try:
            td2 = E.reset(env, cfg, [r2])
        except Exception:  # noqa: BLE001 - a corrupted instance may be rejected by reset itself
            continue
        _judge(run, name, cfg, r2, ref2, env, td2, acts, kind, info, stats)
        run.fault("instance:" + kind)
    run.summary = {"base": acts, **stats}
    if stats["feasible"] and stats["infeasible"]:
        run.nontrivial = True


def _mid_double_depot(b):
    last_c = max([i for i, x in enumerate(b) if x != 0], default=-1)
    return any(b[i] == 0 and b[i + 1] == 0 for i in range(min(last_c, len(b) - 1)))


def _improvement(run, env, cfg, row):
    import random

    name = cfg["env"]
    p = run.plan
    with run.guard(name, "reset"):
        td = E.reset(env, cfg, [row])
    # a few environment moves so that rec_best is not just the initial tour
    torch.manual_seed(run.streams.torch_seed("moves"))
    for _ in range(p["moves"]):
        if name != "tsp_kopt":
            break
        try:  # the sampler itself is C09's business (it crashes at batch size one for k>2)
            env._random_action(td)
            td = env.step(td)["next"]
        except Exception:  # noqa: BLE001
            run.probe("random_move_failed")
            break
        run.tick()
    rec = td["rec_best"][0].tolist()
    stats = {"calls": 0, "feasible": 0, "infeasible": 0}

    def judge(rec2, kind, info):
        v = rec_violations(name, rec2)
        td2 = td.clone()
        td2["rec_best"] = torch.tensor([rec2], dtype=td["rec_best"].dtype)
        try:
            env.check_solution_validity(td2)
            exc = None
        except Exception as e:  # noqa: BLE001
            exc = e
        stats["calls"] += 1
        run.stats["checker_calls"] += 1
        if not v:
            stats["feasible"] += 1
            run.probe("accept_checked")
            if exc is not None:
                run.violate(name, "checker_rejects_feasible", f"{kind}{info}: tour {rec2} is valid but the checker "
                            f"raised {type(exc).__name__}", constraint=kind, rec=rec2, cfg=cfg)
                raise StopRun()
        else:
            stats["infeasible"] += 1
            run.probe("reject_checked")
            if exc is None:
                run.violate(name, "checker_accepts_infeasible", f"{kind}{info}: successor array {rec2} violates "
                            f"{v[:2]} but the checker accepted it", constraint=v[0][0], rec=rec2, cfg=cfg)
                raise StopRun()
        run.log.add("judge", kind, str(info), bool(v), exc is None)

    judge(rec, "base", "")
    faults = list(rec_faults(rec))
    rng = random.Random(p["fault_seed"])
    if len(faults) > p["max_faults"]:
        faults = rng.sample(faults, p["max_faults"])
    for kind, info, b in faults:
        judge(b, kind, info)
        run.fault("rec:" + kind)
    run.summary = {"base": rec, **stats}
    if stats["feasible"] and stats["infeasible"]:
        run.nontrivial = True
