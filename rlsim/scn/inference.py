"""C14 — inference is per-instance: batch composition never changes the answer.

A tiny bundled policy (weights = f(plan)) in eval() mode decodes greedily.  Phase A: every instance
alone (B=1).  Phase B: scheduled compositions — subsets, permutations, duplicates, other batch sizes,
and a DataLoader chunking the way ``evaluate_policy`` does.  History check: actions, reward and
log-likelihood of an instance are the same in A and B, up to rounding that does not flip a selection
(DESIGN 4): when two runs diverge at step t the recorded log-probs of the two chosen actions are
compared in BOTH runs; a gap below 1e-5 marks the comparison indeterminate (counted, not reported).
A crash at B=1 (or in any batch) is a violation."""
from __future__ import annotations

import copy
import math

import torch

from .. import envs as E
from .. import infer_util as U
from ..kernel import H, HarnessError, StopRun, Streams

FLIP_GAP = 1e-5
MULTISTART_ENVS = ("tsp", "cvrp", "sdvrp", "pctsp")


def _tol(ref: float, n: int) -> float:
    return 1e-5 * max(1.0, abs(ref)) * math.sqrt(max(n, 1))


def _hex(x: float) -> str:
    return float(x).hex() if x == x else "nan"


class C14:
    prop = "C14"
    level = "exploration"
    chunk = 2
    rule = ("run = one (policy, environment) pair of the allow-list (seeded choice over 28 pairs) x a tiny "
            "policy whose weights are a function of the plan (embed 32, 1-2 layers, random normalisation "
            "kind, non-trivial batch-norm running statistics), eval() mode, greedy decoding (for some runs "
            "greedy multi-start / PolyNet's k strategies) x 3-5 generator instances; each instance is "
            "decoded alone (B=1) and then inside 3-4 scheduled compositions (subset, permutation, "
            "duplicates, pair, DataLoader chunking with a batch size that may not divide; for plain greedy runs of "
            "am/ham/symnco/nar the loader composition also goes through rl4co.tasks.eval.evaluate_policy and its "
            "per-item rewards are compared with the solo rewards).  Non-trivial = at "
            "least one composition with B>=2 was compared row by row with the solo results; distinct = "
            "distinct event-log digest.")
    components_real = ["rl4co.models.zoo.{am,ptrnet,ham,mdam,polynet,symnco,matnet,l2d} policies and the MVMoE variant of the attention model (MoE feed-forward blocks in encoder and decoder) (encoder, "
                       "decoder, env embeddings, attention, normalisation)",
                       "rl4co.utils.decoding (Greedy strategy, multistart hook, get_log_likelihood)",
                       "rl4co.envs.* reset/step/get_reward of 15 environments", "rl4co generators",
                       "env.dataset_cls + torch DataLoader + collate_fn (loader compositions)",
                       "rl4co.tasks.eval.evaluate_policy / GreedyEval / EvalBase.__call__ (chunk concatenation)",
                       "NonAutoregressivePolicy + NonAutoregressiveDecoder (stub heatmap encoder)"]
    components_stub = ["policy weights: seeded random initialisation instead of a trained checkpoint",
                       "row-keyed RNG seam: torch.rand*/randint inside the forward pass draw row i from "
                       "Generator(H(instance id, call no)) (MatNet's random one-hot column embedding)"]
    assumptions = ["CPU float32 kernels, one thread", "instances from the library's generators at small sizes "
                   "(3-8 nodes; 8% at 20-50)", "greedy near-ties (log-prob gap < 1e-5 in both runs) are "
                   "indeterminate, not violations", "random draws inside a forward pass are per-instance "
                   "(row-keyed seam), so MatNet is judged on what it does with its draws, not on the RNG"]
    required_probes = ["solo_b1", "loader_partial_chunk", "dup_rows", "unequal_lengths", "rng_keyed_draws",
                       "evaluate_policy_partial_last_chunk"]
    excluded = U.EXCLUDED
    CANARIES = {}

    # ---------------------------------------------------------------------------------------------
    @staticmethod
    def make_plan(run_seed: int, tier: str) -> dict:
        st = Streams(run_seed)
        rc = st.get("config")
        combos = [c for c in U.COMBOS if c[1] in E.only_filter([c[1] for c in U.COMBOS])]
        pol, name = combos[rc.randrange(len(combos))]
        cfg = E.sample_cfg(name, rc, tier)
        if tier != "thorough" and cfg["n"] > 8 and rc.random() < 0.6:
            cfg = E.sample_cfg(name, rc, tier)  # fewer big instances in the quick tier
        cfg = E.for_network(cfg)
        spec = U.sample_policy_spec(pol, name, rc)
        if pol == "matnet" and cfg["gen"]["num_loc"] > spec["embed_dim"]:
            spec["embed_dim"] = 64  # MatNet's one-hot column embedding needs embed_dim >= number of nodes
        mode, k = "greedy", 0
        if pol == "am" and name in MULTISTART_ENVS and rc.random() < 0.3:
            mode, k = "multistart", rc.randint(2, max(2, min(4, _n_starts_cap(cfg))))
        elif pol == "polynet" and rc.random() < 0.5:
            mode, k = "polyk", spec["kw"]["k"]
        env = E.make_env(cfg)
        thorough = tier == "thorough"
        m = rc.randint(3, 6 if thorough else 5)
        rows = E.gen_rows(env, cfg, m, st.torch_seed("instances"))
        bmax = 8 if thorough else 4
        comps = []
        kinds = ["subset", "perm", "dup", "pair", "loader", "loader"]
        for _ in range(rc.randint(3, 5 if thorough else 4)):
            kind = rc.choice(kinds)
            if kind == "subset":
                b = rc.randint(2, min(bmax, m))
                comps.append({"kind": "rows", "rows": rc.sample(range(m), b)})
            elif kind == "perm":
                perm = list(range(m))
                rc.shuffle(perm)
                comps.append({"kind": "rows", "rows": perm[:bmax]})
            elif kind == "dup":
                b = rc.randint(2, bmax)
                base = [rc.randrange(m) for _ in range(b)]
                j = rc.randrange(b)
                base[(j + 1) % b] = base[j]
                comps.append({"kind": "rows", "rows": base})
            elif kind == "pair":
                i = rc.randrange(m)
                comps.append({"kind": "rows", "rows": [i, rc.randrange(m)] if rc.random() < 0.5
                              else [rc.randrange(m), i]})
            else:
                order = list(range(m))
                rc.shuffle(order)
                if rc.random() < 0.4:
                    order = order + [rc.randrange(m) for _ in range(rc.randint(1, 3))]
                comps.append({"kind": "loader", "rows": order, "batch_size": rc.randint(1, bmax)})
        return {"policy": spec, "cfg": cfg, "mode": mode, "k": k,
                "instances": [E.enc_row(r) for r in rows], "compositions": comps}

    # ---------------------------------------------------------------------------------------------
    @staticmethod
    def sample(run):
        p = run.plan
        return {"policy": p["policy"], "env": p["cfg"], "mode": p["mode"], "k": p["k"],
                "n_instances": len(p["instances"]), "compositions": p["compositions"],
                "instance0": p["instances"][0], "solo": getattr(run, "solo_summary", None)}

    @staticmethod
    def shrink(plan):
        for ci in range(len(plan["compositions"])):
            if len(plan["compositions"]) > 1:
                p = copy.deepcopy(plan)
                del p["compositions"][ci]
                yield p
        for ci, c in enumerate(plan["compositions"]):
            if len(c["rows"]) > 1:
                for ri in range(len(c["rows"])):
                    p = copy.deepcopy(plan)
                    del p["compositions"][ci]["rows"][ri]
                    yield p
            if c["kind"] == "loader":
                p = copy.deepcopy(plan)
                p["compositions"][ci] = {"kind": "rows", "rows": list(c["rows"])}
                yield p
        # drop instances no composition uses (keeps indices of the others by remapping)
        used = sorted({i for c in plan["compositions"] for i in c["rows"]})
        if len(used) < len(plan["instances"]) and used:
            remap = {old: new for new, old in enumerate(used)}
            p = copy.deepcopy(plan)
            p["instances"] = [plan["instances"][i] for i in used]
            for c in p["compositions"]:
                c["rows"] = [remap[i] for i in c["rows"]]
            yield p

    # ---------------------------------------------------------------------------------------------
    @staticmethod
    def execute(run):
        plan = run.plan
        cfg, spec = plan["cfg"], plan["policy"]
        scope = f"{spec['name']}/{cfg['env']}"
        rows = [E.dec_row(r) for r in plan["instances"]]
        with run.guard(scope, "construct env"):
            env = E.make_env(cfg)
        policy = U.make_policy(spec)  # allow-listed constructors: a failure here is a harness error
        ctx = {"run": run, "scope": scope, "env": env, "cfg": cfg, "policy": policy, "spec": spec,
               "mode": plan["mode"], "k": plan["k"], "salt": H("rng", spec["seed"])}
        run.log.add("plan", spec["name"], cfg["env"], plan["mode"], plan["k"], len(rows))
        # ---- phase A: solo -------------------------------------------------------------------------
        solo = {}
        used = sorted({i for c in plan["compositions"] for i in c["rows"]})
        for i in used:
            res = forward(ctx, [rows[i]], [i], what="solo forward (B=1)", phase="solo")
            run.probe("solo_b1")
            solo[i] = [row_result(res, r, 1) for r in range(res["R"])]
            for s, rr in enumerate(solo[i]):
                run.log.add("solo", i, s, rr["actions"], [_hex(x) for x in rr["reward"]],
                            [_hex(x) for x in rr["ll"]])
        run.solo_summary = {str(i): [{"actions": rr["actions"], "reward": rr["reward"], "ll": rr["ll"]}
                                     for rr in v] for i, v in solo.items()}
        # ---- phase B: compositions -----------------------------------------------------------------
        for ci, comp in enumerate(plan["compositions"]):
            if comp["kind"] == "rows":
                chunks = [(list(comp["rows"]), None)]
            else:
                chunks = _loader_chunks(ctx, rows, comp)
            for chunk_rows, td_batch in chunks:
                B = len(chunk_rows)
                if len(set(chunk_rows)) < B:
                    run.probe("dup_rows")
                Ts = {len(solo[i][0]["actions"][0]) for i in chunk_rows}
                if len(Ts) > 1:
                    run.probe("unequal_lengths")
                res = forward(ctx, [rows[i] for i in chunk_rows], chunk_rows,
                              what=f"batched forward ({comp['kind']})", phase="batch", td_batch=td_batch)
                if B >= 2:
                    run.nontrivial = True
                for pos, i in enumerate(chunk_rows):
                    for s in range(len(solo[i])):
                        got = row_result(res, s * B + pos, B)
                        compare(ctx, solo[i][s], got, i, s, pos, B, ci, comp["kind"])
                        run.state(scope, B, pos, s, len(got["actions"][0]))
                run.log.add("comp", ci, comp["kind"], chunk_rows,
                            [_hex(x) for x in res["reward"].flatten().tolist()])
            if comp["kind"] == "loader" and plan["mode"] == "greedy" and spec["name"] in EVAL_API_POLICIES \
                    and cfg["env"] in EVAL_API_ENVS:
                _evaluate_policy_chunking(ctx, rows, comp, solo, ci)


def _n_starts_cap(cfg):
    return max(2, int(cfg["gen"].get("num_loc", cfg["n"])) - 1)


# policies / environments the evaluation module (rl4co.tasks.eval) can drive: plain constructive forward, and
# an objective that is a function of (instance, actions) -- it re-scores on a freshly reset state
EVAL_API_POLICIES = ("am", "ham", "symnco", "nar")
EVAL_API_ENVS = ("tsp", "cvrp", "cvrptw", "sdvrp", "op", "pctsp", "pdp")


def _evaluate_policy_chunking(ctx, rows, comp, solo, ci):
    """The same loader composition through rl4co.tasks.eval.evaluate_policy(method='greedy'): the reward it
    reports for the j-th dataset item is the instance's solo reward, however the dataset is chunked ("evaluation
    results do not depend on how a dataset happens to be chunked")."""
    from rl4co.tasks import eval as EV

    run, env, cfg, policy, scope = ctx["run"], ctx["env"], ctx["cfg"], ctx["policy"], ctx["scope"]
    order = list(comp["rows"])
    bs = max(1, int(comp["batch_size"]))
    td_all = E.batch_of(cfg, [{k: v.clone() for k, v in rows[i].items()} for i in order])
    with U.inference():
        torch.manual_seed(ctx["salt"] % (2**31 - 1))
        import contextlib
        import io

        sink = io.StringIO()  # the evaluation module reports through tqdm.write
        with run.guard(scope, "evaluate_policy(method='greedy')", batch_size=bs, n=len(order), phase="evaluate_policy"), \
                contextlib.redirect_stdout(sink), contextlib.redirect_stderr(sink):
            ds = env.dataset_cls(td_all)
            # the evaluation classes call policy(td) without an environment (the policy would build a default
            # one from its env_name): hand it the configured environment, as U.PolicyTap does for C15
            res = EV.evaluate_policy(env, U.PolicyTap(policy, env, True), ds, method="greedy", batch_size=bs,
                                     auto_batch_size=False, progress=False)
    rew = torch.as_tensor(res["rewards"]).detach().flatten()
    if rew.shape[0] != len(order):
        run.violate(scope, "reward_differs", f"evaluate_policy returns {rew.shape[0]} rewards for {len(order)} dataset "
                    f"items (batch_size {bs})", constraint="evaluate_policy:count", composition=ci, batch_size=bs,
                    policy=ctx["spec"], cfg=cfg)
        raise StopRun()
    acts = torch.as_tensor(res["actions"]).detach()
    for j, i in enumerate(order):
        rS = solo[i][0]["reward"][0]
        rB = float(rew[j])
        aS = solo[i][0]["actions"][0]
        T = len(aS)
        if acts.dim() == 2 and acts.shape[0] == len(order) and [int(x) for x in acts[j, :T].tolist()] != list(aS):
            # other greedy actions than alone: whether that is a rounding flip or a composition effect is decided
            # (with the log-prob gaps at hand) by the direct forward of the same chunks above; here only
            # "same actions, other reward" is judged
            run.probe("evaluate_policy_other_actions_skipped")
            continue
        if (rS != rS) != (rB != rB) or (rS == rS and abs(rS - rB) > _tol(rS, T)):
            run.violate(scope, "reward_differs", f"evaluate_policy (batch_size {bs}) reports {rB!r} for dataset item {j} "
                        f"(instance {i}); decoded alone the instance gets {rS!r}", constraint="evaluate_policy:reward",
                        composition=ci, batch_size=bs, item=j, instance=i, got=rB, ref=rS, policy=ctx["spec"], cfg=cfg)
            raise StopRun()
    run.probe("evaluate_policy_chunked")
    if len(order) % bs != 0 and len(order) > bs:
        run.probe("evaluate_policy_partial_last_chunk")


def _loader_chunks(ctx, rows, comp):
    """The instances in the scheduled order, chunked by a real DataLoader over the env's dataset class
    with its collate_fn, exactly as evaluate_policy builds it."""
    from torch.utils.data import DataLoader

    run, env, cfg = ctx["run"], ctx["env"], ctx["cfg"]
    order = list(comp["rows"])
    bs = max(1, int(comp["batch_size"]))
    td_all = E.batch_of(cfg, [{k: v.clone() for k, v in rows[i].items()} for i in order])
    with run.guard(ctx["scope"], "dataset + DataLoader", phase="batch"):
        ds = env.dataset_cls(td_all)
        dl = DataLoader(ds, batch_size=bs, shuffle=False, num_workers=0, collate_fn=ds.collate_fn)
        batches = [b for b in dl]
    out, at = [], 0
    for b in batches:
        n = b.batch_size[0]
        out.append((order[at:at + n], b))
        at += n
    if at != len(order):
        raise HarnessError("loader lost rows")
    if len(order) % bs != 0:
        run.probe("loader_partial_chunk")
    if len(out) > 1:
        run.fault("compose:loader_chunks", len(out))
    return out


def forward(ctx, rows, ids, what, phase, td_batch=None):
    """One real forward pass on a fresh batch; returns tensors + greedy tap segments."""
    run, env, cfg, policy = ctx["run"], ctx["env"], ctx["cfg"], ctx["policy"]
    scope, mode, k = ctx["scope"], ctx["mode"], ctx["k"]
    B = len(rows)
    kw = {"decode_type": "greedy"}
    if mode == "multistart":
        kw = {"decode_type": "multistart_greedy", "num_starts": k}
    elif mode == "polyk":
        kw = {"decode_type": "greedy", "num_starts": k, "multisample": True}
    detail = dict(phase=phase, B=B, mode=mode, policy=ctx["spec"], cfg=cfg)
    with U.inference():
        with run.guard(scope, what + ": env.reset", **detail):
            if td_batch is None:
                td = E.reset(env, cfg, rows)
            else:
                td = env.reset(td_batch)
        tap = U.GreedyTap(env)
        rng = U.RowKeyedRNG(ids, salt=ctx["salt"])
        torch.manual_seed(ctx["salt"] % (2**31 - 1))
        with tap, rng:
            with run.guard(scope, what, **detail):
                out = policy(td, env, phase="test", **kw)
    if rng.keyed:
        run.probe("rng_keyed_draws", rng.keyed)
    if rng.free:
        run.probe("rng_free_draws", rng.free)
    run.tick(sum(1 for e in tap.events if e[0] == "step"))
    run.fault("compose:" + ("solo" if B == 1 else "batch"))
    segs = [(steps, acts) for steps, acts in tap.segments() if acts is not None]
    if not segs:
        raise HarnessError(f"{scope}: no get_reward call observed in the forward pass")
    R = segs[0][1].shape[0]
    reward = torch.as_tensor(out["reward"]).detach()
    ll = torch.as_tensor(out["log_likelihood"]).detach()
    P = len(segs)
    if reward.dim() == 0 and R == 1:
        reward = reward.reshape(1)  # MTSPEnv.get_reward squeezes at B=1: same value, other shape
    if reward.shape[0] != R or ll.shape[0] != R:
        run.violate(scope, "output_shape", f"{what}: reward {tuple(reward.shape)} / log-likelihood "
                    f"{tuple(ll.shape)} for {R} decoded rows", constraint="shape", **detail)
        raise StopRun()
    reward = reward.reshape(R, -1)
    ll = ll.reshape(R, -1)
    if reward.shape[1] != P or ll.shape[1] != P:
        raise HarnessError(f"{scope}: {P} decoded paths but reward {tuple(reward.shape)}")
    if R != B * max(1, k if mode != "greedy" else 1):
        raise HarnessError(f"{scope}: {R} decoded rows for B={B}, k={k}, mode={mode}")
    return {"R": R, "P": P, "segs": segs, "reward": reward, "ll": ll}


def row_result(res, r, B):
    """Everything recorded for decoded row r: per path the action list and, per greedy step, the
    full log-prob row."""
    actions, lps, offs = [], [], []
    for steps, acts in res["segs"]:
        a = acts[r].tolist()
        actions.append(a)
        lps.append([lp[r] for lp, _sel in steps])
        offs.append(len(a) - len(steps))  # 1 when the first move was forced (multi-start), else 0
    return {"actions": actions, "lps": lps, "offs": offs,
            "reward": [float(x) for x in res["reward"][r].tolist()],
            "ll": [float(x) for x in res["ll"][r].tolist()]}


def compare(ctx, solo, got, i, s, pos, B, ci, kind):
    """solo vs batched result of instance i (replica s) sitting at position pos of a batch of B."""
    run, scope = ctx["run"], ctx["scope"]
    base = dict(instance=i, replica=s, pos=pos, B=B, composition=ci, kind=kind, mode=ctx["mode"],
                policy=ctx["spec"], cfg=ctx["cfg"])
    for p in range(len(solo["actions"])):
        aS, aB = solo["actions"][p], got["actions"][p]
        TS = len(aS)
        if len(aB) < TS:
            run.violate(scope, "actions_differ", f"instance {i}: {len(aB)} actions in a batch of {B}, "
                        f"{TS} alone", constraint="length", path=p, solo=aS, batch=aB, **base)
            raise StopRun()
        t = next((t for t in range(TS) if aS[t] != aB[t]), None)
        if t is not None:
            off = solo["offs"][p]
            if t - off < 0 or t - off >= len(solo["lps"][p]) or t - off >= len(got["lps"][p]):
                gapS = gapB = float("inf")  # the forced first move differs: not a rounding matter
            else:
                lpS, lpB = solo["lps"][p][t - off], got["lps"][p][t - off]
                if lpS.shape != lpB.shape:
                    gapS = gapB = float("inf")
                else:
                    gapS = float(lpS[aS[t]] - lpS[aB[t]])
                    gapB = float(lpB[aB[t]] - lpB[aS[t]])
            if max(abs(gapS), abs(gapB)) < FLIP_GAP:
                run.probe("indeterminate_flip")
                run.stats["indeterminate_skipped"] += 1
                run.log.add("indeterminate", i, s, p, t)
                return
            run.violate(scope, "actions_differ",
                        f"instance {i} (path {p}, replica {s}) decoded at position {pos} of a batch of {B} "
                        f"({kind}) takes action {aB[t]} at step {t}, alone it takes {aS[t]}; log-prob gaps "
                        f"{gapS:.3g} (alone) / {gapB:.3g} (batch)", constraint="actions", path=p, step=t,
                        solo=aS, batch=aB, gap_solo=gapS, gap_batch=gapB, **base)
            raise StopRun()
        rS, rB = solo["reward"][p], got["reward"][p]
        if (rS != rS) != (rB != rB) or (rS == rS and abs(rS - rB) > _tol(rS, TS)):
            run.violate(scope, "reward_differs",
                        f"instance {i} (path {p}, replica {s}): reward {rB!r} at position {pos} of a batch of "
                        f"{B} ({kind}) vs {rS!r} alone, same actions", constraint="reward:padded" if len(aB) > TS else "reward", path=p,
                        solo=aS, batch=aB, got=rB, ref=rS, padded=len(aB) - TS, **base)
            raise StopRun()
        lS, lB = solo["ll"][p], got["ll"][p]
        if (lS != lS) != (lB != lB) or (lS == lS and abs(lS - lB) > _tol(lS, TS)):
            run.violate(scope, "loglik_differs",
                        f"instance {i} (path {p}, replica {s}): log-likelihood {lB!r} at position {pos} of a "
                        f"batch of {B} ({kind}) vs {lS!r} alone, same actions", constraint="loglik:padded" if len(aB) > TS else "loglik", path=p,
                        solo=aS, batch=aB, got=lB, ref=lS, padded=len(aB) - TS, **base)
            raise StopRun()
    run.probe("rows_compared")


# ------------------------------------------------------------------------------------------------
# canary mutants (sensitivity self-test; in-memory only, never applied to /repo)
# ------------------------------------------------------------------------------------------------
def _swap(obj, attr, new):
    import contextlib

    @contextlib.contextmanager
    def cm():
        old = obj.__dict__[attr] if attr in obj.__dict__ else getattr(obj, attr)
        setattr(obj, attr, new)
        try:
            yield
        finally:
            setattr(obj, attr, old)

    return cm()


def _canary_context_peeks_batch():
    """A context embedding that adds a feature averaged over the whole batch (`td[...].mean(0)`)."""
    from rl4co.models.nn.env_embeddings.context import EnvContext

    orig = EnvContext.forward

    def mutant(self, embeddings, td):
        out = orig(self, embeddings, td)
        peek = embeddings.mean(dim=tuple(range(embeddings.dim() - 1)))
        return out + 2.0 * peek

    return _swap(EnvContext, "forward", mutant)


def _canary_squeeze_b1():
    """`.squeeze()` on a [B,1] feature: the CVRP remaining-capacity feature loses its batch dim at B=1."""
    from rl4co.models.nn.env_embeddings.context import VRPContext

    def mutant(self, embeddings, td):
        return (td["vehicle_capacity"] - td["used_capacity"]).squeeze()[..., None]

    return _swap(VRPContext, "_state_embedding", mutant)


def _canary_batchnorm_train():
    """Batch norm left in train mode inside eval(): normalises with the statistics of the batch."""
    import torch.nn as nn
    import torch.nn.functional as F

    from rl4co.models.nn.ops import Normalization

    orig = Normalization.forward

    def mutant(self, x):
        if isinstance(self.normalizer, nn.BatchNorm1d):
            n = self.normalizer
            return F.batch_norm(x.reshape(-1, x.size(-1)), None, None, n.weight, n.bias, True, 0.0,
                                n.eps).view(*x.size())
        return orig(self, x)

    return _swap(Normalization, "forward", mutant)


def _canary_cache_rolled():
    """PrecomputedCache: the graph context of row b is taken from row b-1 (regrouping error; the
    identity at B=1)."""
    from rl4co.models.zoo.am.decoder import AttentionModelDecoder

    orig = AttentionModelDecoder._precompute_cache

    def mutant(self, embeddings, num_starts=0):
        cache = orig(self, embeddings, num_starts=num_starts)
        if isinstance(cache.graph_context, torch.Tensor):
            cache.graph_context = cache.graph_context.roll(1, 0)
        return cache

    return _swap(AttentionModelDecoder, "_precompute_cache", mutant)


def _canary_pad_loglik():
    """Finished rows keep accumulating log-probability while batch-mates are still decoding (the step
    log-prob of a padded row is that of its batch neighbour)."""
    from rl4co.utils.decoding import DecodingStrategy

    orig = DecodingStrategy.step

    def mutant(self, logits, mask, td=None, action=None, **kw):
        done = td["done"].reshape(td.shape[0], -1)[:, 0].clone()
        td = orig(self, logits, mask, td, action=action, **kw)
        lp = self.logprobs[-1]
        if lp.dim() == 1 and bool(done.any()) and not bool(done.all()):
            self.logprobs[-1] = torch.where(done, lp.roll(1, 0), lp)
        return td

    return _swap(DecodingStrategy, "step", mutant)


C14.CANARIES = {"context_peeks_batch": _canary_context_peeks_batch,
                "squeeze_b1": _canary_squeeze_b1,
                "batchnorm_train": _canary_batchnorm_train,
                "cache_rolled": _canary_cache_rolled,
                "pad_loglik": _canary_pad_loglik}
