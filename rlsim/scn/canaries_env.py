"""In-memory canary mutants of environment code for C01/C02/C03/C05/C06 (never applied to /repo)."""
from __future__ import annotations

import contextlib

import torch


def _swap(cls, name, make_new, static=False):
    """factory of a context manager replacing cls.name by make_new(orig)"""

    def factory():
        @contextlib.contextmanager
        def cm():
            raw = cls.__dict__[name]
            orig = raw.__func__ if isinstance(raw, staticmethod) else raw
            new = make_new(orig)
            setattr(cls, name, staticmethod(new) if static else new)
            try:
                yield
            finally:
                setattr(cls, name, raw)

        return cm()

    return factory


def _envs():
    from rl4co.envs.routing.atsp.env import ATSPEnv
    from rl4co.envs.routing.cvrp.env import CVRPEnv
    from rl4co.envs.routing.cvrptw.env import CVRPTWEnv
    from rl4co.envs.routing.mtsp.env import MTSPEnv
    from rl4co.envs.routing.mtvrp.env import MTVRPEnv
    from rl4co.envs.routing.op.env import OPEnv
    from rl4co.envs.routing.pctsp.env import PCTSPEnv
    from rl4co.envs.routing.pdp.env import PDPEnv
    from rl4co.envs.routing.sdvrp.env import SDVRPEnv
    from rl4co.envs.routing.tsp.env import TSPEnv

    return locals()


E = _envs()


# ---- C01 -----------------------------------------------------------------------------------------
def _cvrp_no_capacity(orig):
    def mutant(td):
        td2 = td.clone()
        td2["used_capacity"] = torch.zeros_like(td["used_capacity"])
        return orig(td2)

    return mutant


def _cvrptw_ignore_close(orig):
    def mutant(td):
        m = orig(td)
        from rl4co.envs.routing.cvrp.env import CVRPEnv

        return CVRPEnv.get_action_mask(td)

    return mutant


def _pdp_no_precedence(orig):
    def mutant(td):
        td = orig(td)
        td["action_mask"] = td["available"].clone()
        return td

    return mutant


def _op_no_return_leg(orig):
    def mutant(td):
        td2 = td.clone()
        back = (td["locs"][..., 0:1, :] - td["locs"]).norm(p=2, dim=-1)
        td2["max_length"] = td["max_length"] + back
        return orig(td2)

    return mutant


def _mtvrp_linehaul_after_backhaul(orig):
    def mutant(td):
        td2 = td.clone()
        # pretend the vehicle never carries backhaul: linehauls stay available after a backhaul
        td2["demand_backhaul"] = td["demand_backhaul"].clone()
        cur = td["current_node"]
        td2["demand_backhaul"][torch.arange(cur.shape[0]), cur] = 0
        return orig(td2)

    return mutant


C01_CANARIES = {
    "cvrp_no_capacity": _swap(E["CVRPEnv"], "get_action_mask", _cvrp_no_capacity, static=True),
    "cvrptw_ignore_close": _swap(E["CVRPTWEnv"], "get_action_mask", _cvrptw_ignore_close, static=True),
    "pdp_no_precedence": _swap(E["PDPEnv"], "_step", _pdp_no_precedence, static=True),
    "op_no_return_leg": _swap(E["OPEnv"], "get_action_mask", _op_no_return_leg, static=True),
    "mtvrp_linehaul_after_backhaul": _swap(E["MTVRPEnv"], "get_action_mask", _mtvrp_linehaul_after_backhaul, static=True),
}


# ---- C02 -----------------------------------------------------------------------------------------
def _cvrp_depot_closed(orig):
    def mutant(td):
        m = orig(td)
        m = m.clone()
        # depot only offered when it was already offered AND some customer is offered too (never re-opens
        # when nothing fits)
        m[..., 0] = m[..., 0] & (m[..., 1:].sum(-1) > 0)
        return m

    return mutant


def _mtsp_finished_no_action(orig):
    def mutant(td):
        td = orig(td)
        am = td["action_mask"].clone()
        am[..., 0] = am[..., 0] & ~td["done"].reshape(-1)
        td["action_mask"] = am
        return td

    return mutant


def _sdvrp_half_delivery(orig):
    """every visit delivers at most a quarter of the vehicle: far more visits than the problem needs"""

    def mutant(self, td):
        td2 = td.clone()
        td2["vehicle_capacity"] = torch.minimum(td["vehicle_capacity"], td["used_capacity"] + 0.25 * td["vehicle_capacity"])
        out = orig(self, td2)
        out["vehicle_capacity"] = td["vehicle_capacity"]
        out.set("action_mask", self.get_action_mask(out))
        return out

    return mutant


def _pctsp_undone(orig):
    def mutant(self, td):
        was = td["done"].reshape(-1).clone() if "done" in td.keys() else None
        td = orig(self, td)
        if was is not None:
            td["done"] = td["done"] & ~was  # a finished row becomes unfinished again when padded
        return td

    return mutant


C02_CANARIES = {
    "cvrp_depot_closed": _swap(E["CVRPEnv"], "get_action_mask", _cvrp_depot_closed, static=True),
    "mtsp_finished_no_action": _swap(E["MTSPEnv"], "_step", _mtsp_finished_no_action, static=True),
    "sdvrp_half_delivery": _swap(E["SDVRPEnv"], "_step", _sdvrp_half_delivery),
    "pctsp_undone": _swap(E["PCTSPEnv"], "_step", _pctsp_undone),
}


# ---- C03 -----------------------------------------------------------------------------------------
def _cvrp_no_depot_prefix(orig):
    def mutant(self, td, actions):
        from rl4co.utils.ops import gather_by_index, get_tour_length

        return -get_tour_length(gather_by_index(td["locs"], actions))

    return mutant


def _atsp_roll_plus(orig):
    def mutant(self, td, actions):
        dm = td["cost_matrix"]
        src = actions
        tgt = torch.roll(actions, 1, dims=1)
        b = torch.arange(dm.shape[0]).unsqueeze(1)
        return -dm[b, src, tgt].sum(-1)

    return mutant


def _pctsp_no_penalty(orig):
    def mutant(self, td, actions):
        r = orig(self, td, actions)
        if actions.size(-1) == 1:
            return r
        return r + td["penalty"][..., 1:].sum(-1) - td["penalty"].gather(1, actions).sum(-1)

    return mutant


def _mtvrp_open_charged(orig):
    def mutant(self, td, actions):
        td2 = td.clone()
        td2["open_route"] = torch.zeros_like(td["open_route"])
        return orig(self, td2, actions)

    return mutant


def _mtsp_minmax_is_sum(orig):
    def mutant(td):
        td = orig(td)
        return td

    return mutant


C03_CANARIES = {
    "cvrp_no_depot_prefix": _swap(E["CVRPEnv"], "_get_reward", _cvrp_no_depot_prefix),
    "atsp_roll_plus": _swap(E["ATSPEnv"], "_get_reward", _atsp_roll_plus),
    "pctsp_no_penalty": _swap(E["PCTSPEnv"], "_get_reward", _pctsp_no_penalty),
    "mtvrp_open_charged": _swap(E["MTVRPEnv"], "_get_reward", _mtvrp_open_charged),
}


# ---- C05 -----------------------------------------------------------------------------------------
def _cvrp_ge(orig):
    def mutant(td):
        exceeds_cap = td["demand"] + td["used_capacity"] >= td["vehicle_capacity"]
        mask_loc = td["visited"][..., 1:].to(exceeds_cap.dtype) | exceeds_cap
        mask_depot = (td["current_node"] == 0) & ((mask_loc == 0).int().sum(-1) > 0)[:, None]
        return ~torch.cat((mask_depot, mask_loc), -1)

    return mutant


def _pctsp_le(orig):
    def mutant(td):
        mask = td["visited"] | td["visited"][..., 0:1]
        mask[..., 0] = (td["cur_total_prize"] <= 1.0) & (
            td["visited"][..., 1:].int().sum(-1) < td["visited"][..., 1:].size(-1)
        )
        return ~(mask > 0)

    return mutant


def _sdvrp_full_early(orig):
    def mutant(td):
        td2 = td.clone()
        td2["used_capacity"] = td["used_capacity"] + 0.13
        return orig(td2)

    return mutant


def _mtvrp_open_counts_return(orig):
    def mutant(td):
        td2 = td.clone()
        td2["open_route"] = torch.zeros_like(td["open_route"])
        return orig(td2)

    return mutant


def _mtsp_no_second_agent(orig):
    def mutant(td):
        td = orig(td)
        am = td["action_mask"].clone()
        am[..., 0] = am[..., 0] & td["done"].reshape(-1)
        td["action_mask"] = am
        return td

    return mutant


def _ffsp_wait_only_for_upstream(orig):
    """FFSP offers the wait action only while a job still sits in an earlier stage: a machine can no longer idle
    for a job that is being processed on its way to this stage."""

    def mutant(self, td):
        td = orig(self, td)
        loc = td["job_location"][:, : self.num_job]
        done = td["done"].reshape(td.batch_size[0], -1)[:, 0]
        upstream = (loc < td["stage_idx"][:, None]).any(-1)
        m = td["action_mask"].clone()
        m[:, -1] = m[:, -1] * (upstream | done).to(m.dtype)
        td["action_mask"] = m
        return td

    return mutant


def _ffsp_env():
    from rl4co.envs.scheduling.ffsp.env import FFSPEnv

    return FFSPEnv


C05_CANARIES = {
    "ffsp_wait_only_for_upstream": _swap(_ffsp_env(), "_update_step_state", _ffsp_wait_only_for_upstream),
    "cvrp_ge": _swap(E["CVRPEnv"], "get_action_mask", _cvrp_ge, static=True),
    "pctsp_le": _swap(E["PCTSPEnv"], "get_action_mask", _pctsp_le, static=True),
    "sdvrp_full_early": _swap(E["SDVRPEnv"], "get_action_mask", _sdvrp_full_early, static=True),
    "mtvrp_open_counts_return": _swap(E["MTVRPEnv"], "get_action_mask", _mtvrp_open_counts_return, static=True),
    "mtsp_no_second_agent": _swap(E["MTSPEnv"], "_step", _mtsp_no_second_agent, static=True),
}


# ---- C06 (checkers) ------------------------------------------------------------------------------
def _swallow(substr):
    """checker that no longer enforces the assertion whose message contains substr"""

    def make(orig):
        def mutant(*a, **k):
            try:
                return orig(*a, **k)
            except AssertionError as e:
                if substr in str(e):
                    return None
                raise

        return mutant

    return make


def _cvrp_checker_tight(orig):
    """rejects exactly-full vehicles: demand inflated by 1e-4 relative before the capacity sum"""

    def mutant(td, actions):
        td2 = td.clone()
        td2["demand"] = td["demand"] * (1 + 1e-4) + 2e-5
        return orig(td2, actions)

    return mutant


def _tsp_checker_first_node(orig):
    """rejects valid tours that do not start at node 0 (a tour is a cycle: any rotation is valid)"""

    def mutant(td, actions):
        orig(td, actions)
        assert (actions[:, 0] == 0).all(), "tour must start at node 0"

    return mutant


def _tsp_checker_batch_counts(orig):
    """counts visits over the whole batch instead of per tour: mirrored faults of two tours cancel"""

    def mutant(td, actions):
        n = td["locs"].shape[-2]
        assert actions.shape[-1] == n, "Invalid tour"
        visits = torch.bincount(actions.reshape(-1), minlength=n)
        assert (visits == actions.size(0)).all(), "Invalid tour"

    return mutant


C06_CANARIES = {
    "tsp_counts_over_batch": _swap(E["TSPEnv"], "check_solution_validity", _tsp_checker_batch_counts, static=True),
    "cvrp_capacity_unchecked": _swap(E["CVRPEnv"], "check_solution_validity", _swallow("capacity"), static=True),
    "cvrp_rejects_full_vehicle": _swap(E["CVRPEnv"], "check_solution_validity", _cvrp_checker_tight, static=True),
    "tsp_rejects_rotations": _swap(E["TSPEnv"], "check_solution_validity", _tsp_checker_first_node, static=True),
    "pdp_precedence_unchecked": _swap(E["PDPEnv"], "check_solution_validity", _swallow("pick-up")),
    "op_length_unchecked": _swap(E["OPEnv"], "check_solution_validity", _swallow("Max length"), static=True),
    "pctsp_duplicates_unchecked": _swap(E["PCTSPEnv"], "check_solution_validity", _swallow("Duplicates"), static=True),
}
