"""C18 — generators emit well-formed, solvable instances within documented bounds.

One run = one generator parameterisation (swarm: size incl. off-table sizes, location distribution,
capacity / demand overrides, MTVRP preset, scheduling shape, CVRPTW scale, OP prize type ...) and a
handful of seeded batches (B = 1..8) drawn from the REAL generator, either under the clean torch RNG,
or under the extreme-draw seam (`seams_rng.ExtremeDraw`), or under its `ties` sub-mode.  Every batch
is checked against the documented keys / shapes / dtypes / ranges and is then handed to the real
environment: a mask-confined episode (per-row strategy of the adversarial scheduler) must complete.

What only the `ties` sub-mode triggers is an observation (probe `obs:...`), never a violation.
"""
from __future__ import annotations

import contextlib
import math
import random

import torch

from .. import drive as D
from .. import envs as E
from ..kernel import HarnessError, StopRun, Streams, innermost_project_frame
from ..seams_rng import ExtremeDraw

GENS = ["tsp", "atsp", "cvrp", "sdvrp", "cvrptw", "op", "pctsp", "spctsp", "pdp", "mtsp", "svrp",
        "mdcpdp", "mtvrp", "fjsp", "jssp", "ffsp", "smtwtp", "flp", "mcp", "dpp", "mdpp"]
# generators with more post-processing get more runs
WEIGHTS = {"cvrptw": 3, "mtvrp": 3, "cvrp": 2, "mcp": 2, "fjsp": 2, "jssp": 2, "atsp": 2, "op": 2,
           "mdcpdp": 2, "pdp": 2}
STUB = ("dpp", "mdpp")
TABLE_SIZES = (10, 20, 50)
OFF_TABLE = (7, 13, 33)
UNIT_BOX = ("cluster", "mixed", "gaussian_mixture", "mix_distribution", "mix_multi_distributions")
UNBOUNDED = ("normal", "gaussian")
MTVRP_PRESETS = E.MTVRP_VARIANTS + ["all", "single_feat", "single_feat_otw"]
PRESET_FLAGS = {  # preset -> (O, TW, L, B)
    "cvrp": (0, 0, 0, 0), "ovrp": (1, 0, 0, 0), "vrpb": (0, 0, 0, 1), "vrpl": (0, 0, 1, 0),
    "vrptw": (0, 1, 0, 0), "ovrptw": (1, 1, 0, 0), "ovrpb": (1, 0, 0, 1), "ovrpl": (1, 0, 1, 0),
    "vrpbl": (0, 0, 1, 1), "vrpbtw": (0, 1, 0, 1), "vrpltw": (0, 1, 1, 0), "ovrpbl": (1, 0, 1, 1),
    "ovrpbtw": (1, 1, 0, 1), "ovrpltw": (1, 1, 1, 0), "vrpbltw": (0, 1, 1, 1),
    "ovrpbltw": (1, 1, 1, 1),
}


OPTIONAL_GROUPS = [  # constructor arguments a minimised plan may fall back to the default for
    ("loc_distribution", "loc_mean", "loc_std", "n_cluster", "n_cluster_mix", "num_modes", "cdist"),
    ("depot_distribution",), ("min_loc", "max_loc"), ("capacity",), ("max_demand",), ("max_time",),
    ("max_length",), ("penalty_factor",), ("min_skill", "max_skill"), ("min_dist", "max_dist"),
    ("min_lateness_weight", "max_lateness_weight"), ("backhaul_ratio",), ("speed",),
    ("distance_limit",), ("scale_demand",), ("min_processing_time",), ("max_time_span", "max_process_time"),
    ("min_weight", "max_weight"), ("min_eligible_ma_per_op", "max_eligible_ma_per_op"),
]


# ------------------------------------------------------------------------------------------------
# swarm configuration
# ------------------------------------------------------------------------------------------------
def _size(rc, tier, heavy=False):
    r = rc.random()
    if r < 0.5:
        return rc.randint(3, 8)
    if r < 0.75:
        return rc.choice(OFF_TABLE)
    if r < 0.95:
        return rc.choice(TABLE_SIZES[:2] if heavy else TABLE_SIZES)
    if tier == "thorough":
        return rc.choice([75, 100])
    return rc.choice([20, 50])


def _locdist(rc):
    r = rc.random()
    if r < 0.45:
        return {}
    return dict(rc.choice([
        {"loc_distribution": "uniform"},
        {"loc_distribution": "normal", "loc_mean": 0.5, "loc_std": 0.15},
        {"loc_distribution": "gaussian", "loc_mean": 0.5, "loc_std": 0.1},
        {"loc_distribution": "cluster", "n_cluster": rc.randint(1, 3)},
        {"loc_distribution": "mixed", "n_cluster_mix": rc.randint(1, 2)},
        {"loc_distribution": "gaussian_mixture", "num_modes": 0, "cdist": 0},
        {"loc_distribution": "gaussian_mixture", "num_modes": 1, "cdist": 1},
        {"loc_distribution": "gaussian_mixture", "num_modes": rc.choice([2, 3, 5]),
         "cdist": rc.choice([1, 10, 30])},
        {"loc_distribution": "mix_distribution", "n_cluster": 3, "n_cluster_mix": 1},
        {"loc_distribution": "mix_multi_distributions"},
    ]))


def _depotdist(rc):
    r = rc.random()
    if r < 0.7:
        return {}
    return {"depot_distribution": rc.choice(["uniform", "center", "corner"])}


def _box(rc, p=0.15, shifted=False):
    if rc.random() >= p:
        return {}
    boxes = [(0.2, 0.8), (0.0, 2.0), (-1.0, 1.0)]
    if shifted:  # boxes that do not contain the unit square: a separately drawn depot has to honour them too
        boxes += [(2.0, 3.0), (0.0, 0.5), (0.25, 0.5)]
    lo, hi = rc.choice(boxes)
    return {"min_loc": lo, "max_loc": hi}


def gen_cfg(name: str, rc: random.Random, tier: str) -> dict:
    """Scheduled parameterisation of one generator; only documented constructor arguments."""
    cfg = {"env": name, "kw": {}, "gen": {}}
    g = cfg["gen"]
    if name == "tsp":
        g.update(num_loc=max(3, _size(rc, tier)), **_locdist(rc), **_box(rc))
    elif name == "atsp":
        g.update(num_loc=min(33, max(3, _size(rc, tier))), tmat_class=rc.random() < 0.75)
        if rc.random() < 0.25:
            g.update(min_dist=rc.choice([0.0, 0.1]), max_dist=rc.choice([1.0, 2.0, 10.0]))
    elif name in ("cvrp", "sdvrp", "cvrptw"):
        heavy = name == "cvrptw"
        g.update(num_loc=_size(rc, tier, heavy), **_locdist(rc), **_depotdist(rc))
        if rc.random() < 0.2:
            g.update(max_demand=rc.choice([2, 5]))
        if rc.random() < 0.5:
            g.update(capacity=rc.choice([10, 12, 15, 20, 30, 40, 50, 25.0]))
        if name == "cvrptw":
            g.update(scale=rc.random() < 0.5)
            if rc.random() < 0.2:
                g.update(max_time=rc.choice([1000, 600.0]))
        elif "loc_distribution" not in g:
            g.update(_box(rc, 0.5, True) if "depot_distribution" in g else _box(rc))
    elif name == "op":
        pt = rc.choice(["dist", "dist", "unif", "const"])
        g.update(num_loc=_size(rc, tier), prize_type=pt, **_locdist(rc), **_depotdist(rc))
        if rc.random() < 0.6:
            g.update(max_length=rc.choice([1.0, 1.5, 2.0, 3.0, 4.0]))
        cfg["kw"] = {"prize_type": pt}
    elif name in ("pctsp", "spctsp"):
        g.update(num_loc=_size(rc, tier), **_locdist(rc), **_depotdist(rc))
        if rc.random() < 0.3:
            g.update(penalty_factor=rc.choice([1.0, 5.0]))
    elif name == "pdp":
        n = _size(rc, tier)
        if rc.random() < 0.6:
            n |= 1  # odd sizes are documented to be rounded up
        g.update(num_loc=max(3, n), **_locdist(rc), **_depotdist(rc))
        cfg["kw"] = {"force_start_at_depot": rc.random() < 0.5}
    elif name == "mtsp":
        n = max(3, _size(rc, tier))
        hi = rc.randint(1, min(5, n - 1))
        g.update(num_loc=n, min_num_agents=rc.randint(1, hi), max_num_agents=hi, **_locdist(rc))
        if n >= 8 and rc.random() < 0.2:
            del g["min_num_agents"], g["max_num_agents"]  # documented default 5 / 5
        cfg["kw"] = {"cost_type": rc.choice(["minmax", "sum"])}
    elif name == "svrp":
        g.update(num_loc=_size(rc, tier), tech_costs=[1, 2, 3, 4][:rc.randint(2, 4)],
                 **_locdist(rc), **_depotdist(rc))
        if rc.random() < 0.3:
            g.update(min_skill=1.0, max_skill=rc.choice([2.0, 5.0]))
    elif name == "mdcpdp":
        n = _size(rc, tier, heavy=True)
        if rc.random() < 0.3:
            n |= 1
        g.update(num_loc=max(2, n), num_depot=rc.choice([1, 1, 2, 3, 5]),
                 depot_mode=rc.choice(["multiple", "multiple", "single"]), **_locdist(rc))
        lo = rc.choice([1, 1, 2])
        g.update(min_capacity=lo, max_capacity=lo + rc.choice([0, 1, 2, 4]))
        if rc.random() < 0.5:
            g.update(min_lateness_weight=0.25, max_lateness_weight=0.75)
        cfg["kw"] = {"reward_mode": rc.choice(["minmax", "minsum", "lateness"]),
                     "problem_mode": rc.choice(["close", "open"]),
                     "dist_mode": rc.choice(["L1", "L2"]),
                     "start_mode": rc.choice(["order", "order", "order", "random"])}
    elif name == "mtvrp":
        g.update(num_loc=_size(rc, tier, heavy=True), variant_preset=rc.choice(MTVRP_PRESETS))
        r = rc.random()
        if r < 0.06:
            g.update(variant_preset=None, subsample=False)
        if rc.random() < 0.25:
            g.update(capacity=rc.choice([30, 50, 20.0]))
        if rc.random() < 0.2:
            g.update(backhaul_ratio=rc.choice([0.0, 0.5, 1.0]))
        if rc.random() < 0.15:
            g.update(speed=2.0)
        if rc.random() < 0.15:
            g.update(distance_limit=rc.choice([2.9, 4.0]))
        if rc.random() < 0.15:
            g.update(max_time=rc.choice([4.0, 6.0]))
        if rc.random() < 0.1:
            g.update(scale_demand=False)
    elif name == "fjsp":
        big = rc.random() < 0.1
        j, m = (rc.randint(5, 10), rc.randint(3, 5)) if big else (rc.randint(1, 4), rc.randint(1, 3))
        lo = rc.randint(1, 3)
        g.update(num_jobs=j, num_machines=m, min_ops_per_job=lo, max_ops_per_job=lo + rc.randint(0, 2),
                 max_processing_time=rc.choice([5, 20]), same_mean_per_op=rc.random() < 0.5)
        if rc.random() < 0.4:
            hi = rc.randint(1, m)
            g.update(min_eligible_ma_per_op=rc.randint(1, hi), max_eligible_ma_per_op=hi)
        if rc.random() < 0.2:
            g.update(min_processing_time=rc.choice([1, 2, 3]))
        cfg["kw"] = {"mask_no_ops": rc.random() < 0.5}
    elif name == "jssp":
        big = rc.random() < 0.1
        j, m = (rc.randint(5, 8), rc.randint(3, 5)) if big else (rc.randint(1, 4), rc.randint(1, 3))
        one2one = rc.random() < 0.5
        g.update(num_jobs=j, num_machines=m, one2one_ma_map=one2one,
                 max_processing_time=rc.choice([5, 20, 99]))
        if not one2one:
            lo = rc.randint(1, 3)
            g.update(min_ops_per_job=lo, max_ops_per_job=lo + rc.randint(0, 2))
        cfg["kw"] = {"mask_no_ops": rc.random() < 0.5}
    elif name == "ffsp":
        g.update(num_stage=rc.randint(1, 3), num_machine=rc.randint(1, 3),
                 num_job=rc.randint(1, 5) if rc.random() < 0.9 else rc.randint(6, 12),
                 min_time=rc.choice([1, 2]), max_time=rc.choice([3, 4, 10]))
    elif name == "smtwtp":
        g.update(num_job=_size(rc, tier))
        if rc.random() < 0.3:
            g.update(max_time_span=rc.choice([1.0, 4.0]), max_process_time=rc.choice([1, 2.0]))
        if rc.random() < 0.3:  # documented lower bounds other than zero
            g.update(min_time_span=rc.choice([0.5, 1.0]), max_time_span=rc.choice([2.0, 4.0]),
                     min_job_weight=rc.choice([0.25, 1.0]), max_job_weight=2.0,
                     min_process_time=rc.choice([0.25, 0.5]), max_process_time=1.0)
    elif name == "flp":
        n = max(3, _size(rc, tier))
        g.update(num_loc=n, to_choose=rc.randint(1, min(n - 1, 10)), **_locdist(rc))
        if "loc_distribution" not in g:
            g.update(_box(rc))
    elif name == "mcp":
        if rc.random() < 0.08:
            pass  # documented defaults: 200 items, 100 sets, sizes 5..15, choose 10
        else:
            ns = rc.choice([2, 3, 3, 4, 5, 6, 8, 10, 20])
            ni = rc.randint(4, 40)
            lo = rc.randint(1, 3)
            g.update(num_items=ni, num_sets=ns, min_size=lo, max_size=min(ni, lo + rc.randint(0, 3)),
                     n_sets_to_choose=rc.randint(1, max(1, ns - 1)))
            if rc.random() < 0.3:
                g.update(min_weight=1, max_weight=rc.choice([1, 3, 10]))
    elif name in STUB:
        g.update(num_keepout_min=1, num_keepout_max=rc.choice([2, 8, 30]), max_decaps=rc.randint(1, 5))
        if name == "mdpp":
            g.update(num_probes_min=2, num_probes_max=rc.choice([3, 5]))
        cfg["size"] = 8
    else:
        raise HarnessError(f"unknown generator {name}")
    return cfg


# ------------------------------------------------------------------------------------------------
# reporting
# ------------------------------------------------------------------------------------------------
class Ctx:
    """Per-batch reporting context: violations in clean / extreme mode, observations in ties mode."""

    def __init__(self, run, name, cfg, mode, batch):
        self.run, self.name, self.cfg, self.mode, self.batch = run, name, cfg, mode, batch
        self.bad = False

    def fail(self, monitor, constraint, message, **detail):
        run = self.run
        self.bad = True
        if self.mode == "ties":
            # only reachable through manufactured exact coincidences (p ~ 2**-48 per pair): observation
            run.probe(f"obs:ties:{self.name}:{monitor}:{constraint}")
            run.log.add("obs", self.name, monitor, constraint, message[:200])
            return
        key = (self.name, monitor, constraint)
        if key in run.c18_seen:
            return
        run.c18_seen.add(key)
        run.violate(self.name, monitor, f"[{self.mode}] {message}", constraint=constraint,
                    mode=self.mode, batch=self.batch, gen=self.cfg["gen"], kw=self.cfg["kw"], **detail)


def _blame(exc):
    """Like kernel.innermost_project_frame, but frames of the RNG seam's thin wrappers are skipped
    (torch raising inside a wrapped call is the caller's doing)."""
    import os
    import traceback

    from ..kernel import REPO_ROOT, VERIF_ROOT

    if isinstance(exc, (HarnessError,)):
        return "verif", None, None
    for fr in reversed(traceback.extract_tb(exc.__traceback__)):
        fn = os.path.abspath(fr.filename)
        if fn.endswith("rlsim/seams_rng.py") and fr.name in ("rand", "rand_like", "uniform_", "randint",
                                                             "randperm", "normal"):
            continue
        if fn.startswith(REPO_ROOT + "/"):
            return "repo", os.path.relpath(fn, REPO_ROOT), fr.name
        if fn.startswith(VERIF_ROOT + "/"):
            return "verif", os.path.relpath(fn, VERIF_ROOT), fr.name
    return None, None, None


# ------------------------------------------------------------------------------------------------
# well-formedness oracles (documented keys, shapes, dtypes, ranges)
# ------------------------------------------------------------------------------------------------
F32, I64, I32, BOOL = "float32", "int64", "int32", "bool"


def _even(n):
    return n + (n % 2)


def _spec(name, cfg, gen, B):
    """key -> (allowed shapes, allowed dtypes).  Shapes as consumed by the environment (Appendix A);
    where docstrings of generator and environment disagree on a trailing singleton both are accepted."""
    g = cfg["gen"]
    if name == "tsp":
        n = g["num_loc"]
        return {"locs": ([(B, n, 2)], [F32])}
    if name == "atsp":
        n = g["num_loc"]
        return {"cost_matrix": ([(B, n, n)], [F32])}
    if name in ("cvrp", "sdvrp", "cvrptw"):
        n = g["num_loc"]
        s = {"locs": ([(B, n, 2)], [F32]), "depot": ([(B, 2)], [F32]), "demand": ([(B, n)], [F32]),
             "capacity": ([(B,), (B, 1)], [F32, I64])}
        if name == "cvrptw":
            s["durations"] = ([(B, n + 1)], [F32])
            s["time_windows"] = ([(B, n + 1, 2)], [F32, I32, I64])
        return s
    if name == "op":
        n = g["num_loc"]
        return {"locs": ([(B, n, 2)], [F32]), "depot": ([(B, 2)], [F32]), "prize": ([(B, n)], [F32]),
                "max_length": ([(B,), (B, 1)], [F32])}
    if name in ("pctsp", "spctsp"):
        n = g["num_loc"]
        return {"locs": ([(B, n, 2)], [F32]), "depot": ([(B, 2)], [F32]), "penalty": ([(B, n)], [F32]),
                "deterministic_prize": ([(B, n)], [F32]), "stochastic_prize": ([(B, n)], [F32])}
    if name == "pdp":
        n = _even(g["num_loc"])
        return {"locs": ([(B, n, 2)], [F32]), "depot": ([(B, 2)], [F32])}
    if name == "mtsp":
        n = g["num_loc"]
        return {"locs": ([(B, n, 2)], [F32]), "num_agents": ([(B,)], [I64])}
    if name == "svrp":
        n, T = g["num_loc"], len(g["tech_costs"])
        return {"locs": ([(B, n, 2)], [F32]), "depot": ([(B, 2)], [F32]),
                "techs": ([(B, T, 1), (B, T)], [F32]), "skills": ([(B, n, 1), (B, n)], [F32])}
    if name == "mdcpdp":
        n, Dp = _even(g["num_loc"]), g["num_depot"]
        return {"locs": ([(B, n, 2)], [F32]), "depot": ([(B, Dp, 2)], [F32]),
                "capacity": ([(B, 1)], [I64]), "lateness_weight": ([(B, 1)], [F32])}
    if name == "mtvrp":
        n = g["num_loc"]
        return {"locs": ([(B, n + 1, 2)], [F32]), "demand_backhaul": ([(B, n + 1)], [F32]),
                "demand_linehaul": ([(B, n + 1)], [F32]), "distance_limit": ([(B, 1)], [F32]),
                "time_windows": ([(B, n + 1, 2)], [F32]), "service_time": ([(B, n + 1)], [F32]),
                "vehicle_capacity": ([(B, 1)], [F32]), "capacity_original": ([(B, 1)], [F32]),
                "open_route": ([(B, 1)], [BOOL]), "speed": ([(B, 1)], [F32])}
    if name in ("fjsp", "jssp"):
        J, M = g["num_jobs"], g["num_machines"]
        O = gen.max_ops_per_job * J
        return {"start_op_per_job": ([(B, J)], [I64]), "end_op_per_job": ([(B, J)], [I64]),
                "proc_times": ([(B, M, O)], [F32]), "pad_mask": ([(B, O)], [BOOL])}
    if name == "ffsp":
        return {"run_time": ([(B, g["num_job"], g["num_machine"] * g["num_stage"])], [I64])}
    if name == "smtwtp":
        n = g["num_job"]
        return {k: ([(B, n + 1)], [F32]) for k in ("job_due_time", "job_weight", "job_process_time")}
    if name == "flp":
        n = g["num_loc"]
        return {"locs": ([(B, n, 2)], [F32]), "orig_distances": ([(B, n, n)], [F32]),
                "distances": ([(B, n)], [F32]), "chosen": ([(B, n)], [BOOL]),
                "to_choose": ([(B,), (B, 1)], [I64])}
    if name == "mcp":
        return {"membership": ([(B, gen.num_sets, gen.max_size)], [F32]),
                "weights": ([(B, gen.num_items)], [F32]), "n_sets_to_choose": ([(B, 1)], [F32, I64])}
    if name == "dpp":
        c = gen.size ** 2
        return {"locs": ([(B, c, 2)], [F32]), "probe": ([(B, 1)], [I64]), "action_mask": ([(B, c)], [BOOL])}
    if name == "mdpp":
        c = gen.size ** 2
        return {"locs": ([(B, c, 2)], [F32]), "probe": ([(B, c)], [BOOL]), "action_mask": ([(B, c)], [BOOL])}
    raise HarnessError(name)


def _dt(t):
    return str(t.dtype).replace("torch.", "")


def check_structure(ctx, gen, td, B):
    spec = _spec(ctx.name, ctx.cfg, gen, B)
    ok = True
    if tuple(td.batch_size) != (B,):
        ctx.fail("shape", "batch_size", f"batch_size {tuple(td.batch_size)} for requested {B}")
        ok = False
    keys = set(td.keys())
    for k in sorted(spec):
        if k not in keys:
            ctx.fail("keys", f"missing:{k}", f"documented key {k!r} missing; keys {sorted(keys)}")
            ok = False
            continue
        shapes, dts = spec[k]
        if tuple(td[k].shape) not in shapes:
            ctx.fail("shape", k, f"{k} has shape {tuple(td[k].shape)}, documented {shapes}",
                     got=list(td[k].shape), want=[list(s) for s in shapes])
            ok = False
        if _dt(td[k]) not in dts:
            ctx.fail("dtype", k, f"{k} has dtype {_dt(td[k])}, expected one of {dts}")
            ok = False
    for k in sorted(keys - set(spec)):
        ctx.run.probe(f"obs:extra_key:{ctx.name}:{k}")
    return ok


def _loc_bounds(cfg, default=(0.0, 1.0)):
    g = cfg["gen"]
    dist = g.get("loc_distribution")
    if dist in UNBOUNDED:
        return None
    if dist in UNIT_BOX:
        return (0.0, 1.0)
    return (g.get("min_loc", default[0]), g.get("max_loc", default[1]))


def _check_coords(ctx, td, keys, bounds, tol=1e-6):
    for k in keys:
        x = td[k].double()
        if bool(torch.isnan(x).any()):
            ctx.fail("range", f"nan:{k}", f"{k} contains NaN")
            continue
        if bounds is None:
            if float(x.min()) < 0.0 or float(x.max()) > 1.0:
                ctx.run.probe("obs:normal_coords_outside_unit_box")
            continue
        lo, hi = bounds
        t = tol * max(1.0, abs(hi), abs(lo))
        if float(x.min()) < lo - t or float(x.max()) > hi + t:
            ctx.fail("range", f"coords:{k}", f"{k} in [{float(x.min())!r}, {float(x.max())!r}] outside "
                     f"documented bounds [{lo}, {hi}]", lo=float(x.min()), hi=float(x.max()))


def _check_depot_coords(ctx, td, default=(0.0, 1.0)):
    g = ctx.cfg["gen"]
    dd = g.get("depot_distribution")
    if dd is None:
        b = _loc_bounds(ctx.cfg, default)  # the depot is the first sampled location
    else:
        b = (g.get("min_loc", default[0]), g.get("max_loc", default[1]))
    _check_coords(ctx, td, ["depot"], b)


def _no_nan(ctx, td):
    for k in sorted(td.keys()):
        v = td[k]
        if v.is_floating_point() and bool(torch.isnan(v).any()):
            ctx.fail("range", f"nan:{k}", f"{k} contains NaN")


def _int_fraction(ctx, x, scale, what, kmin, kmax):
    """x * scale must be an integer k with kmin <= k <= kmax."""
    k = x.double() * float(scale)
    kr = k.round()
    if bool(((k - kr).abs() > 1e-3).any()):
        ctx.fail("range", f"{what}:non_integer", f"{what} x capacity is not an integer: "
                 f"{k.flatten()[((k - kr).abs() > 1e-3).flatten()][:4].tolist()}")
        return
    if float(kr.min()) < kmin or float(kr.max()) > kmax:
        ctx.fail("range", f"{what}:out_of_range", f"{what} x capacity in [{float(kr.min())}, "
                 f"{float(kr.max())}], documented [{kmin}, {kmax}]", kmin=float(kr.min()),
                 kmax=float(kr.max()))


def _dist(a, b):
    return (a.double() - b.double()).norm(dim=-1)


def _f32(x) -> float:
    """A configured Python number as the float32 value a float32 tensor holds."""
    return float(torch.tensor(float(x), dtype=torch.float32))


def check_ranges(ctx, gen, td, B):
    name, cfg, g, run = ctx.name, ctx.cfg, ctx.cfg["gen"], ctx.run
    if name != "mtvrp":
        _no_nan(ctx, td)
    if name in ("tsp", "mtsp", "flp"):
        _check_coords(ctx, td, ["locs"], _loc_bounds(cfg))
    if name == "mtsp":
        na = td["num_agents"]
        lo, hi = gen.min_num_agents, gen.max_num_agents
        if int(na.min()) < lo or int(na.max()) > hi:
            ctx.fail("range", "num_agents", f"num_agents {na.tolist()} outside [{lo}, {hi}]")
    if name == "atsp":
        c = td["cost_matrix"].double()
        n = c.shape[-1]
        lo, hi = gen.min_dist, gen.max_dist
        diag = c.diagonal(dim1=-2, dim2=-1)
        if bool((diag != 0).any()):
            ctx.fail("range", "atsp_diagonal", "cost matrix diagonal is not zero")
        off = c[:, ~torch.eye(n, dtype=torch.bool)]
        t = 1e-6 * max(1.0, hi)
        # after the triangle closure entries may only shrink, never below 0 / above max_dist
        low_ok = 0.0 if gen.tmat_class else lo
        if float(off.min()) < low_ok - t or float(off.max()) > hi + t:
            ctx.fail("range", "atsp_dist", f"distances in [{float(off.min())}, {float(off.max())}] outside "
                     f"[{low_ok}, {hi}]")
        if gen.tmat_class:
            via = (c.unsqueeze(-1) + c.unsqueeze(-3)).min(dim=-2).values  # min_j c[i][j] + c[j][k]
            gap = (c - via).max()
            if float(gap) > 1e-6 * max(1.0, hi):
                ctx.fail("range", "triangle", f"tmat_class=True but c[i][k] exceeds c[i][j]+c[j][k] by "
                         f"{float(gap)!r}", gap=float(gap))
    if name in ("cvrp", "sdvrp", "cvrptw"):
        box = (0.0, 150.0) if name == "cvrptw" else (0.0, 1.0)
        scale = float(gen.max_time) if (name == "cvrptw" and gen.scale) else 1.0
        b = _loc_bounds(cfg, box)
        bs = None if b is None else (b[0] / scale, b[1] / scale)
        _check_coords(ctx, td, ["locs"], bs)
        dd = g.get("depot_distribution")
        bd = b if dd is None else (g.get("min_loc", box[0]), g.get("max_loc", box[1]))
        _check_coords(ctx, td, ["depot"], None if bd is None else (bd[0] / scale, bd[1] / scale))
        cap = td["capacity"].double().reshape(B, -1)[:, :1]
        if bool((cap != _f32(gen.capacity)).any()):
            ctx.fail("range", "capacity", f"capacity {cap.flatten().tolist()} != configured {gen.capacity}")
        _int_fraction(ctx, td["demand"], gen.capacity, "demand", 1, gen.max_demand)
        if float(td["demand"].max()) > float(gen.vehicle_capacity) + 1e-6:
            ctx.fail("range", "demand_above_capacity", f"demand {float(td['demand'].max())!r} exceeds the "
                     f"vehicle capacity {gen.vehicle_capacity}", demand=float(td["demand"].max()))
        if name == "cvrptw":
            _check_cvrptw_windows(ctx, gen, td, B)
    if name == "op":
        _check_coords(ctx, td, ["locs"], _loc_bounds(cfg))
        _check_depot_coords(ctx, td)
        p = td["prize"].double()
        if float(p.min()) <= 0.0 or float(p.max()) > 1.0 + 1e-6:
            ctx.fail("range", "prize", f"prize in [{float(p.min())}, {float(p.max())}] outside (0, 1]")
        else:
            _int_fraction(ctx, td["prize"], 100, "prize", 1, 100)
        if gen.prize_type == "const" and bool((p != 1.0).any()):
            ctx.fail("range", "prize_const", "prize_type const but prizes differ from 1")
        ml = td["max_length"].double().flatten()
        if bool((ml != _f32(gen.max_length)).any()):
            ctx.fail("range", "max_length", f"max_length {ml.tolist()} != {gen.max_length}")
    if name in ("pctsp", "spctsp"):
        _check_coords(ctx, td, ["locs"], _loc_bounds(cfg))
        _check_depot_coords(ctx, td)
        n = g["num_loc"]
        # documented scale of the penalties (Kool et al.): U(0, L * penalty_factor / n) with L the tour-length
        # estimate of the nearest table size (20: 2, 50: 3, 100: 4) -- recomputed here, not read off the generator
        table = {20: 2.0, 50: 3.0, 100: 4.0}
        pen_hi = table[min(table, key=lambda x: abs(x - n))] * float(g.get("penalty_factor", 3.0)) / n
        if abs(float(gen.max_penalty) - pen_hi) > 1e-6 * pen_hi:
            ctx.fail("range", "penalty_scale", f"penalties are drawn from U(0, {float(gen.max_penalty)}), documented "
                     f"L*penalty_factor/n = {pen_hi} for n={n}")
        for k, hi in (("penalty", pen_hi), ("deterministic_prize", 4.0 / n)):
            x = td[k].double()
            if float(x.min()) < 0.0 or float(x.max()) > hi * (1 + 1e-6):
                ctx.fail("range", k, f"{k} in [{float(x.min())}, {float(x.max())}] outside [0, {hi}]")
        sp, dp = td["stochastic_prize"].double(), td["deterministic_prize"].double()
        if bool((sp < 0).any()) or bool((sp > 2 * dp * (1 + 1e-6) + 1e-12).any()):
            ctx.fail("range", "stochastic_prize", "stochastic prize outside [0, 2 x expected prize]")
    if name == "pdp":
        _check_coords(ctx, td, ["locs"], _loc_bounds(cfg))
        _check_depot_coords(ctx, td)
        if td["locs"].shape[-2] % 2 != 0:
            ctx.fail("range", "pdp_pairing", f"{td['locs'].shape[-2]} customer nodes cannot be split into "
                     f"pickup / delivery pairs (documented: num_loc/2 pickups then num_loc/2 deliveries)")
    if name == "svrp":
        _check_coords(ctx, td, ["locs"], _loc_bounds(cfg))
        _check_depot_coords(ctx, td)
        te = td["techs"].double().reshape(B, -1)
        sk = td["skills"].double().reshape(B, -1)
        if float(te.min()) < gen.min_skill - 1e-6 or float(te.max()) > gen.max_skill + 1e-6:
            ctx.fail("range", "techs", f"technician skills [{float(te.min())}, {float(te.max())}] outside "
                     f"[{gen.min_skill}, {gen.max_skill}]")
        if te.shape[1] > 1 and bool((te[:, 1:] < te[:, :-1]).any()):
            ctx.fail("range", "techs_sorted", "technicians are not sorted ascendingly")
        if bool((sk < 0).any()) or bool((sk > te.max(dim=1, keepdim=True).values).any()):
            ctx.fail("range", "skills", "a required skill is negative or above the best technician")
    if name == "mdcpdp":
        _check_coords(ctx, td, ["locs"], _loc_bounds(cfg))
        _check_coords(ctx, td, ["depot"], (g.get("min_loc", 0.0), g.get("max_loc", 1.0)))
        c = td["capacity"]
        if int(c.min()) < gen.min_capacity or int(c.max()) > gen.max_capacity:
            ctx.fail("range", "capacity", f"capacity {c.flatten().tolist()} outside "
                     f"[{gen.min_capacity}, {gen.max_capacity}]")
        w = td["lateness_weight"].double()
        if float(w.min()) < gen.min_lateness_weight - 1e-6 or float(w.max()) > gen.max_lateness_weight + 1e-6:
            ctx.fail("range", "lateness_weight", f"lateness weight {w.flatten().tolist()} outside bounds")
        if td["locs"].shape[-2] % 2 != 0:
            ctx.fail("range", "pdp_pairing", f"{td['locs'].shape[-2]} customer nodes cannot be paired")
        if gen.depot_mode == "single" and bool((td["depot"] != td["depot"][:, :1]).any()):
            ctx.fail("range", "depot_single", "depot_mode single but depots differ")
    if name == "mtvrp":
        _check_mtvrp(ctx, gen, td, B)
    if name in ("fjsp", "jssp"):
        _check_jobshop(ctx, gen, td, B)
    if name == "ffsp":
        r = td["run_time"]
        if int(r.min()) < gen.min_time or int(r.max()) > gen.max_time:
            ctx.fail("range", "run_time", f"run_time in [{int(r.min())}, {int(r.max())}] outside "
                     f"[{gen.min_time}, {gen.max_time}]")
    if name == "smtwtp":
        for k, lo, hi in (("job_due_time", gen.min_time_span, gen.max_time_span),
                          ("job_weight", gen.min_job_weight, gen.max_job_weight),
                          ("job_process_time", gen.min_process_time, gen.max_process_time)):
            x = td[k].double()
            if bool((x[:, 0] != 0).any()):
                ctx.fail("range", f"dummy_node:{k}", f"{k} of dummy node 0 is not zero")
            y = x[:, 1:]
            if float(y.min()) < lo - 1e-6 or float(y.max()) > hi + 1e-6 * max(1.0, hi):
                ctx.fail("range", k, f"{k} in [{float(y.min())}, {float(y.max())}] outside [{lo}, {hi}]")
    if name == "flp":
        n = g["num_loc"]
        tc = td["to_choose"].flatten()
        if bool((tc != gen.to_choose).any()):
            ctx.fail("range", "to_choose", f"to_choose {tc.tolist()} != {gen.to_choose}")
        if bool(td["chosen"].any()):
            ctx.fail("range", "chosen", "a location is already chosen in a fresh instance")
        ref = _dist(td["locs"].unsqueeze(-2), td["locs"].unsqueeze(-3))
        od = td["orig_distances"].double()
        if float((od - ref).abs().max()) > 1e-5 * max(1.0, float(ref.max())):
            ctx.fail("range", "orig_distances", "orig_distances is not the pairwise Euclidean distance "
                     f"(max deviation {float((od - ref).abs().max())!r})")
        b = _loc_bounds(cfg)
        if b is not None:
            md = math.sqrt(2) * (b[1] - b[0]) if g.get("loc_distribution") not in UNIT_BOX else None
            dmin = float(td["distances"].min())
            if md is not None and abs(dmin - md) > 1e-5 * max(1.0, md):
                ctx.fail("range", "distances_init", f"initial distances {dmin} != sqrt(2)*(max-min) {md}")
            if float(od.max()) > float(td["distances"].double().max()) * (1 + 1e-6) + 1e-9:
                ctx.fail("range", "distances_init_small", "initial distance bound below an actual distance")
    if name == "mcp":
        _check_mcp(ctx, gen, td, B)
    if name in STUB:
        am, c = td["action_mask"], gen.size ** 2
        if name == "dpp":
            pr = td["probe"].flatten()
            if int(pr.min()) < 0 or int(pr.max()) >= c:
                ctx.fail("range", "probe", "probe outside the grid")
            elif bool(am.gather(1, td["probe"]).any()):
                ctx.fail("range", "probe_available", "the probe cell is offered as a decap location")
        else:
            if bool((am & td["probe"]).any()):
                ctx.fail("range", "probe_available", "a probe cell is offered as a decap location")
            npb = td["probe"].sum(-1)
            if int(npb.min()) < gen.num_probes_min or int(npb.max()) > gen.num_probes_max:
                ctx.fail("range", "num_probes", f"number of probes {npb.tolist()} outside bounds")
        blocked = c - am.sum(-1)
        if int(blocked.max()) > gen.num_keepout_max + (1 if name == "dpp" else gen.num_probes_max):
            ctx.fail("range", "num_keepout", f"{blocked.tolist()} blocked cells exceed keep-out + probes")


def _check_cvrptw_windows(ctx, gen, td, B):
    run = ctx.run
    s = float(gen.max_time) if gen.scale else 1.0
    tw = td["time_windows"].double()
    dur = td["durations"].double()
    op, cl = tw[..., 0], tw[..., 1]
    d0 = torch.cat([torch.zeros(B, 1, dtype=torch.float64), _dist(td["depot"].unsqueeze(1), td["locs"])], 1)
    T = float(gen.max_time) / s
    tol = 1e-4 * T
    if bool((op >= cl).any()):
        j = torch.nonzero(op >= cl)[0].tolist()
        ctx.fail("range", "tw_ordered", f"time window not ordered at {j}: open {float(op[tuple(j)])} >= "
                 f"close {float(cl[tuple(j)])}")
    if bool((op[:, 0] != 0).any()) or bool(((cl[:, 0] - T).abs() > tol).any()):
        ctx.fail("range", "tw_depot", f"depot window {tw[:, 0].tolist()} is not [0, max_time]")
    if bool((dur < 0).any()) or bool((dur[:, 0] != 0).any()):
        ctx.fail("range", "durations", "negative service duration or non-zero duration at the depot")
    late = d0 - cl
    if float(late[:, 1:].max()) > tol:
        j = int(late[:, 1:].argmax())
        ctx.fail("range", "tw_reachable", "a customer cannot be reached from the depot before its window "
                 f"closes: d(0,j) - close = {float(late[:, 1:].max())!r}", excess=float(late[:, 1:].max()))
    back = cl + dur + d0 - T
    if float(back[:, 1:].max()) > tol:
        ctx.fail("range", "tw_return", "close_j + duration_j + d(j,0) exceeds the depot closing time by "
                 f"{float(back[:, 1:].max())!r}", excess=float(back[:, 1:].max()))
    if bool((op < 0).any()):
        ctx.fail("range", "tw_negative", "negative window start")
    if not gen.scale:
        if bool((tw != tw.round()).any()):
            ctx.fail("range", "tw_integer", "unscaled time windows are documented to be integers")
        if bool(((cl - d0)[:, 1:] < 1.0).any()):
            run.probe("cvrptw_tight_window")
    if bool(((cl - op)[:, 1:] * s <= 1.0 + 1e-9).any()):
        run.probe("cvrptw_unit_window")


def _check_mtvrp(ctx, gen, td, B):
    run, g = ctx.run, ctx.cfg["gen"]
    for k in ("locs", "demand_linehaul", "demand_backhaul", "service_time", "vehicle_capacity", "speed"):
        if bool(torch.isnan(td[k]).any()):
            ctx.fail("range", f"nan:{k}", f"{k} contains NaN")
    _check_coords(ctx, td, ["locs"], (gen.min_loc, gen.max_loc))
    lh, bh = td["demand_linehaul"].double(), td["demand_backhaul"].double()
    vc = td["vehicle_capacity"].double()
    co = td["capacity_original"].double()
    if bool((co != _f32(gen.capacity)).any()):
        ctx.fail("range", "capacity", f"capacity_original {co.flatten().tolist()} != {gen.capacity}")
    want_vc = 1.0 if gen.scale_demand else _f32(gen.capacity)
    if bool((vc != want_vc).any()):
        ctx.fail("range", "vehicle_capacity", f"vehicle_capacity {vc.flatten().tolist()} != {want_vc}")
    if bool((lh[:, 0] != 0).any()) or bool((bh[:, 0] != 0).any()):
        ctx.fail("range", "depot_demand", "depot has a demand")
    scale = float(gen.capacity) if gen.scale_demand else 1.0
    both = (lh[:, 1:] > 0) & (bh[:, 1:] > 0)
    none = (lh[:, 1:] <= 0) & (bh[:, 1:] <= 0)
    if bool(both.any()) or bool(none.any()):
        ctx.fail("range", "linehaul_xor_backhaul", "a customer is both / neither linehaul and backhaul")
    else:
        dem = lh[:, 1:] + bh[:, 1:]
        _int_fraction(ctx, dem, scale, "demand", 1, max(gen.max_demand, gen.max_backhaul))
        if bool((dem > vc + 1e-6).any()):
            ctx.fail("range", "demand_above_capacity", f"demand {float(dem.max())!r} exceeds the vehicle "
                     f"capacity {want_vc}", demand=float(dem.max()))
    sp = td["speed"].double()
    if bool((sp != _f32(gen.speed)).any()):
        ctx.fail("range", "speed", f"speed {sp.flatten().tolist()} != {gen.speed}")
    d0 = _dist(td["locs"][:, :1], td["locs"])  # [B, n+1]
    tw = td["time_windows"]
    twd = tw.double()
    op, cl = twd[..., 0], twd[..., 1]
    st = td["service_time"].double()
    has_tw = torch.isfinite(cl[:, 1:]).all(dim=1)
    some_tw = torch.isfinite(cl[:, 1:]).any(dim=1)
    nan_tw = torch.isnan(twd).flatten(1).any(dim=1)
    if bool(nan_tw.any()):
        ctx.fail("range", "nan:time_windows", "time_windows contains NaN", rows=nan_tw.tolist())
    T = float(gen.max_time)
    tol = 1e-5 * T
    for b in range(B):
        if bool(nan_tw[b]):
            continue
        if bool(some_tw[b]) != bool(has_tw[b]):
            ctx.fail("range", "tw_partial", "a row mixes finite and infinite windows")
            continue
        if bool(has_tw[b]):
            o, c, s, d = op[b, 1:], cl[b, 1:], st[b, 1:], d0[b, 1:] / sp[b]
            if bool((o >= c).any()):
                ctx.fail("range", "tw_ordered", "time window not ordered (open >= close)")
            if float((d - c).max()) > tol:
                ctx.fail("range", "tw_reachable", "d(0,j)/speed exceeds the window end by "
                         f"{float((d - c).max())!r}")
            if float((c + s + d - T).max()) > tol:
                ctx.fail("range", "tw_return", "close_j + service_j + d(j,0)/speed exceeds max_time by "
                         f"{float((c + s + d - T).max())!r}", excess=float((c + s + d - T).max()))
            if bool((s < 0.15 - 1e-6).any()) or bool((s > 0.18 + 1e-6).any()):
                ctx.fail("range", "service_time", "service time outside the documented [0.15, 0.18]")
            if float(op[b, 0]) != 0.0 or abs(float(cl[b, 0]) - T) > tol:
                ctx.fail("range", "tw_depot", "depot window is not [0, max_time]")
        else:
            if bool((op[b] != 0).any()) or bool(torch.isfinite(cl[b]).any()) or bool((st[b] != 0).any()):
                ctx.fail("range", "tw_default", "row without time windows is not (0, inf) with zero service")
    dl = td["distance_limit"].double().flatten()
    fin = torch.isfinite(dl)
    if bool(fin.any()):
        if bool((dl[fin] != _f32(gen.distance_limit)).any()):
            ctx.fail("range", "distance_limit", f"distance limit {dl.tolist()} != {gen.distance_limit}")
        if bool((2 * d0[fin].max(dim=1).values >= dl[fin]).any()):
            ctx.fail("range", "distance_limit_reach", "2 d(0,j) >= distance_limit for some customer")
    # ---- variant flags vs. requested preset -----------------------------------------------------------
    O = td["open_route"].flatten().bool()
    TW = has_tw
    L = fin
    Bk = (bh[:, 1:] > 0).any(dim=1)
    preset = g.get("variant_preset")
    for b in range(B):
        if bool(nan_tw[b]):
            continue
        flags = (int(O[b]), int(TW[b]), int(L[b]), int(Bk[b]))
        run.state("mtvrp", flags)
        if preset is None:  # subsample=False: every attribute present
            want = (1, 1, 1, None)
        elif preset in PRESET_FLAGS:
            want = PRESET_FLAGS[preset]
            want = (want[0], want[1], want[2], None if want[3] else 0)  # backhaul nodes are drawn (may be none)
        elif preset == "single_feat":
            want = None
            if sum(flags) > 1:
                ctx.fail("variant", "single_feat", f"preset single_feat produced features O,TW,L,B={flags}")
        elif preset == "single_feat_otw":
            want = None
            if sum(flags) > 1 and flags != (1, 1, 0, 0):
                ctx.fail("variant", "single_feat_otw", f"preset single_feat_otw produced O,TW,L,B={flags}")
        else:
            want = None  # "all": any combination
        if want is not None:
            for nm, f, w in zip("O TW L B".split(), flags, want):
                if w is not None and f != w:
                    ctx.fail("variant", f"preset_flag:{nm}", f"preset {preset!r} but instance has "
                             f"O,TW,L,B={flags}", preset=preset, flags=list(flags))


def _check_jobshop(ctx, gen, td, B):
    name = ctx.name
    st, en, pad = td["start_op_per_job"], td["end_op_per_job"], td["pad_mask"]
    pt = td["proc_times"].double()
    O = pad.shape[1]
    nops = en - st + 1
    if int(nops.min()) < gen.min_ops_per_job or int(nops.max()) > gen.max_ops_per_job:
        ctx.fail("range", "ops_per_job", f"operations per job {nops.tolist()} outside "
                 f"[{gen.min_ops_per_job}, {gen.max_ops_per_job}]")
    if bool((st[:, 0] != 0).any()) or bool((st[:, 1:] != en[:, :-1] + 1).any()):
        ctx.fail("range", "op_indices", "start/end operation indices are not consecutive from 0")
    total = nops.sum(1)
    want_pad = torch.arange(O).unsqueeze(0) >= total.unsqueeze(1)
    if bool((want_pad != pad).any()):
        ctx.fail("range", "pad_mask", "pad_mask does not mark exactly the operations beyond the last job")
    elig = (pt > 0).sum(1)  # [B, O]
    real = ~pad
    if bool((elig[real] < 1).any()):
        ctx.fail("range", "op_without_machine", "a real operation is eligible on no machine",
                 n=int((elig[real] < 1).sum()))
    if name == "fjsp":
        if bool((elig[pad] != 0).any()):
            ctx.fail("range", "padded_op_eligible", "a padded operation is eligible on a machine")
        lo, hi = gen.min_eligible_ma_per_op, gen.max_eligible_ma_per_op
        if bool(real.any()) and (int(elig[real].min()) < lo or int(elig[real].max()) > hi):
            ctx.fail("range", "eligible_count", f"eligible machines per operation outside [{lo}, {hi}]")
    else:
        if bool((elig[real] != 1).any()):
            ctx.fail("range", "jssp_one_machine", "a JSSP operation is eligible on more than one machine")
        if bool(pad.any()) and bool((elig[pad] != 0).any()):
            ctx.run.probe("obs:jssp_padded_op_has_machine")
        if gen.one2one_ma_map:
            M = pt.shape[1]
            ma = pt.argmax(1).reshape(B, gen.num_jobs, M)
            if bool((ma.sort(-1).values != torch.arange(M)).any()):
                ctx.fail("range", "one2one", "one2one_ma_map but a job does not use every machine once")
    pos = pt[pt > 0]
    if pos.numel() and (float(pos.min()) < gen.min_processing_time or float(pos.max()) > gen.max_processing_time):
        ctx.fail("range", "proc_time", f"processing times in [{float(pos.min())}, {float(pos.max())}] outside "
                 f"[{gen.min_processing_time}, {gen.max_processing_time}]")
    if bool((pt < 0).any()):
        ctx.fail("range", "proc_time_negative", "negative processing time")


def _check_mcp(ctx, gen, td, B):
    m = td["membership"].double()
    if bool((m != m.round()).any()) or float(m.min()) < 0 or float(m.max()) > gen.num_items:
        ctx.fail("range", "membership_items", f"membership entries outside 0..{gen.num_items}")
        return
    mi = m.long()
    sizes = (mi > 0).sum(-1)
    srt = mi.sort(-1).values
    dup = ((srt[..., 1:] == srt[..., :-1]) & (srt[..., 1:] > 0)).any()
    if bool(dup):
        ctx.fail("range", "membership_duplicate", "an item appears twice in one set")
    if int(sizes.max()) > gen.max_size:
        ctx.fail("range", "set_size_above_max", f"a set has {int(sizes.max())} items, max_size {gen.max_size}")
    if int(sizes.min()) < gen.min_size:
        ctx.fail("range", "set_size_below_min", f"a set has {int(sizes.min())} distinct items, documented "
                 f"min_size {gen.min_size} (repeated draws are removed without replacement)",
                 size=int(sizes.min()), min_size=gen.min_size)
    w = td["weights"].double()
    if bool((w != w.round()).any()) or float(w.min()) < gen.min_weight or float(w.max()) > gen.max_weight:
        ctx.fail("range", "weights", f"weights outside integer range [{gen.min_weight}, {gen.max_weight}]")
    k = td["n_sets_to_choose"].double().flatten()
    if bool((k != gen.n_sets_to_choose).any()):
        ctx.fail("range", "n_sets_to_choose", f"n_sets_to_choose {k.tolist()} != {gen.n_sets_to_choose}")


# ------------------------------------------------------------------------------------------------
# solvability: a mask-confined episode from the generated batch completes
# ------------------------------------------------------------------------------------------------
def episode(ctx, env, td0, strategies, B, seam=None):
    """td0 given: reset from the generated batch.  td0 None: `env.reset(batch_size=[B])` draws the batch
    itself (the second observation point the property names), under `seam`."""
    run, name, cfg = ctx.run, ctx.name, ctx.cfg

    def lib(fn, what, **detail):
        try:
            return fn()
        except (HarnessError, StopRun):
            raise
        except Exception as e:  # noqa: BLE001
            where, f, func = _blame(e)
            if where != "repo":
                raise
            if f.endswith("generator.py") or f.endswith("distribution_utils.py") or f.endswith("common/utils.py"):
                run.probe(f"generator_raised:{name}")
                ctx.fail(f"exception:{type(e).__name__}@{f}:{func}", "generate",
                         f"generator raised inside {what} for a documented parameterisation: "
                         f"{type(e).__name__}: {str(e)[:200]}", exc_type=type(e).__name__, exc_file=f,
                         exc_func=func, **detail)
                return None
            ctx.fail("unsolvable", f"exception:{type(e).__name__}@{func}",
                     f"{what} on a generated instance raised {type(e).__name__}: {str(e)[:200]}",
                     exc_file=f, **detail)
            return None

    if td0 is not None:
        td = lib(lambda: env.reset(td0.clone()), "env.reset", B=B)
    else:
        def _reset_draw():
            with seam:
                return env.reset(batch_size=[B])

        td = lib(_reset_draw, "env.reset(batch_size)", B=B)
        run.probe("via_reset")
    if td is None:
        return False
    cap = D.step_bound_generic(cfg, td)
    if name == "ffsp":
        # every time unit costs up to one (wait) step per machine: the generic cap is not generous here
        g = env.generator
        cap = max(cap, g.num_job * g.num_stage * (1 + g.max_time * g.num_machine_total) + 60)
    mdc = None
    if name == "mdcpdp":
        Dp = env.generator.num_depot
        h = env.generator.num_loc // 2
        mdc = {"D": Dp, "h": h, "visited": [set() for _ in range(B)], "capw": int(td["capacity"].shape[-1])}
    t = 0
    while True:
        done = E.done_vec(td)
        if bool(done.all()):
            break
        if t >= cap:
            ctx.fail("unsolvable", "step_cap", f"episode not finished after {t} steps "
                     f"(cap {cap}); done={done.tolist()}", B=B, tick=t)
            return False
        acts = []
        mask = td["action_mask"]
        for i in range(B):
            opts = D.admitted(mask[i])
            if bool(done[i]):
                if not opts:
                    run.probe("finished_row_without_action")  # C02's business; end the batch here
                    return True
                acts.append(D.choose(run, "uniform", td, i, opts))
                continue
            if not opts:
                ctx.fail("unsolvable", "dead_end", f"row {i}: no admitted action at tick {t} although the "
                         f"episode is not finished", B=B, tick=t, row=i)
                return False
            if mdc is not None:
                v = mdc["visited"][i]
                for a in opts:
                    if a >= mdc["D"] + mdc["h"] and (a - mdc["h"]) not in v:
                        ctx.fail("pairing", "delivery_before_pickup",
                                 f"row {i} tick {t}: delivery node {a} is offered although its pickup "
                                 f"{a - mdc['h']} has not been visited (documented layout: {mdc['D']} depots, "
                                 f"{mdc['h']} pickups, {mdc['h']} deliveries; the environment derives the "
                                 f"depot count from capacity.shape[-1] = {mdc['capw']})",
                                 num_depot=mdc["D"], capacity_width=mdc["capw"])
                        return False
            a = D.choose(run, strategies[i % len(strategies)], td, i, opts)
            if mdc is not None:
                mdc["visited"][i].add(a)
            acts.append(a)
        td = lib(lambda: E.step(env, td, torch.tensor(acts)), "env.step", B=B, tick=t)
        if td is None:
            return False
        run.tick()
        t += 1
    run.probe("episode_completed")
    run.state(name, "T", min(t, 64))
    return True


# ------------------------------------------------------------------------------------------------
# the scenario
# ------------------------------------------------------------------------------------------------
class C18:
    prop = "C18"
    level = "exploration"
    level_note = ("the range clauses are pure functions of the generated batch; they are checked as monitors "
                  "on what the real generators emit under a clean and under a buggified RNG (DESIGN 6, thin)")
    chunk = 8
    rule = ("run = one generator (weighted choice over 21: the 19 anchored generator files via tsp, atsp, "
            "cvrp, sdvrp, cvrptw, op, pctsp, spctsp, pdp, mtsp, svrp, mdcpdp, mtvrp, fjsp, jssp, ffsp, smtwtp, "
            "flp, mcp + dpp/mdpp on stub data) x one scheduled parameterisation (size incl. off-table 7/13/33, "
            "location / depot distribution, box, capacity and demand overrides, all 19 MTVRP presets, "
            "scheduling shapes, CVRPTW scale, OP prize type, MCP shapes) x RNG mode (clean | extreme-draw | "
            "ties) x 4-10 seeded batches of B=1..8; each batch is checked for documented keys / shapes / "
            "dtypes / ranges and driven through a mask-confined episode with a per-row strategy. "
            "Non-trivial = the RNG seam fired at least once or two rows of a batch used different "
            "strategies; distinct = distinct event-log digest.")
    components_real = ["rl4co.envs.*.generator (all 19 anchored generator modules + dpp/mdpp)",
                       "rl4co.envs.common.utils.get_sampler", "rl4co.envs.common.distribution_utils",
                       "rl4co.envs.* _reset/_step/get_action_mask (solvability episodes)"]
    components_stub = ["torch RNG functions wrapped by the extreme-draw seam in extreme / ties runs (every "
                       "injected value is one the real RNG can return; ties runs are observation-only)",
                       "action chooser (seeded adversarial scheduler instead of a policy)",
                       "EDA PDN data files for dpp / mdpp (random stub npy, 8x8 grid)"]
    assumptions = ["CPU float32", "capacity overrides are >= max_demand and MTVRP boxes keep "
                   "2*sqrt(2)*(max_loc-min_loc) < distance_limit (the documented preconditions)",
                   "normal / gaussian location distributions are unbounded by documentation (bounds are "
                   "'used for Uniform distribution'), so only an observation is counted for them",
                   "shape oracle accepts a trailing singleton where generator and environment docstrings "
                   "disagree (capacity, max_length, to_choose) and the depot row in CVRPTW windows",
                   "quick tier sizes: 3-8 (50%), 7/13/33 (25%), 10/20/50 (25%); thorough adds 75/100"]
    required_probes = ["batches:clean", "batches:extreme", "batches:ties", "episode_completed",
                       "offtable_size", "extreme_fired"]
    excluded = ["svrp with a single technician (degenerate, see C01)",
                "mtsp with more agents than customers (not a documented configuration)",
                "capacity < max_demand (user error by documentation; used as canary instead)",
                "fjsp/jssp file generators (C19)", "mpdp / shpp / improvement-env initial solutions "
                "(not anchored by C18)"]
    CANARIES = {}

    # ---------------------------------------------------------------------------------------------
    @staticmethod
    def make_plan(run_seed: int, tier: str) -> dict:
        st = Streams(run_seed)
        rc = st.get("config")
        pool = E.only_filter(GENS)
        weights = [WEIGHTS.get(n, 1) for n in pool]
        name = rc.choices(pool, weights)[0]
        cfg = gen_cfg(name, rc, tier)
        mode = rc.choices(["clean", "extreme", "ties"], [45, 40, 15])[0]
        nb = rc.randint(4, 10) if tier == "quick" else rc.randint(6, 16)
        batches = []
        for _ in range(nb):
            B = rc.choice([1, 1, 2, 2, 3, 4, 4, 5, 6, 8])
            k = rc.randint(1, 2)
            strat = [rc.choice(D.STRATEGIES) for _ in range(k)]
            batches.append({"B": B, "seed": rc.randrange(1 << 30), "strategies": strat,
                            "via_reset": rc.random() < 0.12})
        seam = {"p_call": rc.choice([0.15, 0.3, 0.5, 0.8, 1.0])}
        return {"cfg": cfg, "mode": mode, "batches": batches, "seam": seam}

    @staticmethod
    def sample(run):
        p = run.plan
        return {"generator": p["cfg"]["env"], "cfg": p["cfg"], "mode": p["mode"], "seam": p["seam"],
                "batches": p["batches"], "first_batch": getattr(run, "c18_first", None)}

    @staticmethod
    def shrink(plan):
        import copy

        if len(plan["batches"]) > 1:
            for bi in range(len(plan["batches"])):
                p = copy.deepcopy(plan)
                p["batches"] = [p["batches"][bi]]
                yield p
        if plan["mode"] != "clean":
            p = copy.deepcopy(plan)
            p["mode"] = "clean"
            yield p
        for bi, b in enumerate(plan["batches"]):
            if b["strategies"] != ["lowest"]:
                p = copy.deepcopy(plan)
                p["batches"][bi]["strategies"] = ["lowest"]
                yield p
            if b["B"] > 1:
                p = copy.deepcopy(plan)
                p["batches"][bi]["B"] = 1
                yield p
        g = plan["cfg"]["gen"]
        for grp in OPTIONAL_GROUPS:
            if any(k in g for k in grp):
                p = copy.deepcopy(plan)
                for k in grp:
                    p["cfg"]["gen"].pop(k, None)
                yield p

    # ---------------------------------------------------------------------------------------------
    @staticmethod
    def execute(run):
        plan = run.plan
        cfg, mode = plan["cfg"], plan["mode"]
        name = cfg["env"]
        run.c18_seen = set()
        run.probe(f"runs:{name}")
        run.probe(f"runs_mode:{mode}")
        size = next((cfg["gen"][k] for k in ("num_loc", "num_job", "num_jobs") if k in cfg["gen"]), None)
        if size is not None and size not in TABLE_SIZES and size not in (100,):
            run.probe("offtable_size")
        with run.guard(name, "construct generator / environment", gen=cfg["gen"], kw=cfg["kw"],
                       constraint="constructor"):
            env = E.make_env(cfg)
        gen = env.generator
        for bi, b in enumerate(plan["batches"]):
            B = b["B"]
            ctx = Ctx(run, name, cfg, mode, bi)
            fired = []
            # one named sub-stream per batch (keyed by the batch seed, so that dropping other batches
            # during minimisation leaves this batch's injected draws unchanged)
            srng = run.streams.get(f"faults:{b['seed']}")
            seam = (ExtremeDraw(srng, p_call=plan["seam"]["p_call"], ties=(mode == "ties"),
                                extreme=True, on_fire=lambda kind, n: fired.append((kind, n)))
                    if mode != "clean" else contextlib.nullcontext())
            torch.manual_seed(b["seed"])
            random.seed(b["seed"])  # Mix_Multi_Distributions draws from Python's global RNG
            run.state(name, mode, B, size)
            td = None
            via_reset = bool(b.get("via_reset"))
            if not via_reset:
                try:
                    with seam:
                        td = gen(batch_size=[B])
                except (HarnessError, StopRun):
                    raise
                except Exception as e:  # noqa: BLE001
                    where, f, func = _blame(e)
                    if where != "repo":
                        raise
                    run.probe(f"generator_raised:{name}")
                    ctx.fail(f"exception:{type(e).__name__}@{f}:{func}", "generate",
                             f"generator raised for a documented parameterisation (B={B}, seed={b['seed']}): "
                             f"{type(e).__name__}: {str(e)[:200]}", exc_type=type(e).__name__, exc_file=f,
                             exc_func=func, B=B, seed=b["seed"])
            ok = done = False
            if td is not None:
                if bi == 0 and sum(v[0].numel() for v in td.values()) <= 400:
                    run.c18_first = {k: E.enc_tensor(v[0]) for k, v in td.items()}
                ok = check_structure(ctx, gen, td, B)
                if ok:
                    check_ranges(ctx, gen, td, B)
                done = episode(ctx, env, td, b["strategies"], B)
            elif via_reset:
                done = episode(ctx, env, None, b["strategies"], B, seam=seam)
            for kind, n in fired:
                run.fault("extreme_draw", kind, n)
            if fired:
                run.nontrivial = True
                if any(k.startswith("tie:") for k, _ in fired):
                    run.probe("ties_fired")
                if any(not k.startswith("tie:") for k, _ in fired):
                    run.probe("extreme_fired")
            if len(set(b["strategies"])) > 1 and B > 1:
                run.nontrivial = True
            run.probe(f"batches:{mode}")
            run.probe(f"batches_gen:{name}")
            run.probe("rows", B)
            run.log.add("batch", bi, B, _digest(td) if td is not None else ("via_reset" if via_reset else "raised"),
                        bool(ok), bool(done), bool(ctx.bad))


def _digest(td):
    import hashlib

    h = hashlib.blake2b(digest_size=8)
    for k in sorted(td.keys()):
        v = td[k]
        h.update(k.encode())
        h.update(str(tuple(v.shape)).encode())
        h.update(v.contiguous().cpu().numpy().tobytes())
    return h.hexdigest()


# ------------------------------------------------------------------------------------------------
# canary mutants (sensitivity self-test; in-memory only, never applied to /repo)
# ------------------------------------------------------------------------------------------------
@contextlib.contextmanager
def _swap(obj, attr, new):
    old = obj.__dict__[attr] if attr in getattr(obj, "__dict__", {}) else getattr(obj, attr)
    setattr(obj, attr, new)
    try:
        yield
    finally:
        setattr(obj, attr, old)


def _canary_cvrp_demand_no_plus1():
    """CVRP demand without the `+ 1`: zero demands appear (k = 0)."""
    from rl4co.envs.routing.cvrp.generator import CVRPGenerator

    orig = CVRPGenerator._generate

    def mutant(self, batch_size):
        td = orig(self, batch_size)
        td["demand"] = td["demand"] - 1.0 / self.capacity
        return td

    return _swap(CVRPGenerator, "_generate", mutant)


def _canary_cvrp_capacity_5():
    """The capacity table lookup is replaced by a constant 5 (< max demand 9)."""
    from rl4co.envs.routing.cvrp.generator import CVRPGenerator

    orig = CVRPGenerator.__init__

    def mutant(self, *a, **k):
        orig(self, *a, **k)
        self.capacity = 5.0

    return _swap(CVRPGenerator, "__init__", mutant)


def _canary_cvrptw_no_step7():
    """CVRPTW window repair (step 7) disabled: `torch.any(mask)` always False inside the generator module."""
    import rl4co.envs.routing.cvrptw.generator as mod

    class _TorchProxy:
        def __getattr__(self, k):
            return getattr(torch, k)

        @staticmethod
        def any(*a, **k):
            return torch.tensor(False)

    return _swap(mod, "torch", _TorchProxy())


def _canary_atsp_no_floyd():
    """ATSP generator skips the Floyd-Warshall pass although tmat_class=True is requested."""
    from rl4co.envs.routing.atsp.generator import ATSPGenerator

    orig = ATSPGenerator._generate

    def mutant(self, batch_size):
        saved = self.tmat_class
        self.tmat_class = False
        try:
            return orig(self, batch_size)
        finally:
            self.tmat_class = saved

    return _swap(ATSPGenerator, "_generate", mutant)


def _canary_fjsp_min_eligible_0():
    """FJSP samples the number of eligible machines from 0: operations without any machine."""
    from rl4co.envs.scheduling.fjsp.generator import FJSPGenerator

    orig = FJSPGenerator._generate

    def mutant(self, batch_size):
        saved = self.min_eligible_ma_per_op
        self.min_eligible_ma_per_op = 0
        try:
            return orig(self, batch_size)
        finally:
            self.min_eligible_ma_per_op = saved

    return _swap(FJSPGenerator, "_generate", mutant)


def _canary_pdp_odd_split():
    """PDP / MDCPDP generators no longer round an odd num_loc up: one node has no partner."""
    from rl4co.envs.routing.mdcpdp.generator import MDCPDPGenerator
    from rl4co.envs.routing.pdp.generator import PDPGenerator

    o1, o2 = PDPGenerator.__init__, MDCPDPGenerator.__init__

    def m1(self, *a, **k):
        o1(self, *a, **k)
        n = k.get("num_loc", a[0] if a else 20)
        self.num_loc = n

    def m2(self, *a, **k):
        o2(self, *a, **k)
        n = k.get("num_loc", a[0] if a else 20)
        self.num_loc = n

    @contextlib.contextmanager
    def cm():
        with _swap(PDPGenerator, "__init__", m1), _swap(MDCPDPGenerator, "__init__", m2):
            yield

    return cm()


def _canary_mtvrp_preset_ignored():
    """MTVRP sub-sampling keeps every attribute whatever the preset says."""
    from rl4co.envs.routing.mtvrp.generator import MTVRPGenerator

    def mutant(self, td):
        return td

    return _swap(MTVRPGenerator, "subsample_problems", mutant)


def _canary_mtvrp_tw_no_return_slack():
    """MTVRP h_max forgets service time and window length: windows may close too late to return."""
    from rl4co.envs.routing.mtvrp.generator import MTVRPGenerator
    from rl4co.utils.ops import get_distance

    def mutant(self, locs, speed):
        batch_size, n_loc = locs.shape[0], locs.shape[1] - 1
        a, b, c = 0.15, 0.18, 0.2
        service_time = a + (b - a) * torch.rand(batch_size, n_loc)
        tw_length = b + (c - b) * torch.rand(batch_size, n_loc)
        d_0i = get_distance(locs[:, 0:1], locs[:, 1:])
        h_max = self.max_time / d_0i * speed - 1
        tw_start = (1 + (h_max - 1) * torch.rand(batch_size, n_loc)) * d_0i / speed
        tw_end = tw_start + tw_length
        time_windows = torch.stack(
            (torch.cat((torch.zeros(batch_size, 1), tw_start), -1),
             torch.cat((torch.full((batch_size, 1), self.max_time), tw_end), -1)), dim=-1)
        service_time = torch.cat((torch.zeros(batch_size, 1), service_time), dim=-1)
        return time_windows, service_time

    return _swap(MTVRPGenerator, "generate_time_windows", mutant)


def _canary_smtwtp_dummy_not_zeroed():
    """SMTWTP forgets to zero the dummy node's due time."""
    from rl4co.envs.scheduling.smtwtp.generator import SMTWTPGenerator

    orig = SMTWTPGenerator._generate

    def mutant(self, batch_size):
        td = orig(self, batch_size)
        td["job_due_time"][:, 0] = td["job_due_time"][:, 1]
        return td

    return _swap(SMTWTPGenerator, "_generate", mutant)


C18.CANARIES = {
    "cvrp_demand_no_plus1": _canary_cvrp_demand_no_plus1,
    "cvrp_capacity_5": _canary_cvrp_capacity_5,
    "cvrptw_no_step7": _canary_cvrptw_no_step7,
    "atsp_no_floyd": _canary_atsp_no_floyd,
    "fjsp_min_eligible_0": _canary_fjsp_min_eligible_0,
    "pdp_odd_split": _canary_pdp_odd_split,
    "mtvrp_preset_ignored": _canary_mtvrp_preset_ignored,
    "mtvrp_tw_no_return_slack": _canary_mtvrp_tw_no_return_slack,
    "smtwtp_dummy_not_zeroed": _canary_smtwtp_dummy_not_zeroed,
}
