"""C11 -- returned log-likelihoods are those of the returned actions (record / replay).

One run = one (policy kind x environment x decode mode x decoding knobs) record/replay experiment:

* run 1 decodes a small batch with the REAL policy (tiny bundled network, or the scripted decoder in the
  real ``ConstructivePolicy`` loop) under a ``process_logits`` tap and records actions, per-step
  log-probabilities (or their sum), reward and entropy;
* oracle (i): the returned log-likelihood equals  sum_t logp_ref[t][a_t]  where logp_ref is an independent
  float64 masked softmax (temperature, tanh clip) of the tapped *raw* logits (the tapped output is used
  instead when a top-k / top-p filter is active, after a sanity check); forced multi-start first moves
  and steps whose ``td["mask"]`` entry is False contribute exactly 0;
* run 2 feeds the returned actions back (``actions=`` -> evaluate mode; ``eval_tours=`` for the pointer
  network) and oracle (ii) demands the same per-step log-probabilities, reward and entropy.  For
  multi-start / multi-sample / beam outputs run 2 is executed (A) on the k-fold expanded batch without
  ``num_starts`` and (B) on the original batch with ``num_samples=k`` (no forced move in evaluate mode);
  the forced step 0 is excluded from the comparison;
* scenario ``ppo``: ``PPO.shared_step`` outside a Trainer (shims), mini-batch = whole batch: the first
  inner-step ratio exp(new - old) is 1 within 1e-5 for every row (oracle (iii));
* scenario ``stepwise_ppo``: L2D's own step-wise PPO (``L2DPPOModel`` / ``StepwisePPO`` / ``L2DPolicy4PPO``) on tiny
  FJSP / JSSP instances: (A) an episode rolled out with ``policy_old.act`` the way ``StepwisePPO.shared_step``
  does; every recorded (state, action, stored log-prob) is re-scored by ``policy.evaluate`` and against the
  float64 reference under the knobs ``evaluate`` hands to ``process_logits``; (B) 2-3 consecutive
  ``shared_step(batch, i, "train")`` calls outside a Trainer: the ratio of the FIRST mini-batch of EVERY update
  (no optimizer step of that update taken yet) is 1 (oracle (iv): a stale ``policy_old`` shows from the second
  update on).
"""
from __future__ import annotations

import contextlib
import copy
import math

import numpy as np
import torch

from .. import envs as E
from .. import policies as P
from ..kernel import HarnessError, StopRun, Streams

# --------------------------------------------------------------------------------------------------
# reference: float64 masked softmax with temperature and tanh clipping (numpy only)
# --------------------------------------------------------------------------------------------------


def ref_logp(logits, mask, temperature=1.0, tanh_clipping=0.0):
    """logits [R,N] (any float array), mask [R,N] bool or None -> (logp [R,N] float64, scale [R]).

    Order of operations as documented for rl4co's decoding: clip, mask, temperature, normalise.
    scale = largest finite |scaled logit| per row (the magnitude float32 rounding errors grow with)."""
    x = np.asarray(logits, dtype=np.float64).copy()
    if tanh_clipping and tanh_clipping > 0:
        x = np.tanh(x) * float(tanh_clipping)
    if mask is not None:
        x[~np.asarray(mask, dtype=bool)] = -np.inf
    x = x / float(temperature)
    finite = np.isfinite(x)
    scale = np.where(finite, np.abs(x), 0.0).max(axis=-1)
    m = np.where(finite, x, -np.inf).max(axis=-1, keepdims=True)
    with np.errstate(divide="ignore", invalid="ignore"):
        lse = m + np.log(np.exp(x - m).sum(axis=-1, keepdims=True))
        out = x - lse
    return out, scale


def ref_entropy(logp_row):
    p = np.exp(logp_row)
    with np.errstate(invalid="ignore"):
        t = np.where(p > 0, p * logp_row, 0.0)
    return float(-t.sum())


def tol(ref: float, scale: float = 0.0, n: int = 1) -> float:
    return 1e-5 * max(1.0, abs(ref), scale) * math.sqrt(max(n, 1))


# --------------------------------------------------------------------------------------------------
# taps
# --------------------------------------------------------------------------------------------------
class _Rec:
    __slots__ = ("logits", "mask", "temperature", "top_p", "top_k", "tanh_clipping", "logprobs", "path",
                 "action")


class ProcessTap:
    """Records every rl4co.utils.decoding.process_logits call (logits cloned BEFORE the call: the
    function masks its argument in place).  Wraps whatever is bound at __enter__ (so an in-memory mutant
    installed earlier is observed, not bypassed).  `mod`: another module holding its own binding of the name
    (``from rl4co.utils.decoding import process_logits``), e.g. rl4co.models.zoo.l2d.policy."""

    def __init__(self, mod=None):
        self.records = []
        self._mod = mod

    def __enter__(self):
        import rl4co.utils.decoding as dec

        if self._mod is not None:
            dec = self._mod
        self._dec = dec
        self._orig = orig = dec.process_logits
        tap = self

        def tapped(logits, mask=None, temperature=1.0, top_p=0.0, top_k=0, tanh_clipping=0,
                   mask_logits=True):
            r = _Rec()
            r.logits = logits.detach().clone()
            r.mask = None if mask is None else mask.detach().clone()
            r.temperature, r.top_p, r.top_k, r.tanh_clipping = temperature, top_p, top_k, tanh_clipping
            out = orig(logits, mask, temperature=temperature, top_p=top_p, top_k=top_k,
                       tanh_clipping=tanh_clipping, mask_logits=mask_logits)
            r.logprobs = out.detach().clone()
            tap.records.append(r)
            return out

        dec.process_logits = tapped
        return self

    def __exit__(self, *exc):
        self._dec.process_logits = self._orig
        return False


class PtrNetTap:
    """Pointer network: own decoder, no process_logits.  Records the (already masked, already clipped)
    logits returned by Decoder.calc_logits together with the mask it was given."""

    def __init__(self):
        self.records = []

    def __enter__(self):
        from rl4co.models.zoo.ptrnet.decoder import Decoder

        self._cls = Decoder
        self._orig = orig = Decoder.calc_logits
        tap = self

        def calc_logits(self_, x, h_in, logit_mask, context, mask_glimpses=None, mask_logits=None):
            logits, h = orig(self_, x, h_in, logit_mask, context, mask_glimpses, mask_logits)
            r = _Rec()
            r.logits = logits.detach().clone()
            r.mask = logit_mask.detach().clone()
            r.temperature, r.top_p, r.top_k, r.tanh_clipping = 1.0, 0.0, 0, 0
            r.logprobs = None
            tap.records.append(r)
            return logits, h

        Decoder.calc_logits = calc_logits
        return self

    def __exit__(self, *exc):
        self._cls.calc_logits = self._orig
        return False


class MDAMTap:
    """MDAM: own multi-path decoder.  Records per decoding step the tensor the decoder calls `logprobs`
    (what it hands to decode_logprobs and to get_log_likelihood), the mask, the chosen action and the
    path index."""

    def __init__(self):
        self.records = []
        self.path = None

    def __enter__(self):
        import rl4co.models.zoo.mdam.decoder as md

        self._md = md
        self._orig_dec = orig_dec = md.decode_logprobs
        self._orig_get = orig_get = md.MDAMDecoder._get_logprobs
        tap = self

        def _get_logprobs(self_, fixed, td, path_index, *a, **k):
            tap.path = path_index
            return orig_get(self_, fixed, td, path_index, *a, **k)

        def decode_logprobs(logprobs, mask, decode_type="sampling"):
            act = orig_dec(logprobs, mask, decode_type=decode_type)
            r = _Rec()
            r.logits = logprobs.detach().clone()
            r.mask = mask.detach().clone()
            r.temperature, r.top_p, r.top_k, r.tanh_clipping = 1.0, 0.0, 0, 0
            r.logprobs = None
            r.path = tap.path
            r.action = act.detach().clone()
            tap.records.append(r)
            return act

        md.decode_logprobs = decode_logprobs
        md.MDAMDecoder._get_logprobs = _get_logprobs
        return self

    def __exit__(self, *exc):
        self._md.decode_logprobs = self._orig_dec
        self._md.MDAMDecoder._get_logprobs = self._orig_get
        return False


# --------------------------------------------------------------------------------------------------
# combinations
# --------------------------------------------------------------------------------------------------
FIXED_LENGTH = {"tsp": 0, "atsp": 0, "pdp": 1, "smtwtp": 1}  # env -> (mask width - episode length)
SCRIPTED_ENVS = [e for e in E.ALL_CONSTRUCTIVE if e != "ffsp"] + ["ffsp"]
PPO_COMBOS = [("am", e) for e in P.AM_ENVS] + [("ham", "pdp"), ("symnco", "tsp"), ("symnco", "cvrp"),
                                               ("polynet", "tsp")]
REAL_COMBOS = [(k, e) for k in sorted(P.POLICY_ENVS) for e in P.POLICY_ENVS[k]]
STEPWISE_ENVS = ["fjsp", "jssp"]  # L2DPPOModel asserts env.name in these
MODES = ["greedy", "sampling", "multistart_greedy", "multistart_sampling", "beam_search", "multisample"]


def _modes_for(kind, env_name):
    if kind in ("ptrnet", "mdam"):
        return ["greedy", "sampling"]
    modes = ["greedy", "sampling", "multisample"]
    if kind == "nar":
        modes = ["greedy", "sampling"]  # multi-sample without a forced start is not supported by the NAR decoder
    multi_ok = env_name in P.MULTISTART_ENVS or env_name in ("fjsp", "jssp")
    if kind == "am" and env_name == "mtsp":
        multi_ok = False  # DESIGN 7.17: raises in MTSPContext (reported by C12)
        modes = ["greedy", "sampling"]  # ... and so does num_samples > 1 (same unbatchified state)
    if env_name in ("ffsp", "dpp", "mdpp"):
        modes = ["greedy", "sampling"]  # replication needs env-side tables / is not defined
        multi_ok = False
    if multi_ok:
        modes += ["multistart_greedy", "multistart_sampling"]
        if kind != "polynet":
            modes.append("beam_search")
    return modes


def _cfg_for(kind, env_name, n, rc):
    if kind == "scripted":
        cfg = E.sample_cfg(env_name, rc)
        if cfg["n"] > 9:
            cfg = P.env_cfg_for("am", env_name, n, rc)
        if env_name == "pdp":
            cfg["kw"]["force_start_at_depot"] = False  # multi-start x forced depot start: see C12
    else:
        cfg = P.env_cfg_for(kind, env_name, n, rc)
    if env_name == "op":
        cfg["gen"]["max_length"] = 3.0  # every customer reachable: start-node defects are C12's business
    if env_name == "mtsp":
        cfg["gen"]["min_num_agents"] = min(2, cfg["gen"]["max_num_agents"])
    return cfg


def _make_policy(plan):
    kind, name = plan["kind"], plan["cfg"]["env"]
    if kind == "scripted":
        from ..scripted import make_scripted_policy

        kf = ("start_op_per_job", "end_op_per_job", "pad_mask", "ops_job_map") if name in ("fjsp", "jssp") else None
        pol = make_scripted_policy(name, plan["scripted_mode"], plan["policy_seed"], key="state",
                                   key_fields=kf)
    else:
        # pointer network: documented constructor options -- mask_inner=False (glimpses unmasked; the pointer
        # distribution is still masked before normalisation) and tanh_clipping=0 (no clipping)
        pol = P.make_policy(kind, name, plan["policy_seed"], **plan.get("policy_kw", {}))
    if plan.get("train_mode"):
        pol.train()
    else:
        pol.eval()
    return pol


class C11:
    prop = "C11"
    level = "exploration"
    chunk = 4
    rule = ("run = one record/replay experiment: (policy kind x environment) drawn uniformly from the "
            "allow-list (24 real policy x env pairs, scripted decoder x 21 environments, PPO first inner "
            "step in ~10% of the runs, L2D step-wise PPO in ~6%), batch 1-4 of generator instances with 4-7 nodes, decode mode in {greedy, sampling, "
            "multistart_greedy, multistart_sampling, beam_search, sampling with num_samples}, replication "
            "factor 2-5, select_best on/off, temperature / tanh clip / top-k / top-p swarm, per-step vs summed "
            "log-likelihood, entropy on/off, optional harness-supplied td['mask'] (irrelevant steps).  "
            "Run 1 records, run 2 replays in evaluate mode (expanded batch without num_starts, and "
            "original batch with num_samples=k).  Scenario stepwise_ppo (FJSP / JSSP with 2-4 jobs, 2-3 machines, "
            "<= 3 operations per job, step-wise reward, _torchrl_mode on/off; L2DPPOModel(policy_kwargs=...) with "
            "embed_dim 32, 1 layer, temperature in {0.5, 1, 2}, tanh_clipping in {0, 10}, batch / instance "
            "normalisation, modules in eval() -- or train() with instance normalisation --, Adam / SGD, 1-2 PPO "
            "epochs, mini-batch B..4B): (A) one episode of policy_old.act / env.step as in StepwisePPO.shared_step, "
            "every recorded (state, action, stored log-prob) re-scored by policy.evaluate and by the float64 "
            "reference; (B) 2-3 consecutive shared_step(batch, i, 'train') calls on fresh batches of 2-4 instances, "
            "ratio of the first mini-batch of every update.  Non-trivial = replicated rows or a forced first move or "
            "a filter / mask / clip other than the default was active; distinct = distinct event-log digest.")
    components_real = ["rl4co.models.common.constructive.base.ConstructivePolicy.forward",
                       "rl4co.utils.decoding (process_logits, DecodingStrategy.step/pre/post hooks, Greedy, "
                       "Sampling, Evaluate, BeamSearch, get_log_likelihood)", "rl4co.utils.ops (batchify, "
                       "unbatchify_and_gather, gather_by_index, calculate_entropy, select_start_nodes)",
                       "AttentionModelPolicy, PointerNetworkPolicy, HeterogeneousAttentionModelPolicy, "
                       "MDAMPolicy, PolyNetPolicy, SymNCOPolicy, MatNetPolicy, L2DPolicy (random weights, "
                       "embed_dim 32)", "rl4co.models.rl.ppo.ppo.PPO.shared_step",
                       "rl4co.models.zoo.l2d.policy.L2DPolicy4PPO.act / .evaluate (HetGNN feature extractor, FJSP / "
                       "JSSP actor, critic MLP)", "rl4co.models.rl.ppo.stepwise_ppo.StepwisePPO.shared_step / .update "
                       "(policy_old, TensorDictReplayBuffer with ListStorage and SamplerWithoutReplacement, PPO epochs "
                       "over mini-batches, policy_old sync) through rl4co.models.zoo.l2d.model.L2DPPOModel, with the "
                       "optimizer from RL4COLitModule.configure_optimizers", "rl4co environments and generators"]
    components_stub = ["scripted decoder (state-keyed logits table) in place of a network for the 'scripted' "
                       "kind", "trainer shims for PPO and step-wise PPO (optimizers, manual_backward, clip_gradients -- a no-op for PPO, "
                       "torch clip_grad_norm_ for step-wise PPO --, log_dict)",
                       "td['mask'] supplied by the harness (no bundled environment sets it)",
                       "EDA PDN data files (stub npy)"]
    assumptions = ["CPU float32", "instances from the library generators at 4-7 nodes", "OP instances use "
                   "max_length 3.0 (every customer reachable) and AM x mTSP runs without multi-start / num_samples "
                   "(DESIGN 7.17 is reported by C12)",
                   "MatNet's random one-hot embedding: torch is seeded identically before run 1 and run 2 and "
                   "only replays with the same number of encoder rows are compared",
                   "PolyNet conditions its logits on the replica slot: only slot-preserving replays (original "
                   "batch, num_samples=k, no best-selection, no beam) are compared",
                   "step-wise PPO: BatchNorm layers run on their running statistics (eval()); train() mode is only "
                   "exercised with the per-sample instance normalisation (normalization='instance', as in "
                   "configs/experiment/scheduling/gnn-ppo.yaml); replay buffer on ListStorage (the default "
                   "buffer_storage_device)"]
    required_probes = ["forced_step_zero", "roundtrip_expanded", "roundtrip_num_samples", "filter_active",
                       "step_mask_applied", "ppo_ratio", "select_best_roundtrip", "beam_roundtrip", "stepwise_roundtrip",
                       "stepwise_second_update"]
    excluded = [
        ["mdam", "*", "evaluate", "own multi-path decoder without an evaluate mode: clause (i) only"],
        ["ptrnet", "tsp", "multistart/beam/num_samples", "PointerNetworkPolicy ignores these arguments"],
        ["nar", "tsp/cvrp", "num_samples", "NonAutoregressiveDecoder takes the first step's logits from the "
         "un-replicated heatmap: num_samples without a forced start raises IndexError (its users, DeepACO/GFACS, "
         "only use multistart); observation"],
        ["polynet", "*", "select_best / beam_search round trip", "logits depend on the replica slot, which a "
         "best-selected or back-tracked sequence does not carry"],
        ["matnet", "atsp", "round trip on the k-fold expanded batch", "random one-hot embedding is drawn per "
         "encoder row; replay is done on the original batch with num_samples=k under the same seed"],
        ["am", "mtsp", "multistart/beam/num_samples", "raises in MTSPContext._distance_from_depot (DESIGN 7.17, C12)"],
        ["*", "ffsp/dpp/mdpp", "multistart/num_samples/beam", "no start-node rule / per-episode tables on the "
         "environment object are not replicated"],
        ["*", "svrp/smtwtp/mdcpdp/dpp/mdpp", "multistart/beam", "no start-node rule in get_num_starts"],
        ["matnet_multistage", "ffsp", "evaluate replay", "MultiStageFFSPPolicy has no evaluate mode: clause (i) only "
         "(scenario ffsp_multistage: sum of the executed actions' log-probs under their own stage decoder)"],
        ["matnet/l2d", "*", "ppo", "create_critic_from_actor does not fit their encoders (the PPO class); L2D's own "
         "step-wise PPO (L2DPolicy4PPO / StepwisePPO / L2DPPOModel) is covered by scenario stepwise_ppo"],
        ["l2d4ppo", "jssp", "het_emb=False", "the homogeneous feature extractor GCN4JSSP needs torch_geometric (absent "
         "offline): the HetGNN feature extractor is used for both environments"],
        ["l2d4ppo", "fjsp/jssp", "BatchNorm in train() mode", "batch statistics of the rollout batch and of a sampled "
         "mini-batch differ, so the first ratio is not 1 by construction of the layer (observation, see report); "
         "eval() or instance normalisation instead"],
        ["l2d4ppo", "fjsp/jssp", "buffer_storage_device='cpu'", "LazyMemmapStorage with 3 prefetch threads: the "
         "mini-batch order is not a function of the seed"],
    ] + [list(x) for x in P.EXCLUDED]
    CANARIES = {}

    # ----------------------------------------------------------------------------------------------
    @staticmethod
    def make_plan(run_seed: int, tier: str) -> dict:
        st = Streams(run_seed)
        rc = st.get("config")
        u = rc.random()
        only = E.only_filter(E.ALL_CONSTRUCTIVE)
        sw_pool = [e for e in STEPWISE_ENVS if e in only]
        if u >= 0.94 and sw_pool:
            return _plan_stepwise(st, rc, sw_pool, tier)
        if 0.89 <= u < 0.94 and "ffsp" in only:
            return _plan_ffsp_multistage(st, rc)
        if u < 0.10:
            scenario = "ppo"
            pool = [c for c in PPO_COMBOS if c[1] in only] or PPO_COMBOS
            kind, name = pool[rc.randrange(len(pool))]
        elif u < 0.30:
            scenario = "roundtrip"
            pool = [e for e in SCRIPTED_ENVS if e in only] or SCRIPTED_ENVS
            kind, name = "scripted", pool[rc.randrange(len(pool))]
        else:
            scenario = "roundtrip"
            pool = [c for c in REAL_COMBOS if c[1] in only] or REAL_COMBOS
            kind, name = pool[rc.randrange(len(pool))]
        n = rc.randint(4, 7) if tier != "thorough" else rc.randint(4, 12)
        cfg = _cfg_for(kind, name, n, rc)
        env = E.make_env(cfg)
        B = rc.choice([1, 2, 2, 3, 3, 4])
        if scenario == "ppo":
            B = rc.choice([2, 3, 4, 5])
        rows = E.gen_rows(env, cfg, B, st.torch_seed("instances"))
        plan = {"scenario": scenario, "kind": kind, "cfg": cfg, "instances": [E.enc_row(r) for r in rows],
                "policy_seed": rc.randrange(1 << 20), "sample_seed": rc.randrange(1 << 30),
                "train_mode": rc.random() < 0.25}
        if kind == "scripted":
            plan["scripted_mode"] = rc.choice(["gaussian", "gaussian", "ties", "huge", "flat", "one_dominant"])
            plan["train_mode"] = False
        if scenario == "ppo":
            plan["ppo"] = {"epochs": rc.randint(1, 2), "mini": rc.choice(["int", "float", "bigger"]),
                           "normalize_adv": rc.random() < 0.3}
            return plan
        modes = _modes_for(kind, name)
        mode = rc.choice(modes)
        td0 = E.reset(env, cfg, rows)
        width = int(td0["action_mask"].shape[-1])
        try:
            gns = int(env.get_num_starts(td0))
        except Exception:  # noqa: BLE001
            gns = width
        if name in ("fjsp", "jssp"):
            gns = 3
        k = 1
        if mode in ("multistart_greedy", "multistart_sampling", "beam_search"):
            k = rc.randint(2, max(2, min(gns, 5)))
        elif mode == "multisample":
            k = rc.randint(2, 4)
        select_best = (k > 1) and rc.random() < 0.4
        if kind == "polynet":
            select_best = False
        knobs = {"temperature": rc.choice([1.0, 1.0, 1.0, 0.5, 2.0, 0.2]),
                 "tanh_clipping": rc.choice([None, None, 0, 5.0, 10.0]),
                 "top_k": rc.choice([0, 0, 0, 0, 1, 2, 3, width + 3]),
                 "top_p": rc.choice([0.0, 0.0, 0.0, 0.0, 0.5, 0.9, 1.0])}
        if kind in ("ptrnet", "mdam"):
            knobs = {"temperature": 1.0, "tanh_clipping": None, "top_k": 0, "top_p": 0.0}
        policy_kw = {}
        if kind == "ptrnet":
            o = rc.choice(["default", "default", "no_inner_mask", "no_inner_mask", "no_tanh"])
            policy_kw = {"no_inner_mask": {"mask_inner": False}, "no_tanh": {"tanh_clipping": 0}}.get(o, {})
        if mode in ("multistart_greedy", "multistart_sampling", "beam_search"):
            # a forced first move need not survive a top-k / top-p filter when it is replayed as an
            # ordinary step in evaluate mode (the assertion in get_log_likelihood would fire)
            knobs["top_k"], knobs["top_p"] = 0, 0.0
        step_mask = None
        if name in FIXED_LENGTH and kind not in ("mdam",) and rc.random() < 0.35:
            T = width - FIXED_LENGTH[name]
            step_mask = [[rc.random() < 0.6 for _ in range(T)] for _ in range(B)]
        # knobs configured ON the policy object (constructor arguments of ConstructivePolicy) instead of per call,
        # with another call under other call-time knobs interleaved between record and replay (as SamplingEval
        # does between training steps): nothing a call passes may stick to the policy
        plan["knobs_on_policy"] = bool(kind in ("am", "scripted", "ham", "symnco", "polynet") and rc.random() < 0.4)
        plan.update({"mode": mode, "k": k, "select_best": select_best, "knobs": knobs,
                     "ret_sum": rc.random() < 0.4, "ret_entropy": rc.random() < 0.6,
                     "ret_entropy2": rc.random() < 0.5, "step_mask": step_mask})
        if policy_kw:
            plan["policy_kw"] = policy_kw
        return plan

    # ----------------------------------------------------------------------------------------------
    @staticmethod
    def sample(run):
        p = run.plan
        s = {k: p.get(k) for k in ("scenario", "kind", "cfg", "mode", "k", "select_best", "knobs", "ret_sum",
                                   "ret_entropy", "step_mask", "train_mode", "scripted_mode", "ppo",
                                   "stepwise")}
        s["B"] = len(p["instances"])
        s["instance0"] = p["instances"][0]
        s["summary"] = getattr(run, "summary", None)
        return s

    @staticmethod
    def shrink(plan):
        if plan.get("scenario") == "stepwise_ppo":
            yield from _shrink_stepwise(plan)
            return
        if plan.get("scenario") == "ffsp_multistage":
            if len(plan["instances"]) > 1:
                for i in range(len(plan["instances"])):
                    p = copy.deepcopy(plan)
                    del p["instances"][i]
                    yield p
            return
        if len(plan["instances"]) > 1:
            for i in range(len(plan["instances"])):
                p = copy.deepcopy(plan)
                del p["instances"][i]
                if p.get("step_mask"):
                    del p["step_mask"][i]
                yield p
        if plan.get("step_mask"):
            p = copy.deepcopy(plan)
            p["step_mask"] = None
            yield p
        if plan.get("knobs"):
            for key, dflt in (("top_k", 0), ("top_p", 0.0), ("temperature", 1.0), ("tanh_clipping", None)):
                if plan["knobs"][key] != dflt:
                    p = copy.deepcopy(plan)
                    p["knobs"][key] = dflt
                    yield p
        if plan.get("train_mode"):
            p = copy.deepcopy(plan)
            p["train_mode"] = False
            yield p
        if plan.get("k", 1) > 2:
            p = copy.deepcopy(plan)
            p["k"] = plan["k"] - 1
            yield p

    # ----------------------------------------------------------------------------------------------
    @staticmethod
    def execute(run):
        plan = run.plan
        run.stats["runs:" + ("" if plan["scenario"] == "roundtrip" else plan["scenario"] + ":") + _scope(plan)] += 1
        if plan["scenario"] == "ppo":
            return _execute_ppo(run)
        if plan["scenario"] == "stepwise_ppo":
            return _execute_stepwise(run)
        if plan["scenario"] == "ffsp_multistage":
            return _execute_ffsp_multistage(run)
        kind = plan["kind"]
        if kind == "mdam":
            return _execute_mdam(run)
        if kind == "ptrnet":
            return _execute_ptrnet(run)
        return _execute_roundtrip(run)


# --------------------------------------------------------------------------------------------------
# helpers
# --------------------------------------------------------------------------------------------------
def _scope(plan):
    return f"{plan['kind']}:{plan['cfg']['env']}"


def _setup(run):
    plan = run.plan
    cfg = plan["cfg"]
    scope = _scope(plan)
    rows = [E.dec_row(r) for r in plan["instances"]]
    with run.guard(scope, "construct env"):
        env = E.make_env(cfg)
    with run.guard(scope, "construct policy"):
        pol = _make_policy(plan)
    with run.guard(scope, "env.reset"):
        td = E.reset(env, cfg, rows)
    return env, pol, td, scope


def _max_steps(td) -> int:
    """generous cap on decoding steps: keeps a run bounded when a mutant breaks termination"""
    return 6 * int(td["action_mask"].shape[-1]) + 60


def _hexes(t):
    return [float(x).hex() for x in t.detach().flatten().tolist()]


def _decode_kwargs(plan):
    kn = plan["knobs"]
    kw = {"temperature": kn["temperature"], "top_k": kn["top_k"], "top_p": kn["top_p"]}
    if kn["tanh_clipping"] is not None:
        kw["tanh_clipping"] = kn["tanh_clipping"]
    return kw


def _check_tap_alignment(run, scope, what, tap, actions, ll, step_mask, forced, plan, entropy=None):
    """Oracle (i) on one tapped forward whose output rows are the tap's rows.

    actions [R,T]; ll [R,T] (per step) or [R] (sum); step_mask [R,T] bool tensor or None."""
    R, T = actions.shape
    recs = tap.records
    if len(recs) + forced < T:
        run.violate(scope, "loglik_vs_reference", f"{what}: {T} returned steps but only {len(recs)} decoding "
                    f"steps (+{forced} forced) were taken", constraint="step_count", what=what, mode=plan["mode"])
        raise StopRun()
    per_step = ll.dim() == 2
    exp = np.zeros((R, T))
    scl = np.zeros((R, T))
    ent = np.zeros(R)
    filt = False
    for t in range(forced, T):
        r = recs[t - forced]
        if r.logits.shape[0] != R:
            raise HarnessError(f"tap rows {r.logits.shape[0]} != output rows {R} ({what})")
        mask = None if r.mask is None else r.mask.numpy()
        active = (r.top_k and r.top_k > 0) or (r.top_p and r.top_p > 0)
        lp, scale = ref_logp(r.logits.numpy(), mask, r.temperature, r.tanh_clipping)
        if active:
            filt = True
            out = r.logprobs.double().numpy()
            # sanity on the tapped distribution (C10 owns the full set of invariants)
            s = np.exp(out).sum(-1)
            if not np.allclose(s, 1.0, atol=1e-4) or (mask is not None and np.isfinite(out[~mask]).any()):
                run.violate(scope, "tapped_distribution", f"{what}: filtered step distribution is not a "
                            f"distribution over feasible actions (sum={s.tolist()})", constraint="proper",
                            step=t, what=what)
                raise StopRun()
            # the filter may only remove entries, never re-weight relative to the unfiltered reference
            lp = out
        a = actions[:, t].numpy()
        exp[:, t] = lp[np.arange(R), a]
        scl[:, t] = scale
        for i in range(R):
            ent[i] += ref_entropy(lp[i])
    if filt:
        run.probe("filter_active")
    if forced:
        run.probe("forced_step_zero")
    if step_mask is not None:
        sm = step_mask.numpy().astype(bool)
        if sm.shape != exp.shape:
            raise HarnessError(f"step mask {sm.shape} vs actions {exp.shape}")
        exp = np.where(sm, exp, 0.0)
        run.probe("step_mask_applied")
    if not np.isfinite(exp).all():
        bad = np.argwhere(~np.isfinite(exp))[0].tolist()
        run.violate(scope, "loglik_vs_reference", f"{what}: action {int(actions[bad[0], bad[1]])} of row {bad[0]} "
                    f"at step {bad[1]} has zero probability under the reference step distribution",
                    constraint="zero_probability_action", row=bad[0], step=bad[1], what=what, mode=plan["mode"])
        raise StopRun()
    got = ll.detach().double().numpy()
    if per_step:
        for i in range(R):
            for t in range(T):
                if abs(got[i, t] - exp[i, t]) > tol(exp[i, t], scl[i, t]):
                    kindc = "forced_step_nonzero" if t < forced else (
                        "masked_step_nonzero" if step_mask is not None and not bool(step_mask[i, t]) else "per_step")
                    run.violate(scope, "loglik_vs_reference", f"{what}: row {i} step {t}: returned log-prob "
                                f"{got[i, t]!r} != reference log-prob of the taken action {exp[i, t]!r}",
                                constraint=kindc, row=i, step=t, got=float(got[i, t]), ref=float(exp[i, t]),
                                what=what, mode=plan["mode"], k=plan["k"], knobs=plan["knobs"])
                    raise StopRun()
    else:
        for i in range(R):
            e = float(exp[i].sum())
            if abs(got[i] - e) > tol(e, float(scl[i].max(initial=0.0)), T):
                run.violate(scope, "loglik_vs_reference", f"{what}: row {i}: returned log-likelihood {got[i]!r} "
                            f"!= sum of reference log-probs of the taken actions {e!r}", constraint="sum",
                            row=i, got=float(got[i]), ref=e, what=what, mode=plan["mode"], k=plan["k"],
                            knobs=plan["knobs"])
                raise StopRun()
    return exp, ent


def _raw_scale(tap):
    """largest finite raw-logit magnitude seen by a tap: float32 noise of the network itself scales with it
    (unscaled CVRPTW features give raw logits in the thousands before the tanh clip); two runs in different
    batch layouts legitimately differ by a few ulps of that magnitude"""
    m = 0.0
    for r in getattr(tap, "records", []):
        lg = r.logits
        f = lg[torch.isfinite(lg)]
        if f.numel():
            m = max(m, float(f.abs().max()))
    return m


def _compare(run, scope, variant, out1, out2, forced, plan, h0=None, raw_scale=0.0):
    """Oracle (ii): run 2 (evaluate) reproduces run 1 from step `forced` on."""
    ulp = 16 * 1.1920929e-07 * raw_scale
    # a real network in train mode (batch statistics in its normalisation layers) replayed in ANOTHER batch layout
    # (k-fold expanded rows instead of B rows expanded after the encoder): the statistics are sums over a different
    # number of (duplicate) rows, and on graphs of 4-9 nodes the normalisation amplifies that float32 difference to
    # 1e-4 in a log-probability (thorough soak, seed 62: 2.5e-4).  Same-layout replays keep the tight band.
    lay = 25.0 if (plan.get("train_mode") and variant != "same" and plan.get("kind") != "scripted") else 1.0
    a1 = out1["actions"]
    ll1, ll2 = out1["log_likelihood"].detach().double(), out2["log_likelihood"].detach().double()
    R, T1 = a1.shape
    T2 = ll2.shape[1]
    T = min(T1, T2)
    if ll2.shape[0] != R:
        run.violate(scope, "evaluate_roundtrip", f"[{variant}] evaluate returned {ll2.shape[0]} rows for {R} "
                    "action rows", constraint="rows", variant=variant)
        raise StopRun()
    if ll1.dim() == 2:
        # a best-selected sequence may carry padding steps of its longer batch-mates: those are log 1 = 0
        for i in range(R):
            for t in range(forced, max(T1, T2)):
                x = float(ll1[i, t]) if t < T1 else 0.0
                y = float(ll2[i, t]) if t < T2 else 0.0
                if abs(x - y) > tol(x, 0.0) * 4 * lay + ulp:
                    run.violate(scope, "evaluate_roundtrip", f"[{variant}] row {i} step {t}: decode-time log-prob "
                                f"{x!r} != evaluate-mode log-prob {y!r} of the same action", constraint="per_step",
                                variant=variant, row=i, step=t, got=y, ref=x, mode=plan["mode"], k=plan["k"],
                                select_best=plan["select_best"], knobs=plan["knobs"], train_mode=plan["train_mode"])
                    raise StopRun()
    else:
        s2 = ll2[:, forced:].sum(-1)
        for i in range(R):
            x, y = float(ll1[i]), float(s2[i])
            if abs(x - y) > tol(x, 0.0, T) * 4 * lay + ulp * T:
                run.violate(scope, "evaluate_roundtrip", f"[{variant}] row {i}: decode-time log-likelihood {x!r} != "
                            f"evaluate-mode sum {y!r} over the same actions", constraint="sum", variant=variant,
                            row=i, got=y, ref=x, mode=plan["mode"], k=plan["k"], select_best=plan["select_best"],
                            knobs=plan["knobs"], train_mode=plan["train_mode"])
                raise StopRun()
    r1, r2 = out1["reward"].detach().double().flatten(), out2["reward"].detach().double().flatten()
    for i in range(R):
        x, y = float(r1[i]), float(r2[i])
        if abs(x - y) > tol(x, 0.0, T):
            run.violate(scope, "evaluate_roundtrip", f"[{variant}] row {i}: reward {x!r} at decode time, {y!r} when "
                        "the same actions are evaluated", constraint="reward", variant=variant, row=i, got=y, ref=x,
                        mode=plan["mode"], k=plan["k"])
            raise StopRun()
    if "entropy" in out1 and "entropy" in out2:
        e1, e2 = out1["entropy"].detach().double().flatten(), out2["entropy"].detach().double().flatten()
        for i in range(R):
            x = float(e1[i])
            y = float(e2[i]) - (float(h0[i]) if (forced and h0 is not None) else 0.0)
            if abs(x - y) > tol(x, 0.0, T) * 4 * lay + ulp * T:
                run.violate(scope, "evaluate_roundtrip", f"[{variant}] row {i}: entropy {x!r} at decode time, {y!r} in "
                            "evaluate mode (forced step excluded)", constraint="entropy", variant=variant, row=i,
                            got=y, ref=x, mode=plan["mode"], k=plan["k"])
                raise StopRun()


# --------------------------------------------------------------------------------------------------
# scenario: record / replay through ConstructivePolicy
# --------------------------------------------------------------------------------------------------
def _execute_roundtrip(run):
    from rl4co.utils.ops import batchify

    plan = run.plan
    env, pol, td, scope = _setup(run)
    kind, name = plan["kind"], plan["cfg"]["env"]
    mode, k, sel = plan["mode"], plan["k"], plan["select_best"]
    B = td.batch_size[0]
    if plan["step_mask"] is not None:
        td["mask"] = torch.tensor(plan["step_mask"], dtype=torch.bool)
    dk = _decode_kwargs(plan)
    on_policy = bool(plan.get("knobs_on_policy")) and hasattr(pol, "temperature") and hasattr(pol, "tanh_clipping")
    if on_policy:
        pol.temperature = dk.pop("temperature")
        if "tanh_clipping" in dk:
            pol.tanh_clipping = dk.pop("tanh_clipping")
    kw1 = dict(dk)
    if mode == "multisample":
        kw1.update(decode_type="sampling", num_samples=k)
    elif mode == "beam_search":
        kw1.update(decode_type="beam_search", beam_width=k, select_best=sel)
    elif mode.startswith("multistart"):
        kw1.update(decode_type=mode, num_starts=k)
    else:
        kw1.update(decode_type=mode)
    if mode != "beam_search" and k > 1:
        kw1["select_best"] = sel
    forced = 1 if (mode.startswith("multistart") or mode == "beam_search") else 0
    nontrivial = k > 1 or plan["step_mask"] is not None or any(
        plan["knobs"][x] not in (None, 0, 0.0, 1.0) for x in ("top_k", "top_p", "tanh_clipping")) or \
        plan["knobs"]["temperature"] != 1.0
    run.nontrivial = bool(nontrivial)

    # ---- run 1 ---------------------------------------------------------------------------------
    torch.manual_seed(plan["sample_seed"])
    with torch.no_grad(), ProcessTap() as tap1:
        with run.guard(scope, f"policy forward ({mode})", mode=mode, k=k, B=B):
            out1 = pol(td.clone(), env, phase="test", return_actions=True,
                       return_entropy=plan["ret_entropy"], max_steps=_max_steps(td),
                       return_sum_log_likelihood=plan["ret_sum"], **kw1)
    a1 = out1["actions"]
    R = a1.shape[0]
    run.tick(len(tap1.records))
    run.state(scope, mode, k, sel, tuple(a1.shape))
    run.log.add("run1", mode, k, sel, a1.tolist(), _hexes(out1["log_likelihood"]), _hexes(out1["reward"]))
    expect_rows = B if (sel or k == 1) else B * k
    if R != expect_rows:
        run.violate(scope, "output_rows", f"{mode} k={k} select_best={sel}: {R} output rows for batch {B}",
                    constraint="rows", mode=mode, k=k)
        raise StopRun()
    aligned = not (mode == "beam_search" or (sel and k > 1))
    sm_full = None
    if plan["step_mask"] is not None:
        sm = torch.tensor(plan["step_mask"], dtype=torch.bool)
        sm_full = sm if R == B else batchify(sm, k)
    if aligned:
        _check_tap_alignment(run, scope, "run1", tap1, a1, out1["log_likelihood"], sm_full, forced, plan)
    elif forced and not plan["ret_sum"]:
        # beam / best-of-k: rows were re-indexed, but the forced step must still contribute 0
        z = out1["log_likelihood"][:, 0].detach().double().abs().max()
        if float(z) != 0.0:
            run.violate(scope, "loglik_vs_reference", f"forced first move contributes {float(z)!r} to the "
                        "log-likelihood", constraint="forced_step_nonzero", mode=mode, k=k)
            raise StopRun()
        run.probe("forced_step_zero")

    if on_policy:
        # interleaved call on the same policy object with other call-time knobs (its output is discarded)
        torch.manual_seed(plan["sample_seed"] + 5)
        with torch.no_grad():
            with run.guard(scope, "interleaved policy call with call-time temperature / tanh_clipping", promise=False):
                pol(td.clone().flip(0) if hasattr(td, "flip") else td.clone(), env, phase="test", decode_type="sampling",
                    temperature=float(pol.temperature) * 2.0 + 0.25, tanh_clipping=5.0, max_steps=_max_steps(td))
        run.fault("interleaved_call")
        run.nontrivial = True

    # ---- run 2: replay in evaluate mode -------------------------------------------------------
    variants = []
    if R == B:
        variants.append(("same", td.clone(), {}))
    else:
        if kind not in ("matnet", "polynet"):
            variants.append(("expanded", batchify(td.clone(), k), {}))
        if kind != "nar":
            variants.append(("num_samples", td.clone(), {"num_samples": k}))
    if kind == "polynet" and R == B and k > 1:
        variants = []
    ret_e2 = plan["ret_entropy"] or plan["ret_entropy2"]
    for vname, td2, extra in variants:
        # A forced first move was never drawn from the policy: replayed as an ordinary step it may have
        # a log-prob below the -1000 floor asserted in get_log_likelihood.  Where the episode length of
        # the replay is known beforehand (no best-selection) step 0 is flagged irrelevant through
        # td["mask"]; otherwise such a replay is skipped (counted).
        sm_run2 = sm_full
        if forced and R != B:
            sm_run2 = torch.ones(a1.shape, dtype=torch.bool) if sm_full is None else sm_full.clone()
            sm_run2[:, 0] = False
            td2["mask"] = sm_run2[:B] if vname == "num_samples" else sm_run2
        torch.manual_seed(plan["sample_seed"])
        skipped = False
        with torch.no_grad(), ProcessTap() as tap2:
            with run.guard(scope, f"policy forward (evaluate, {vname})", mode=mode, k=k, B=B, variant=vname):
                try:
                    out2 = pol(td2, env, phase="test", actions=a1, return_actions=True, return_entropy=ret_e2,
                               return_sum_log_likelihood=False, max_steps=a1.shape[1] + 2, **dk, **extra)
                except AssertionError as e:
                    lp0 = tap2.records[0].logprobs if tap2.records else None
                    if (forced and lp0 is not None and "Logprobs should not be -inf" in str(e)
                            and bool((lp0.gather(1, a1[:, :1]) <= -1000).any())):
                        skipped = True
                    else:
                        raise
        if skipped:
            run.probe("forced_move_below_assert_floor")
            continue
        run.tick(len(tap2.records))
        a2 = out2["actions"]
        T2 = a2.shape[1]
        if not torch.equal(a2, a1[:, :T2]) or (a1.shape[1] > T2 and R != B):
            run.violate(scope, "evaluate_roundtrip", f"[{vname}] evaluate mode returned other actions than it was fed",
                        constraint="actions", variant=vname, mode=mode, k=k)
            raise StopRun()
        sm2 = None if sm_run2 is None else sm_run2[:, :T2]
        _, _ = _check_tap_alignment(run, scope, f"run2[{vname}]", tap2, a2, out2["log_likelihood"], sm2, 0, plan)
        h0 = None
        if forced:
            lp0 = tap2.records[0].logprobs.double().numpy()
            h0 = [ref_entropy(lp0[i]) for i in range(R)]
        _compare(run, scope, vname, out1, out2, forced, plan, h0, raw_scale=_raw_scale(tap2))
        run.log.add("run2", vname, _hexes(out2["log_likelihood"]))
        run.probe({"same": "roundtrip_same", "expanded": "roundtrip_expanded",
                   "num_samples": "roundtrip_num_samples"}[vname])
        if sel and k > 1:
            run.probe("select_best_roundtrip")
        if mode == "beam_search":
            run.probe("beam_roundtrip")
    run.summary = {"actions": a1.tolist(), "variants": [v[0] for v in variants]}


# --------------------------------------------------------------------------------------------------
# pointer network
# --------------------------------------------------------------------------------------------------
def _execute_ptrnet(run):
    plan = run.plan
    env, pol, td, scope = _setup(run)
    mode = plan["mode"]
    B = td.batch_size[0]
    if plan["step_mask"] is not None:
        td["mask"] = torch.tensor(plan["step_mask"], dtype=torch.bool)
        run.nontrivial = True
    phase = "train" if plan["train_mode"] else "test"
    torch.manual_seed(plan["sample_seed"])
    with torch.no_grad(), PtrNetTap() as tap1:
        with run.guard(scope, f"policy forward ({mode})"):
            out1 = pol(td.clone(), env, phase=phase, decode_type=mode)
    a1 = out1["actions"]
    run.tick(len(tap1.records))
    run.log.add("run1", mode, a1.tolist(), _hexes(out1["log_likelihood"]), _hexes(out1["reward"]))
    sm = None if plan["step_mask"] is None else torch.tensor(plan["step_mask"], dtype=torch.bool)
    _check_tap_alignment(run, scope, "run1", tap1, a1, out1["log_likelihood"], sm, 0, plan)
    torch.manual_seed(plan["sample_seed"])
    with torch.no_grad(), PtrNetTap() as tap2:
        with run.guard(scope, "policy forward (eval_tours)"):
            out2 = pol(td.clone(), env, phase=phase, decode_type=mode, eval_tours=a1)
    if not torch.equal(out2["actions"], a1):
        run.violate(scope, "evaluate_roundtrip", "eval_tours: returned actions differ from the tours fed back",
                    constraint="actions", variant="eval_tours")
        raise StopRun()
    _check_tap_alignment(run, scope, "run2[eval_tours]", tap2, a1, out2["log_likelihood"], sm, 0, plan)
    _compare(run, scope, "eval_tours", {"actions": a1, "log_likelihood": out1["log_likelihood"],
                                        "reward": out1["reward"]},
             {"log_likelihood": out2["log_likelihood"].unsqueeze(1), "reward": out2["reward"]}, 0, plan)
    run.probe("roundtrip_same")
    run.summary = {"actions": a1.tolist()}


# --------------------------------------------------------------------------------------------------
# MDAM (clause (i) only)
# --------------------------------------------------------------------------------------------------
def _execute_mdam(run):
    plan = run.plan
    env, pol, td, scope = _setup(run)
    mode = plan["mode"]
    B = td.batch_size[0]
    phase = "train" if plan["train_mode"] else "test"
    torch.manual_seed(plan["sample_seed"])
    with torch.no_grad(), MDAMTap() as tap:
        with run.guard(scope, f"policy forward ({mode})"):
            out = pol(td.clone(), env, phase=phase, decode_type=mode)
    ll = out["log_likelihood"].detach().double()
    run.tick(len(tap.records))
    paths = sorted({r.path for r in tap.records})
    run.log.add("mdam", mode, out["actions"].tolist(), _hexes(ll))
    if ll.shape != (B, len(paths)):
        run.violate(scope, "output_rows", f"log_likelihood shape {tuple(ll.shape)} for batch {B} and {len(paths)} paths",
                    constraint="rows")
        raise StopRun()
    for pi, p in enumerate(paths):
        recs = [r for r in tap.records if r.path == p]
        exp = np.zeros(B)
        scale = 0.0
        for t, r in enumerate(recs):
            lp, sc = ref_logp(r.logits.numpy(), r.mask.numpy(), 1.0, 0.0)
            a = r.action.numpy()
            exp += lp[np.arange(B), a]
            scale = max(scale, float(sc.max()))
            raw = r.logits.double().numpy()
            s = np.exp(np.where(np.isfinite(raw), raw, -np.inf)).sum(-1)
            if t == 0 and pi == 0:
                run.summary = {"sum_exp_step0": s.tolist()}
        for i in range(B):
            if abs(float(ll[i, pi]) - exp[i]) > tol(exp[i], scale, len(recs)):
                run.violate(scope, "loglik_vs_reference", f"path {p} row {i}: returned log-likelihood "
                            f"{float(ll[i, pi])!r} != sum of log-probabilities of the taken actions under the masked, "
                            f"normalised step distribution {float(exp[i])!r}", constraint="mdam_not_normalised",
                            row=i, path=int(p), got=float(ll[i, pi]), ref=float(exp[i]), mode=mode)
                raise StopRun()
        if pi == len(paths) - 1:
            # the returned actions are those of the last path
            acts = torch.stack([r.action for r in recs], 1)
            if not torch.equal(acts, out["actions"]):
                run.violate(scope, "loglik_vs_reference", "returned actions are not those taken on the last path",
                            constraint="mdam_actions")
                raise StopRun()
    run.probe("mdam_paths", len(paths))


# --------------------------------------------------------------------------------------------------
# PPO: first inner-step ratio
# --------------------------------------------------------------------------------------------------
def _execute_ppo(run):
    plan = run.plan
    cfg = plan["cfg"]
    scope = "ppo:" + _scope(plan)
    rows = [E.dec_row(r) for r in plan["instances"]]
    B = len(rows)
    with run.guard(scope, "construct env"):
        env = E.make_env(cfg)
    with run.guard(scope, "construct policy"):
        pol = P.make_policy(plan["kind"], cfg["env"], plan["policy_seed"])
    from rl4co.models.rl.ppo.ppo import PPO

    mini = {"int": B, "float": 1.0, "bigger": B + 3}[plan["ppo"]["mini"]]
    torch.manual_seed(plan["policy_seed"] + 1)
    with run.guard(scope, "construct PPO"):
        model = PPO(env, pol, critic_kwargs=dict(embed_dim=P.EMBED), mini_batch_size=mini,
                    ppo_epochs=plan["ppo"]["epochs"], normalize_adv=plan["ppo"]["normalize_adv"],
                    batch_size=B, train_data_size=B, val_data_size=B, test_data_size=B)
    model.train()
    calls = []
    orig = pol.forward

    def fwd(td, *a, **kw):
        # snapshot before the call: the decoding loop writes td["action"] in place
        pre = {key: td[key].detach().clone() for key in ("logprobs", "action", "reward") if key in td.keys()}
        pre["rows"] = td.batch_size[0]
        out = orig(td, *a, **kw)
        calls.append((pre, kw, out))
        return out

    pol.forward = fwd
    opt = torch.optim.SGD(list(pol.parameters()) + list(model.critic.parameters()), lr=1e-3)
    model.optimizers = lambda: opt
    model.manual_backward = lambda loss, *a, **k: loss.backward()
    model.clip_gradients = lambda *a, **k: None
    model.log_dict = lambda *a, **k: None
    batch = E.batch_of(cfg, [{k: v.clone() for k, v in r.items()} for r in rows])
    torch.manual_seed(plan["sample_seed"])
    with run.guard(scope, "PPO.shared_step(train)"):
        model.shared_step(batch, 0, "train")
    if len(calls) < 2:
        raise HarnessError("PPO made fewer than two policy calls")
    td0, kw0, out0 = calls[0]
    td1, kw1, out1 = calls[1]
    if td1["rows"] != B or "logprobs" not in td1 or kw1.get("actions") is None:
        raise HarnessError(f"first PPO inner call: {td1['rows']} rows, keys {sorted(td1)}; expected the whole batch {B}")
    new = out1["log_likelihood"].detach().double().sum(-1)
    old = td1["logprobs"].detach().double()
    ratio = torch.exp(new - old)
    run.tick(1)
    run.nontrivial = True
    run.log.add("ppo", _hexes(old), [round(float(x), 6) for x in ratio])
    # the mini-batch is a permutation of the batch: every row must carry its own old log-prob / action
    a0, ll0 = out0["actions"], out0["log_likelihood"].detach().double()
    for i in range(B):
        match = [j for j in range(B) if torch.equal(kw1["actions"][i], a0[j]) and
                 abs(float(ll0[j]) - float(old[i])) == 0.0]
        if not match:
            run.violate(scope, "ppo_ratio", f"mini-batch row {i} carries an (action, old log-prob) pair that no rollout "
                        "row produced", constraint="pairing", row=i)
            raise StopRun()
    for i in range(B):
        if abs(float(ratio[i]) - 1.0) > 1e-5 * math.sqrt(max(1, out1["log_likelihood"].shape[-1])):
            run.violate(scope, "ppo_ratio", f"first inner-step probability ratio of row {i} is {float(ratio[i])!r}, not 1 "
                        f"(old log-likelihood {float(old[i])!r}, re-evaluated {float(new[i])!r})",
                        constraint="ratio_not_one", row=i, ratio=float(ratio[i]), old=float(old[i]),
                        new=float(new[i]))
            raise StopRun()
    run.probe("ppo_ratio")
    run.summary = {"ratio": [float(x) for x in ratio], "calls": len(calls)}


# --------------------------------------------------------------------------------------------------
# step-wise PPO (L2DPolicy4PPO.act / .evaluate, StepwisePPO.update, L2DPPOModel)
# --------------------------------------------------------------------------------------------------
_F32_EPS = 1.1920929e-07


def _stepwise_cfg(name, rc):
    """tiny FJSP / JSSP configuration (2-4 jobs, 2-3 machines, <= 3 operations per job) with the step-wise reward
    StepwisePPO.shared_step asks the environment for"""
    cfg = P.env_cfg_for("l2d", name, 5, rc)
    g = cfg["gen"]
    g["num_jobs"] = min(int(g["num_jobs"]), 4)
    g["num_machines"] = min(int(g["num_machines"]), 3)
    if "max_ops_per_job" in g:
        g["max_ops_per_job"] = min(int(g["max_ops_per_job"]), 3)
        g["min_ops_per_job"] = min(int(g["min_ops_per_job"]), g["max_ops_per_job"])
    cfg["n"] = g["num_jobs"]
    cfg["kw"]["stepwise_reward"] = True
    return cfg


def _min_episode_steps(cfg):
    """lower bound on the episode length: every operation of an instance is one scheduling step"""
    g = cfg["gen"]
    per_job = g.get("min_ops_per_job", g["num_machines"])  # one2one JSSP: one operation per machine
    return int(g["num_jobs"]) * int(per_job)


def _plan_stepwise(st, rc, pool, tier):
    name = pool[rc.randrange(len(pool))]
    cfg = _stepwise_cfg(name, rc)
    # test_l2d_ppo builds the environment with _torchrl_mode=True, the hydra configs without
    cfg["kw"]["_torchrl_mode"] = rc.random() < 0.5
    env = E.make_env(cfg)
    B = rc.choice([2, 2, 3, 4])
    nb = rc.choice([2, 2, 3])
    rows = E.gen_rows(env, cfg, B * nb, st.torch_seed("instances"))
    normalization = rc.choice(["batch", "batch", "instance"])
    # mini-batch <= transitions of one rollout (SamplerWithoutReplacement(drop_last=True): a bigger mini-batch
    # yields no mini-batch at all)
    mini = min(B * _min_episode_steps(cfg), B * rc.choice([1, 2, 4]))
    return {"scenario": "stepwise_ppo", "kind": "l2d4ppo", "cfg": cfg, "instances": [E.enc_row(r) for r in rows],
            "policy_seed": rc.randrange(1 << 20), "sample_seed": rc.randrange(1 << 30),
            # BatchNorm in train mode normalises with the statistics of whatever batch it is given (rollout batch vs
            # sampled mini-batch): only the per-sample instance normalisation is run in train mode
            "train_mode": normalization == "instance" and rc.random() < 0.5,
            "stepwise": {"B": B, "batches": nb, "temperature": rc.choice([0.5, 1.0, 2.0]),
                         "tanh_clipping": rc.choice([0, 10]), "normalization": normalization,
                         "epochs": rc.randint(1, 2), "mini": mini,
                         "optimizer": (opt := rc.choice(["Adam", "SGD"])),
                         # large enough for one update to move the log-probs well beyond the tolerance (a stale
                         # policy_old must show); gradients are clipped to norm 0.5 by StepwisePPO itself
                         "lr": rc.choice([1e-3, 1e-2] if opt == "Adam" else [1e-2, 1e-1]),
                         "clip_range": rc.choice([0.2, 0.1])}}


def _shrink_stepwise(plan):
    sw = plan["stepwise"]
    if sw["batches"] > 2:
        p = copy.deepcopy(plan)
        p["stepwise"]["batches"] -= 1
        del p["instances"][-sw["B"]:]
        yield p
    if sw["epochs"] > 1:
        p = copy.deepcopy(plan)
        p["stepwise"]["epochs"] = 1
        yield p
    for key, dflt in (("temperature", 1.0), ("tanh_clipping", 10), ("normalization", "batch"), ("optimizer", "SGD")):
        if sw[key] != dflt:
            p = copy.deepcopy(plan)
            p["stepwise"][key] = dflt
            if key == "normalization":
                p["train_mode"] = False
            yield p
    if plan.get("train_mode"):
        p = copy.deepcopy(plan)
        p["train_mode"] = False
        yield p


@contextlib.contextmanager
def _quiet_logger(name):
    """L2DPolicy logs 'Unused kwargs' for every constructor argument it forwards to ConstructivePolicy"""
    import logging

    lg = logging.getLogger(name)
    old = lg.level
    lg.setLevel(logging.ERROR)
    try:
        yield
    finally:
        lg.setLevel(old)


def _execute_stepwise(run):
    import rl4co.models.zoo.l2d.policy as l2dpol
    from rl4co.models.zoo.l2d.model import L2DPPOModel

    plan = run.plan
    cfg, sw = plan["cfg"], plan["stepwise"]
    scope = "stepwise_ppo:" + _scope(plan)
    B, nb = sw["B"], sw["batches"]
    rows = [E.dec_row(r) for r in plan["instances"]]
    if len(rows) != B * nb:
        raise HarnessError(f"{len(rows)} instances for {nb} batches of {B}")
    with run.guard(scope, "construct env"):
        env = E.make_env(cfg)
    torch.manual_seed(plan["policy_seed"])
    with run.guard(scope, "construct L2DPPOModel(policy_kwargs=...)"), _quiet_logger(l2dpol.__name__):
        # het_emb=True: the homogeneous JSSP feature extractor (GCN4JSSP) needs torch_geometric
        model = L2DPPOModel(env, policy_kwargs=dict(embed_dim=P.EMBED, num_encoder_layers=1, het_emb=True,
                                                    temperature=sw["temperature"], tanh_clipping=sw["tanh_clipping"],
                                                    normalization=sw["normalization"]),
                            clip_range=sw["clip_range"], ppo_epochs=sw["epochs"], mini_batch_size=sw["mini"],
                            buffer_size=4096, batch_size=B, train_data_size=B * nb, val_data_size=B,
                            test_data_size=B, optimizer=sw["optimizer"], optimizer_kwargs={"lr": sw["lr"]})
    pol, pol_old = model.policy, model.policy_old
    if not isinstance(pol, l2dpol.L2DPolicy4PPO) or pol_old is pol:
        raise HarnessError("L2DPPOModel did not build an L2DPolicy4PPO and a separate policy_old")
    if float(pol.temperature) != float(sw["temperature"]) or float(pol.tanh_clipping) != float(sw["tanh_clipping"]):
        raise HarnessError(f"policy_kwargs not forwarded: temperature {pol.temperature}, tanh_clipping {pol.tanh_clipping}")
    # BatchNorm on running statistics (eval); instance normalisation is per sample, so it may also run in train()
    model.train() if plan["train_mode"] else model.eval()
    norms = sorted({type(m).__name__ for m in model.modules() if "Norm" in type(m).__name__})
    if plan["train_mode"] and any("BatchNorm" in n for n in norms):
        raise HarnessError(f"train mode with {norms}")
    run.nontrivial = True
    run.state(scope, sw["temperature"], sw["tanh_clipping"], sw["normalization"], plan["train_mode"], sw["epochs"],
              sw["optimizer"])

    # ---- (A) act / evaluate round trip ----------------------------------------------------------
    with run.guard(scope, "env.reset"):
        next_td = env.reset(E.batch_of(cfg, [{k: v.clone() for k, v in r.items()} for r in rows[:B]]))
    recorded = []
    cap = 8 * int(next_td["action_mask"].shape[-1]) + 80
    while not bool(next_td["done"].all()):
        if len(recorded) >= cap:
            run.violate(scope, "stepwise_ppo_ratio", f"episode not finished after {cap} act/step rounds",
                        constraint="termination")
            raise StopRun()
        torch.manual_seed(run.streams.torch_seed(f"act-{len(recorded)}"))
        with torch.no_grad(), ProcessTap(l2dpol) as tap:
            with run.guard(scope, "policy_old.act(td, env, phase='train')", step=len(recorded)):
                td = pol_old.act(next_td, env, phase="train")
        if len(tap.records) != 1:
            raise HarnessError(f"act made {len(tap.records)} process_logits calls")
        recorded.append((td.clone(), tap.records[0]))
        with run.guard(scope, "env.step", step=len(recorded) - 1):
            next_td = env.step(td)["next"]
        run.tick()
    for t, (state, r1) in enumerate(recorded):
        act, old = state["action"], state["logprobs"].detach().double()
        with torch.no_grad(), ProcessTap(l2dpol) as tap:
            with run.guard(scope, "policy.evaluate(recorded state)", step=t):
                new, value, ent = pol.evaluate(state.clone())
        if len(tap.records) != 1:
            raise HarnessError(f"evaluate made {len(tap.records)} process_logits calls")
        r2 = tap.records[0]
        new, ent = new.detach().double(), ent.detach().double()
        if tuple(new.shape) != (B,) or tuple(old.shape) != (B,) or value.shape[0] != B:
            run.violate(scope, "stepwise_ppo_ratio", f"step {t}: evaluate returned log-probs {tuple(new.shape)} / values "
                        f"{tuple(value.shape)} for stored log-probs {tuple(old.shape)} of a batch of {B}",
                        constraint="shape", step=t)
            raise StopRun()
        run.log.add("sw_step", t, act.tolist(), _hexes(old), _hexes(new))
        mask1 = None if r1.mask is None else r1.mask.numpy()
        # the distribution act sampled from, under the knobs evaluate hands to process_logits
        ref, scale = ref_logp(r1.logits.numpy(), mask1, r2.temperature, r2.tanh_clipping)
        raw = max(float(r1.logits[torch.isfinite(r1.logits)].abs().max()), float(r2.logits[torch.isfinite(r2.logits)].abs().max()))
        ulp = 16 * _F32_EPS * raw
        knobs = {"act": [r1.temperature, r1.tanh_clipping], "evaluate": [r2.temperature, r2.tanh_clipping],
                 "policy": [sw["temperature"], sw["tanh_clipping"]]}
        for i in range(B):
            a = int(act[i])
            if mask1 is not None and not bool(mask1[i, a]):
                run.violate(scope, "stepwise_ppo_ratio", f"step {t} row {i}: act took the masked action {a}",
                            constraint="infeasible_action", step=t, row=i)
                raise StopRun()
            x, y, z = float(old[i]), float(new[i]), float(ref[i, a])
            if abs(x - z) > tol(z, float(scale[i])) + ulp:
                run.violate(scope, "stepwise_ppo_ratio", f"step {t} row {i}: log-prob stored by act {x!r} is not the "
                            f"masked log-softmax value {z!r} of the taken action {a} under the knobs evaluate uses "
                            f"(temperature, tanh clip: act {knobs['act']}, evaluate {knobs['evaluate']})",
                            constraint="act_distribution", step=t, row=i, got=x, ref=z, knobs=knobs)
                raise StopRun()
            if abs(x - y) > tol(x) + ulp:
                run.violate(scope, "stepwise_ppo_ratio", f"step {t} row {i}: evaluate re-scores action {a} with {y!r}, act "
                            f"stored {x!r}: ratio {math.exp(y - x)!r} before any update",
                            constraint="roundtrip", step=t, row=i, got=y, ref=x, ratio=math.exp(y - x), knobs=knobs)
                raise StopRun()
            h = ref_entropy(ref[i])
            if abs(float(ent[i]) - h) > tol(h) * 4 + ulp:
                run.violate(scope, "stepwise_ppo_ratio", f"step {t} row {i}: evaluate's entropy {float(ent[i])!r} is not "
                            f"that of the distribution act sampled from ({h!r})", constraint="entropy", step=t, row=i,
                            got=float(ent[i]), ref=h)
                raise StopRun()
    run.probe("stepwise_roundtrip")
    if sw["temperature"] != 1.0:
        run.probe("stepwise_temperature_on_policy")

    # ---- (B) consecutive updates: first mini-batch of every update --------------------------------
    with run.guard(scope, "configure_optimizers"):
        opt = model.configure_optimizers()
    if not isinstance(opt, torch.optim.Optimizer):
        raise HarnessError(f"configure_optimizers returned {type(opt).__name__}")
    counters = {"opt_steps": 0, "evals": 0}
    captures = []
    opt_step = opt.step

    def step(*a, **k):
        counters["opt_steps"] += 1
        return opt_step(*a, **k)

    opt.step = step
    params = [p for g in opt.param_groups for p in g["params"]]
    model.optimizers = lambda: opt
    model.manual_backward = lambda loss, *a, **k: loss.backward()
    model.clip_gradients = lambda o, gradient_clip_val=None, gradient_clip_algorithm=None: \
        torch.nn.utils.clip_grad_norm_(params, gradient_clip_val)
    model.log_dict = lambda *a, **k: None
    evaluate = pol.evaluate
    tap_b = ProcessTap(l2dpol)

    def tapped_evaluate(td_mb):
        first = counters["evals"] == 0
        pre = td_mb["logprobs"].detach().clone() if first else None
        n0 = len(tap_b.records)
        out = evaluate(td_mb)
        counters["evals"] += 1
        if first:
            recs = tap_b.records[n0:]
            raw = max([float(r.logits[torch.isfinite(r.logits)].abs().max()) for r in recs] or [0.0])
            # conditioning yardstick: the same states scored one by one by the same network.  The rollout scored
            # them in batches of B states of one step, the update scores a mini-batch of mixed steps; instance
            # normalisation over 4-9 nodes can amplify float32 layout noise to 1e-4..1e-3, which is not a stale
            # policy.  The layout sensitivity measured here bounds what rounding alone can do.
            layout = 0.0
            try:
                with torch.no_grad():
                    alone = torch.cat([evaluate(td_mb[i:i + 1].clone())[0].detach().reshape(-1)
                                       for i in range(int(td_mb.batch_size[0]))])
                layout = float((alone.double() - out[0].detach().reshape(-1).double()).abs().max())
            except Exception:  # noqa: BLE001 - scoring a single state is not what the update does; yardstick only
                layout = 0.0
            captures.append({"old": pre, "new": out[0].detach().clone(), "opt_steps": counters["opt_steps"],
                             "rows": int(td_mb.batch_size[0]), "raw": raw, "layout": layout})
        del tap_b.records[:]
        return out

    pol.evaluate = tapped_evaluate
    ratios = []
    try:
        for b in range(nb):
            batch = E.batch_of(cfg, [{k: v.clone() for k, v in r.items()} for r in rows[b * B:(b + 1) * B]])
            counters["opt_steps"] = counters["evals"] = 0
            n_cap = len(captures)
            torch.manual_seed(run.streams.torch_seed(f"shared_step-{b}"))
            with tap_b:
                with run.guard(scope, "L2DPPOModel.shared_step(batch, batch_idx, 'train')", batch_idx=b):
                    model.shared_step(batch, b, "train")
            if len(captures) != n_cap + 1 or counters["opt_steps"] == 0:
                raise HarnessError(f"batch {b}: {counters['evals']} evaluate calls, {counters['opt_steps']} optimizer steps: "
                                   "no update happened")
            c = captures[-1]
            if c["opt_steps"] != 0:
                raise HarnessError("an optimizer step preceded the first evaluate call of the update")
            run.tick(counters["evals"])
            old, new = c["old"].double(), c["new"].double()
            if old.shape != new.shape:
                run.violate(scope, "stepwise_ppo_ratio", f"update {b}: evaluate returned {tuple(new.shape)} log-probs for a "
                            f"mini-batch with {tuple(old.shape)} stored ones", constraint="shape", update=b)
                raise StopRun()
            ratio = torch.exp(new - old)
            ratios.append([float(x) for x in ratio])
            run.log.add("sw_update", b, c["rows"], counters["evals"], counters["opt_steps"], _hexes(old),
                        [round(float(x), 6) for x in ratio])
            ulp = 16 * _F32_EPS * c["raw"] + 4.0 * c["layout"]
            if c["layout"] > 1e-5:
                run.probe("stepwise_layout_sensitive")
            for i in range(ratio.numel()):
                if not abs(float(ratio[i]) - 1.0) <= 1e-4 + ulp:
                    run.violate(scope, "stepwise_ppo_ratio", f"update {b} (batch_idx {b}), first mini-batch, row {i}: "
                                f"probability ratio {float(ratio[i])!r} before any optimizer step of this update (log-prob "
                                f"stored at rollout {float(old[i])!r}, re-evaluated {float(new[i])!r})",
                                constraint="ratio_not_one_first_update" if b == 0 else "ratio_not_one_later_update",
                                update=b, row=i, ratio=float(ratio[i]), old=float(old[i]), new=float(new[i]),
                                epochs=sw["epochs"], mini=sw["mini"], optimizer=sw["optimizer"], lr=sw["lr"],
                                normalization=sw["normalization"], train_mode=plan["train_mode"],
                                max_logit=c["raw"], layout_sensitivity=c["layout"])
                    raise StopRun()
            if b >= 1:
                run.probe("stepwise_second_update")
    finally:
        pol.__dict__.pop("evaluate", None)
    if plan["train_mode"]:
        run.probe("stepwise_train_mode_instance_norm")
    run.summary = {"steps": len(recorded), "ratios": ratios, "norm_layers": norms}


# --------------------------------------------------------------------------------------------------
# MultiStageFFSPPolicy (MatNet for the flexible flow shop): one encoder/decoder per stage, loop on policy level
# --------------------------------------------------------------------------------------------------
def _plan_ffsp_multistage(st, rc):
    S, M, J = rc.randint(2, 3), rc.randint(2, 3), rc.randint(2, 4)  # one machine per stage: instance norm over a single element raises
    cfg = {"env": "ffsp", "n": J, "kw": {},
           "gen": {"num_stage": S, "num_machine": M, "num_job": J, "min_time": 1, "max_time": rc.choice([3, 6]),
                   "flatten_stages": False}}
    env = E.make_env(cfg)
    B = rc.choice([1, 2, 3])
    rows = E.gen_rows(env, cfg, B, st.torch_seed("instances"))
    return {"scenario": "ffsp_multistage", "kind": "matnet_multistage", "cfg": cfg,
            "instances": [E.enc_row(r) for r in rows], "policy_seed": rc.randrange(1 << 20),
            "sample_seed": rc.randrange(1 << 30), "decode": rc.choice(["sampling", "sampling", "greedy"])}


def _execute_ffsp_multistage(run):
    """Clause (i) for the per-stage policy: every stage decoder proposes an action at every step, the executed
    action and its log-probability are those of the decoder of the stage the instance is in at that moment; the
    returned log-likelihood is the sum, over steps, of the log-probability of the executed action under the masked
    and normalised distribution it was drawn from."""
    import rl4co.models.zoo.matnet.decoder as MD
    from rl4co.models.zoo.matnet.policy import MultiStageFFSPPolicy

    plan = run.plan
    cfg = plan["cfg"]
    scope = "matnet_multistage:ffsp"
    rows = [E.dec_row(r) for r in plan["instances"]]
    B, S = len(rows), cfg["gen"]["num_stage"]
    with run.guard(scope, "construct env", promise=False):
        env = E.make_env(cfg)
    torch.manual_seed(plan["policy_seed"])
    with run.guard(scope, "construct MultiStageFFSPPolicy", promise=False):
        pol = MultiStageFFSPPolicy(stage_cnt=S, embed_dim=32, num_heads=2, num_encoder_layers=1, feedforward_hidden=32,
                                   train_decode_type=plan["decode"], val_decode_type=plan["decode"],
                                   test_decode_type=plan["decode"]).eval()
    with run.guard(scope, "env.reset", promise=False):
        td = E.reset(env, cfg, rows)
    stages = []  # stage index of every row at the moment each step is taken
    orig_step = env.step

    def step(t):
        stages.append(t["stage_idx"].detach().clone())
        return orig_step(t)

    env.step = step
    try:
        torch.manual_seed(plan["sample_seed"])
        with ProcessTap(MD) as tap:
            with run.guard(scope, f"policy forward ({plan['decode']})", B=B, stages=S):
                with torch.no_grad():
                    out = pol(td, env, phase="test", num_starts=1, return_actions=True)
    finally:
        env.__dict__.pop("step", None)
    acts = out["actions"]
    T = int(acts.shape[1])
    run.tick(T)
    if len(stages) != T or len(tap.records) != T * S:
        run.probe("multistage_tap_out_of_step")  # another call pattern than one decoder call per stage and step
        return
    ll = out["log_likelihood"].detach().double().reshape(-1)
    ref = [0.0] * B
    for t in range(T):
        for r in range(B):
            s_ = int(stages[t][r])
            rec = tap.records[t * S + s_]
            a = int(acts[r, t])
            if rec.mask is not None and not bool(rec.mask[r, a]):
                run.violate(scope, "taken_action", f"step {t} row {r}: executed action {a} is masked in the distribution of "
                            f"its stage {s_}", constraint="infeasible_action", step=t, row=r, stage=s_)
                raise StopRun()
            lp, _sc = ref_logp(rec.logits[r:r + 1].double().numpy(), None if rec.mask is None else rec.mask[r:r + 1].numpy(),
                               rec.temperature, rec.tanh_clipping)
            ref[r] += float(lp[0, a])
    for r in range(B):
        if abs(float(ll[r]) - ref[r]) > tol(ref[r], 0.0, T):
            run.violate(scope, "sum_of_logprobs", f"row {r}: returned log-likelihood {float(ll[r])!r}, but the executed actions "
                        f"have log-probability {ref[r]!r} under the distributions of the stage decoders that produced them",
                        constraint="loglik_sum", row=r, got=float(ll[r]), ref=ref[r], stages=S, decode=plan["decode"])
            raise StopRun()
    if any(len(set(int(stages[t][r]) for t in range(T))) > 1 for r in range(B)):
        run.probe("multistage_stage_changes")
        run.nontrivial = True
    run.log.add("ffsp_ms", acts.tolist(), _hexes(ll))
    run.probe("multistage_loglik_checked")


# --------------------------------------------------------------------------------------------------
# canary mutants (in-memory only)
# --------------------------------------------------------------------------------------------------
def _patch_attr(obj, name, new):
    @contextlib.contextmanager
    def cm():
        old = obj.__dict__[name] if isinstance(obj, type) else getattr(obj, name)
        setattr(obj, name, new)
        try:
            yield
        finally:
            setattr(obj, name, old)

    return cm()


def _canary_gather_before_process():
    """log-prob of the chosen action gathered from the raw logits instead of the processed
    distribution (masked / normalised)."""
    from rl4co.utils import decoding as dec
    from rl4co.utils.ops import gather_by_index

    def step(self, logits, mask, td=None, action=None, **kwargs):
        if not self.mask_logits:
            mask = None
        raw = logits.clone()
        logprobs = dec.process_logits(logits, mask, temperature=self.temperature, top_p=self.top_p,
                                      top_k=self.top_k, tanh_clipping=self.tanh_clipping,
                                      mask_logits=self.mask_logits)
        logprobs, selected_action, td = self._step(logprobs, mask, td, action=action, **kwargs)
        if self.improvement_method_mode:
            return logprobs, selected_action
        if not self.store_all_logp:
            logprobs = gather_by_index(torch.log_softmax(raw, -1), selected_action, dim=1)
        td.set("action", selected_action)
        self.actions.append(selected_action)
        self.logprobs.append(logprobs)
        return td

    return _patch_attr(dec.DecodingStrategy, "step", step)


def _canary_logprob_one_step_late():
    """`logprobs.append` one step late: step t stores the log-prob gathered at step t-1."""
    from rl4co.utils import decoding as dec
    from rl4co.utils.ops import gather_by_index

    def step(self, logits, mask, td=None, action=None, **kwargs):
        if not self.mask_logits:
            mask = None
        logprobs = dec.process_logits(logits, mask, temperature=self.temperature, top_p=self.top_p,
                                      top_k=self.top_k, tanh_clipping=self.tanh_clipping,
                                      mask_logits=self.mask_logits)
        logprobs, selected_action, td = self._step(logprobs, mask, td, action=action, **kwargs)
        if self.improvement_method_mode:
            return logprobs, selected_action
        if not self.store_all_logp:
            logprobs = gather_by_index(logprobs, selected_action, dim=1)
        td.set("action", selected_action)
        self.actions.append(selected_action)
        prev = getattr(self, "_late", None)
        self._late = logprobs
        self.logprobs.append(logprobs if prev is None or prev.shape != logprobs.shape else prev)
        return td

    return _patch_attr(dec.DecodingStrategy, "step", step)


def _canary_first_multistart_logp():
    """forced multi-start first move booked with log(1/k) instead of 0."""
    from rl4co.utils import decoding as dec

    orig = dec.DecodingStrategy.pre_decoder_hook

    def pre_decoder_hook(self, td, env, action=None):
        n_before = len(self.logprobs)
        res = orig(self, td, env, action)
        if len(self.logprobs) > n_before and self.num_starts and self.num_starts > 1:
            lp = self.logprobs[-1]
            self.logprobs[-1] = lp.float() - math.log(self.num_starts) if lp.dtype != torch.bool \
                else torch.zeros(lp.shape) - math.log(self.num_starts)
        return res

    return _patch_attr(dec.DecodingStrategy, "pre_decoder_hook", pre_decoder_hook)


def _canary_evaluate_next_action():
    """evaluate mode replays actions[..., step+1] (off by one; last step wraps to the last action)."""
    # the index is chosen in ConstructivePolicy.forward; emulate by shifting the buffer it indexes
    from rl4co.models.common.constructive import base

    orig_forward = base.ConstructivePolicy.forward

    def forward(self, td, env=None, phase="train", calc_reward=True, return_actions=True,
                return_entropy=False, return_hidden=False, return_init_embeds=False,
                return_sum_log_likelihood=True, actions=None, max_steps=1_000_000, **decoding_kwargs):
        if actions is not None:
            actions = torch.cat([actions[..., 1:], actions[..., -1:]], -1)
        return orig_forward(self, td, env, phase, calc_reward, return_actions, return_entropy, return_hidden,
                            return_init_embeds, return_sum_log_likelihood, actions, max_steps, **decoding_kwargs)

    return _patch_attr(base.ConstructivePolicy, "forward", forward)


def _canary_mask_ignored_in_ll():
    """get_log_likelihood forgets to zero the steps flagged irrelevant by td['mask']."""
    from rl4co.models.common.constructive import base
    from rl4co.utils import decoding as dec

    orig = dec.get_log_likelihood

    def get_log_likelihood(logprobs, actions=None, mask=None, return_sum=True):
        return orig(logprobs, actions, None, return_sum)

    @contextlib.contextmanager
    def cm():
        o1, o2 = dec.get_log_likelihood, base.get_log_likelihood
        dec.get_log_likelihood = get_log_likelihood
        base.get_log_likelihood = get_log_likelihood
        try:
            yield
        finally:
            dec.get_log_likelihood, base.get_log_likelihood = o1, o2

    return cm()


def _canary_ppo_ratio_inverted_pairing():
    """PPO pairs the re-evaluated log-likelihood with the old log-prob of another row (dataset built
    from a rolled `logprobs`)."""
    from rl4co.models.rl.ppo import ppo

    orig = ppo.PPO.shared_step

    def shared_step(self, batch, batch_idx, phase, dataloader_idx=None):
        pol = self.policy
        of = pol.forward
        state = {"n": 0}

        def fwd(td, *a, **kw):
            out = of(td, *a, **kw)
            if state["n"] == 0 and "log_likelihood" in out and out["log_likelihood"].dim() == 1:
                out["log_likelihood"] = torch.roll(out["log_likelihood"], 1, 0)
            state["n"] += 1
            return out

        pol.forward = fwd
        try:
            return orig(self, batch, batch_idx, phase, dataloader_idx)
        finally:
            pol.forward = of

    return _patch_attr(ppo.PPO, "shared_step", shared_step)


def _canary_select_best_logp_other_row():
    """best-of-k returns the log-probs of the first rollout instead of the selected one."""
    from rl4co.utils import decoding as dec
    from rl4co.utils.ops import unbatchify, unbatchify_and_gather

    def _select_best(self, logprobs, actions, td, env):
        rewards = env.get_reward(td, actions)
        _, max_idxs = unbatchify(rewards, self.num_starts).max(dim=-1)
        actions = unbatchify_and_gather(actions, max_idxs, self.num_starts)
        logprobs = unbatchify_and_gather(logprobs, torch.zeros_like(max_idxs), self.num_starts)
        td = unbatchify_and_gather(td, max_idxs, self.num_starts)
        return logprobs, actions, td, env

    return _patch_attr(dec.DecodingStrategy, "_select_best", _select_best)


def _canary_mdam_unnormalised():
    """MDAM reports the clipped, masked logits of the taken actions as log-probabilities (the normalize
    flag of _get_logprobs is ignored) -- the defect repaired by the repo commit 'fix: MDAM decoder uses
    unnormalised logits as log-probabilities'."""
    import rl4co.models.zoo.mdam.decoder as md

    orig = md.MDAMDecoder._get_logprobs

    def _get_logprobs(self, fixed, td, path_index, normalize=True):
        return orig(self, fixed, td, path_index, normalize=False)

    return _patch_attr(md.MDAMDecoder, "_get_logprobs", _get_logprobs)


def _canary_l2d_act_uses_temperature_only():
    """L2DPolicy4PPO.act applies the policy's temperature to the distribution it samples from and stores the
    log-prob of; evaluate keeps re-scoring without it."""
    import rl4co.models.zoo.l2d.policy as lp
    from rl4co.utils.decoding import DecodingStrategy
    from rl4co.utils.ops import gather_by_index

    def act(self, td, env, phase: str = "train"):
        logits, mask = self.decoder(td, hidden=None, num_starts=0)
        logprobs = lp.process_logits(logits, mask, temperature=self.temperature, tanh_clipping=self.tanh_clipping)
        if phase == "train":
            action_indexes = DecodingStrategy.sampling(logprobs)
            td["logprobs"] = gather_by_index(logprobs, action_indexes, dim=1)
        else:
            action_indexes = DecodingStrategy.greedy(logprobs)
        td["action"] = action_indexes
        return td

    return _patch_attr(lp.L2DPolicy4PPO, "act", act)


def _canary_stepwise_policy_old_synced_before_update():
    """StepwisePPO.update copies the weights into policy_old at its START instead of its end: every rollout after
    the first update is sampled by the weights of one update ago."""
    from rl4co.models.rl.ppo import stepwise_ppo as sp

    orig = sp.StepwisePPO.update

    def update(self, device):
        old = self.policy_old
        old.load_state_dict(self.policy.state_dict())
        old.__dict__["load_state_dict"] = lambda *a, **k: None  # the sync at the end of update is gone
        try:
            return orig(self, device)
        finally:
            old.__dict__.pop("load_state_dict", None)

    return _patch_attr(sp.StepwisePPO, "update", update)


C11.CANARIES = {
    "mdam_unnormalised": _canary_mdam_unnormalised,
    "gather_before_process": _canary_gather_before_process,
    "logprob_one_step_late": _canary_logprob_one_step_late,
    "first_multistart_logp": _canary_first_multistart_logp,
    "evaluate_next_action": _canary_evaluate_next_action,
    "mask_ignored_in_ll": _canary_mask_ignored_in_ll,
    "ppo_old_logprob_rolled": _canary_ppo_ratio_inverted_pairing,
    "select_best_logp_other_row": _canary_select_best_logp_other_row,
    "l2d_act_uses_temperature_only": _canary_l2d_act_uses_temperature_only,
    "stepwise_policy_old_synced_before_update": _canary_stepwise_policy_old_synced_before_update,
}
