"""C13 -- beam search returns feasible, correctly scored and distinct beams.

A run = one environment x 1-3 generator instances x one scorer (state-keyed scripted decoder, modes
gaussian / ties, or a tiny real AttentionModelPolicy in eval mode) x one beam width in 2..#start nodes x
select_best on/off.  The real ``ConstructivePolicy.forward(decode_type="beam_search")`` is run under the
``process_logits`` tap and the strategy capture; the oracles are history checks over the recorded steps,
``BeamSearch.beam_path`` and the strategy's per-step action buffer:

  top_w       at every step the kept (parent, action) pairs are the `width` best of parent score + step
              log-prob over the feasible expansions (reference beam step; pairs within the tie band of the
              cut are free)
  path        every returned sequence is the root-to-leaf path of the recorded parent tree that ends in
              its slot, and its per-step log-probs are the tapped ones along that path
  evaluate    ... and equal the policy's evaluate-mode log-probs of that very sequence from step 1 on
              (k-fold expanded batch, no num_starts; every replayed action is in the env mask)
  feasible    each beam is a complete feasible solution (independent reference + the env's own checker)
  distinct    if the forced first moves of an instance are pairwise distinct so are its returned beams
  select_best the reward returned with select_best=True is the max over that instance's beams, with that
              beam's actions and log-probs
"""
from __future__ import annotations

import copy

import numpy as np
import torch

from .. import envs as E
from ..kernel import StopRun, Streams
from ..ref import decoding as R
from ..ref import routing as RR
from ..scripted import ProcessLogitsTap, StrategyCapture, make_scripted_policy
from .decode import tiny_am

FIXED = ["tsp", "atsp", "pdp"]
VARIABLE = ["cvrp", "sdvrp", "op", "pctsp", "spctsp", "cvrptw", "mtvrp", "mtsp"]  # mtsp: reward read from the final state
ENVS = FIXED + VARIABLE
AM_ENVS = ["tsp", "pdp", "cvrp", "sdvrp", "op", "pctsp", "spctsp", "cvrptw", "mtvrp"]


def _tol(x: float, rel: float = 1e-5) -> float:
    return rel * max(1.0, abs(x))


class C13:
    prop = "C13"
    level = "exploration"
    chunk = 4
    rule = ("run = one environment (seeded choice over fixed-length tsp/atsp/pdp and variable-length "
            "cvrp/sdvrp/op/pctsp/spctsp/cvrptw/mtvrp) x 1-3 generator instances x scorer (state-keyed scripted "
            "decoder gaussian|ties, or tiny real AttentionModel in eval mode) x beam width drawn from 2..number "
            "of start nodes x temperature {0.5,1,2} x tanh clipping {0,10} x select_best on/off; one real "
            "beam search (plus one with select_best, plus one evaluate replay of all beams).  One run in 500 (thorough: "
            "in 100) is a scale fault: a stacked TSP-6 batch with (width-1) x batch just above 2**15, eight sampled "
            "instances re-decoded in a small batch must give the same beams.  Non-trivial = "
            "some kept beam changed parent (a slot continued another slot's prefix) or beams finished at "
            "different steps; distinct = distinct event-log digest.")
    components_real = ["rl4co.utils.decoding.BeamSearch (pre_decoder_hook, _make_beam_step, _step re-indexing, "
                       "_backtrack, _select_best_beam), process_logits, Evaluate", "ConstructivePolicy.forward loop",
                       "env.select_start_nodes / get_num_starts, batchify", "rl4co environments (reset/step/masks/"
                       "get_reward/check_solution_validity) and generators",
                       "AttentionModelPolicy (embed 32, 1 layer, random weights, eval mode)"]
    components_stub = ["ScriptedDecoder keyed by (instance, mask+current node): a deterministic Markov scorer in "
                       "place of a trained network in ~75% of runs"]
    assumptions = ["CPU float32 kernels; beam scores re-accumulated in float64 from the tapped float32 step "
                   "log-probs, cut comparisons use a relative tie band of 1e-6 (+1.2e-7 per step of float32 "
                   "accumulation)", "no top-k / top-p filter during beam search",
                   "PDP with force_start_at_depot=False (with True the start rule's pickups are not admitted as "
                   "first action: C12's clause)",
                   "evaluate-mode comparison excludes the forced step 0 and runs on the k-fold expanded batch "
                   "without num_starts (DESIGN 5 C11 quirk)",
                   "`ties` logit mode (exact score ties) exercises the tie band: which of several tied expansions "
                   "is kept is not constrained"]
    required_probes = ["parent_changed", "unequal_finish", "tie_at_cut", "select_best_checked",
                       "evaluate_compared", "distinct_checked", "width_equals_starts"]
    excluded = ["AttentionModelPolicy x atsp (no embedding)", "svrp (start rule ignores technician skills: forced "
                "starts infeasible, C12)", "mtsp (get_reward 0-dim at B=1; AM multi-start crash DESIGN 7.17)",
                "flp/mcp/scheduling environments (not routing solutions; no independent beam feasibility oracle)",
                "pdp force_start_at_depot=True"]
    CANARIES = {}

    # ---------------------------------------------------------------------------------------------
    @staticmethod
    def make_plan(run_seed: int, tier: str) -> dict:
        st = Streams(run_seed)
        rc = st.get("config")
        if rc.random() < (0.002 if tier != "thorough" else 0.01) and "tsp" in E.only_filter(ENVS):
            # "scale fault": a stacked batch so large that (width - 1) * batch passes 2**15 -- what an evaluation
            # over a few thousand instances produces.  The beams of an instance must not depend on the batch size.
            w = rc.choice([3, 5])
            return {"big": True, "cfg": {"env": "tsp", "n": 6, "kw": {}, "gen": {"num_loc": 6}}, "width": w,
                    "B": 32768 // (w - 1) + rc.randint(1, 60), "instances": [], "inst_seed": rc.randrange(1 << 30),
                    "scorer": {"kind": "scripted", "mode": "gaussian", "seed": rc.randrange(1 << 30)},
                    "select_best": False, "temperature": 1.0, "tanh": 0, "width_frac": 0.0, "width_max": False}
        use_am = rc.random() < 0.25
        pool = E.only_filter(AM_ENVS if use_am else ENVS)
        name = pool[rc.randrange(len(pool))]
        if use_am and name not in AM_ENVS:
            use_am = False
        cfg = E.sample_cfg(name, rc, tier, small=True)
        for _ in range(4):
            if cfg["n"] <= 10 or tier == "thorough":
                break
            cfg = E.sample_cfg(name, rc, tier, small=True)
        if name == "pdp":
            cfg["kw"]["force_start_at_depot"] = False
        if use_am:
            cfg = E.for_network(cfg)
        env = E.make_env(cfg)
        b = rc.choice([1, 2, 2, 3])
        rows = E.gen_rows(env, cfg, b, st.torch_seed("instances"))
        warm = E.gen_rows(env, cfg, b, st.torch_seed("warm")) if rc.random() < 0.5 else []
        scorer = {"kind": "am", "seed": rc.randrange(1 << 30)} if use_am else \
            {"kind": "scripted", "mode": rc.choice(["gaussian", "gaussian", "ties"]), "seed": rc.randrange(1 << 30)}
        if use_am and name in ("tsp", "cvrp") and rc.random() < 0.5:
            scorer["kind"] = "nar"  # real non-autoregressive decoder (heatmap rows) behind a stub encoder
        # evaluation normally runs without autograd (torch.no_grad / inference_mode): inference-only fast paths
        # of the network are live only then.  Half of the real-network runs search with autograd off.
        no_grad = bool(use_am and rc.random() < 0.5)
        return {"cfg": cfg, "instances": [E.enc_row(r) for r in rows], "scorer": scorer,
                "warm": [E.enc_row(r) for r in warm],
                "width_frac": rc.random(), "width_max": bool(rc.random() < 0.25),
                # "beam widths from 2 up to the number of nodes": beyond the number of distinct start nodes
                "width_over": rc.randint(1, 4) if rc.random() < 0.2 else 0,
                "temperature": rc.choice([0.5, 1.0, 1.0, 2.0]), "tanh": rc.choice([0, 0, 10]),
                "select_best": bool(rc.random() < 0.5), "torch_seed": rc.randrange(1 << 30), "no_grad": no_grad}

    @staticmethod
    def sample(run):
        p = run.plan
        if p.get("big"):
            return {"env": p["cfg"], "B": p["B"], "width": p["width"], "big": True, "outcome": getattr(run, "outcome", None)}
        return {"env": p["cfg"], "B": len(p["instances"]), "scorer": p["scorer"],
                "knobs": {k: p[k] for k in ("width_frac", "width_max", "temperature", "tanh", "select_best")},
                "instance0": p["instances"][0], "outcome": getattr(run, "outcome", None)}

    @staticmethod
    def shrink(plan):
        if plan.get("big"):
            return
        if len(plan["instances"]) > 1:
            for i in range(len(plan["instances"])):
                p = copy.deepcopy(plan)
                del p["instances"][i]
                yield p
        if plan["width_max"] or plan["width_frac"] > 0:
            p = copy.deepcopy(plan)
            p["width_max"], p["width_frac"] = False, 0.0
            yield p
        for key, neutral in (("select_best", False), ("tanh", 0), ("temperature", 1.0)):
            if plan[key] != neutral:
                p = copy.deepcopy(plan)
                p[key] = neutral
                yield p

    # ---------------------------------------------------------------------------------------------
    @staticmethod
    def execute(run):
        from rl4co.utils.ops import batchify

        plan = run.plan
        if plan.get("big"):
            return _exec_big(run)
        cfg = plan["cfg"]
        name = cfg["env"]
        rows = [E.dec_row(r) for r in plan["instances"]]
        B = len(rows)
        with run.guard(name, "construct env"):
            env = E.make_env(cfg)
        sc = plan["scorer"]
        if sc["kind"] == "am":
            with run.guard(name, "construct AttentionModelPolicy", promise=False):
                policy = tiny_am(name, sc["seed"])
            scope = f"am/{name}"
            exact = False
        elif sc["kind"] == "nar":
            from ..policies import make_nar_policy

            with run.guard(name, "construct NonAutoregressivePolicy", promise=False):
                policy = make_nar_policy(name, sc["seed"]).eval()
            scope = f"nar/{name}"
            exact = False
        else:
            policy = make_scripted_policy(name, sc["mode"], sc["seed"], key="state")
            scope = f"scripted-{sc['mode']}/{name}"
            exact = True
        with run.guard(scope, "env.reset", promise=False):
            td = E.reset(env, cfg, rows)
        reset_mask = td["action_mask"].clone()
        with run.guard(scope, "env.get_num_starts", promise=False):
            n_starts = int(env.get_num_starts(td))
        if n_starts < 2:
            run.probe("too_small_for_beam")
            return
        W = n_starts if plan["width_max"] else 2 + int(plan["width_frac"] * (n_starts - 1))
        W = max(2, min(W, n_starts))
        if plan.get("width_over"):
            W = min(n_starts + plan["width_over"], int(reset_mask.shape[-1]))
            run.probe("width_beyond_start_nodes")
        if W == n_starts:
            run.probe("width_equals_starts")
        if name == "op" and not bool(reset_mask[:, 1:].any(-1).all()):
            run.probe("op_without_reachable_customer")  # start rule cannot draw a start (C12 / C18 ground)
            return
        dk = {"temperature": plan["temperature"], "tanh_clipping": plan["tanh"]}
        run.log.add("beam", name, B, W, dk, plan["select_best"], sc["kind"])
        run.stats[f"runs:{scope}"] += 1
        run.stats[f"width:{min(W, 9)}{'+' if W >= 9 else ''}"] += 1
        cap = 6 * int(reset_mask.shape[-1]) + 60

        # ---- perturbation "policy reuse": the same policy object first searches another batch of the same
        # shape (a policy serves consecutive batches in evaluation); anything it keeps must not leak
        if plan.get("warm"):
            wrows = [E.dec_row(r) for r in plan["warm"]]
            torch.manual_seed(plan["torch_seed"] + 1)
            with run.guard(scope, "policy forward on a previous batch (beam_search)", promise=False):
                _ng(plan, policy)(E.reset(env, cfg, wrows), env, phase="test", decode_type="beam_search", beam_width=W,
                       select_best=False, max_steps=cap, **dk)
            run.fault("policy_reuse")
            run.nontrivial = True

        # ---- run A: all beams ----------------------------------------------------------------------
        torch.manual_seed(plan["torch_seed"])
        with ProcessLogitsTap() as tap, StrategyCapture() as capt:
            with run.guard(scope, "policy forward decode_type=beam_search", width=W, B=B, knobs=dk):
                out = _ng(plan, policy)(td, env, phase="test", decode_type="beam_search", beam_width=W, select_best=False,
                             return_sum_log_likelihood=False, max_steps=cap, **dk)
        strat = capt.last
        actions, ll, reward = out["actions"], out["log_likelihood"], out["reward"]
        T = actions.shape[1]
        run.tick(T)
        if actions.shape[0] != B * W or len(tap.records) != T - 1 or len(strat.beam_path) != T \
                or tuple(ll.shape) != (B * W, T) or reward.shape[0] != B * W:
            run.violate(scope, "shape", f"actions {tuple(actions.shape)}, log-probs {tuple(ll.shape)}, "
                        f"{len(tap.records)} tapped steps, {len(strat.beam_path)} parent vectors for B={B} W={W}",
                        constraint="shapes", width=W, B=B)
            raise StopRun()
        step_actions = [a.tolist() for a in strat.actions]        # [T][B*W]
        parents = [p.tolist() for p in strat.beam_path]           # [T][B*W]
        forced = step_actions[0]
        forced_masked = [not bool(reset_mask[j % B, forced[j]]) for j in range(B * W)]

        # ---- tapped step distributions are the reference masked softmax --------------------------------
        for t, rec in enumerate(tap.records):
            lg, mk, lp = rec.logits.numpy(), rec.mask.numpy(), rec.logprobs.numpy()
            for j in range(B * W):
                if not mk[j].any():
                    run.probe("all_false_mask_row")
                    return
                fails, _ = R.check_step(lg[j], mk[j], lp[j], rec.temperature, rec.top_p, rec.top_k,
                                        rec.tanh_clipping)
                if fails:
                    cons, msg, det = fails[0]
                    run.violate(scope, "step_distribution", f"step {t + 1} slot {j}: {msg}", constraint=cons,
                                step=t + 1, slot=j, **det)
                    raise StopRun()

        # ---- history check: top-w at every step, per instance -------------------------------------------
        final_scores = {}
        for b in range(B):
            slots = [b + s * B for s in range(W)]
            scores = [0.0] * W
            for t in range(1, T):
                rec = tap.records[t - 1]
                step_lp = [rec.logprobs[j].double().numpy() for j in slots]
                eps = R.TIE_EPS + 1.2e-7 * t
                must, may, kth, cands = R.beam_step(scores, step_lp, W, eps)
                kept = []
                for s2 in range(W):
                    p, a = int(parents[t][slots[s2]]), int(step_actions[t][slots[s2]])
                    kept.append((p, a))
                if any(not (0 <= p < W) for p, _ in kept):
                    run.violate(scope, "top_w", f"step {t} instance {b}: parent index outside 0..{W - 1}: {kept}",
                                constraint="parent_range", step=t, instance=b, kept=kept, width=W)
                    raise StopRun()
                if len(set(kept)) != W:
                    run.violate(scope, "top_w", f"step {t} instance {b}: the same expansion is kept twice: {kept}",
                                constraint="duplicate_expansion", step=t, instance=b, kept=kept, width=W)
                    raise StopRun()
                bad = [pa for pa in kept if pa not in must and pa not in may]
                missing = [pa for pa in must if pa not in kept]
                if bad or missing:
                    sc_of = {(s, a): v for v, s, a in cands}
                    run.violate(scope, "top_w", f"step {t} instance {b} width {W}: kept (parent, action) pairs "
                                f"{kept} are not the top-{W} feasible expansions; not among the best: "
                                f"{[(pa, sc_of.get(pa)) for pa in bad]}, better ones dropped: "
                                f"{[(pa, sc_of.get(pa)) for pa in missing]} (cut at {kth!r})",
                                constraint="not_top_w", step=t, instance=b, kept=kept, width=W,
                                parent_scores=scores, infeasible_kept=[pa for pa in bad if pa not in sc_of])
                    raise StopRun()
                if len(may) > W - len(must):
                    run.probe("tie_at_cut")
                if any(p != s2 for s2, (p, _) in enumerate(kept)):
                    run.probe("parent_changed")
                    run.nontrivial = True
                scores = [scores[p] + float(step_lp[p][a]) for p, a in kept]
                run.state(scope, t, tuple(p for p, _ in kept))
            final_scores[b] = scores

        # ---- path check: returned sequences are root-to-leaf paths; log-probs are those along the path ---
        for b in range(B):
            for s in range(W):
                j = b + s * B
                seq, lps = [], []
                cur = s
                for t in range(T - 1, -1, -1):
                    a = int(step_actions[t][b + cur * B])
                    p = int(parents[t][b + cur * B])
                    seq.append(a)
                    lps.append(float(tap.records[t - 1].logprobs[b + p * B, a]) if t >= 1 else 0.0)
                    cur = p
                seq.reverse()
                lps.reverse()
                got = actions[j].tolist()
                if got != seq:
                    k = next(i for i in range(T) if got[i] != seq[i])
                    run.violate(scope, "path", f"beam slot {s} of instance {b}: returned sequence {got} is not the "
                                f"path {seq} of the recorded parent tree ending in that slot (first differs at "
                                f"step {k})", constraint="not_a_tree_path", instance=b, slot=s, returned=got,
                                tree_path=seq, width=W)
                    raise StopRun()
                gl = [float(x) for x in ll[j].tolist()]
                d = max(abs(x - y) for x, y in zip(gl, lps))
                if d > 1e-6 or gl[0] != 0.0:
                    run.violate(scope, "path", f"beam slot {s} of instance {b}: returned per-step log-probs {gl} "
                                f"differ from those tapped along its path {lps} (max {d!r})",
                                constraint="logprob_not_along_path", instance=b, slot=s, diff=d, width=W)
                    raise StopRun()
                tot = sum(lps)
                if abs(tot - final_scores[b][s]) > _tol(tot) * (1 + T / 8):
                    run.violate(scope, "path", f"beam slot {s} of instance {b}: score ledger {final_scores[b][s]!r} "
                                f"!= sum of the path's log-probs {tot!r}", constraint="score_ledger", instance=b,
                                slot=s, width=W)
                    raise StopRun()

        # ---- feasibility of every beam -----------------------------------------------------------------
        for j in range(B * W):
            b = j % B
            seq = actions[j].tolist()
            ref = RR.make_ref(name, rows[b], cfg)
            v = ref.violations(seq)
            if v:
                run.violate(scope, "beam_feasible", f"beam {j // B} of instance {b} (width {W}) {seq} is not a "
                            f"feasible complete solution: {v}", constraint=str(v[0][0]), instance=b, slot=j // B,
                            actions=seq, violations=v, width=W, root_start=seq[0],
                            root_start_masked=not bool(reset_mask[b, seq[0]]),
                            any_forced_start_masked=any(forced_masked))
                raise StopRun()
        # finishing steps: first step from which a beam only pads
        ends = []
        for j in range(B * W):
            seq = actions[j].tolist()
            e = T
            while e > 1 and seq[e - 1] == seq[-1] and seq[-1] == 0:
                e -= 1
            ends.append(e)
        if len(set(ends)) > 1:
            run.probe("unequal_finish")
            run.nontrivial = True
        # the environment's own checker as a second opinion (the reference already accepted every beam).  A
        # rejection that disappears when the final return to the depot is written out explicitly is the
        # checker's convention (SDVRP's wants index 0 visited), i.e. C06's ground, and only counted.
        try:
            env.check_solution_validity(batchify(E.reset(env, cfg, rows), W), actions)
        except AssertionError as e:
            closed = torch.cat([actions, torch.zeros_like(actions[:, :1])], 1)
            try:
                if name in FIXED:
                    raise
                env.check_solution_validity(batchify(E.reset(env, cfg, rows), W), closed)
                run.probe("env_checker_wants_explicit_depot_return")
            except AssertionError:
                run.violate(scope, "beam_feasible", f"env.check_solution_validity rejects the returned beams: {e}",
                            constraint="env_checker", width=W, actions=actions.tolist(),
                            any_forced_start_masked=any(forced_masked))
                raise StopRun()
        except NotImplementedError:
            run.probe("no_env_checker")

        # ---- distinctness ----------------------------------------------------------------------------------
        for b in range(B):
            starts = [forced[b + s * B] for s in range(W)]
            if len(set(starts)) == W:
                run.probe("distinct_checked")
                seqs = [tuple(actions[b + s * B].tolist()) for s in range(W)]
                if len(set(seqs)) != W:
                    dup = sorted(s for s in range(W) if seqs.count(seqs[s]) > 1)
                    run.violate(scope, "distinct", f"instance {b}: forced starts {starts} are pairwise distinct but "
                                f"beams {dup} are the same sequence {list(seqs[dup[0]])}", constraint="duplicate_beam",
                                instance=b, width=W, starts=starts, slots=dup)
                    raise StopRun()
            else:
                run.probe("duplicate_forced_starts")

        # ---- evaluate mode reproduces the per-step log-probs of every beam --------------------------------------
        td_e = batchify(E.reset(env, cfg, rows), W)
        out_e = None
        with ProcessLogitsTap() as tap_e:
            with run.guard(scope, "policy forward decode_type=evaluate (beams fed back)", width=W, B=B,
                           any_forced_start_masked=any(forced_masked)):
                try:
                    out_e = policy(td_e, env, phase="test", decode_type="evaluate", actions=actions,
                                   return_sum_log_likelihood=False, max_steps=cap, **dk)
                except AssertionError as e:
                    # evaluate mode also scores the forced step 0 under the policy's own distribution; a
                    # saturated scorer gives it < -1000 and get_log_likelihood refuses (DESIGN 5 C11 quirk).
                    # The per-step distributions were tapped before that, so the comparison goes on.
                    if "Logprobs should not be -inf" not in str(e):
                        raise
                    run.probe("evaluate_forced_step_underflow")
        if len(tap_e.records) != T:
            run.violate(scope, "evaluate", f"replaying the beams took {len(tap_e.records)} steps, the beams have {T}",
                        constraint="evaluate_shape", width=W)
            raise StopRun()
        # the policy's evaluate-mode log-prob of action t of every beam, straight from the tapped distributions
        ll_e = torch.stack([tap_e.records[t].logprobs.gather(1, actions[:, t:t + 1]).squeeze(1)
                            for t in range(T)], 1)
        if out_e is not None and T > 1 and \
                float((out_e["log_likelihood"][:, 1:] - ll_e[:, 1:]).abs().max()) > 1e-6:
            run.violate(scope, "evaluate", "evaluate mode returns log-probs that are not the tapped ones",
                        constraint="evaluate_tap_mismatch", width=W)
            raise StopRun()
        for t in range(1, T):
            m = tap_e.records[t].mask
            for j in range(B * W):
                if not bool(m[j, int(actions[j, t])]):
                    run.violate(scope, "beam_feasible", f"replaying beam {j // B} of instance {j % B}: action "
                                f"{int(actions[j, t])} at step {t} is not admitted by the environment mask",
                                constraint="masked_action_in_beam", instance=j % B, slot=j // B, step=t,
                                actions=actions[j].tolist(), width=W)
                    raise StopRun()
        run.probe("evaluate_compared")
        for t in range(1, T):
            # a real network re-run on another batch composition reproduces its logits to float32 relative
            # accuracy only: the band scales with the magnitude of the scores entering the softmax
            rec = tap_e.records[t]
            for j in range(B * W):
                if exact:
                    tol = 1e-6
                else:
                    z = R.scores(rec.logits[j].numpy(), rec.mask[j].numpy(), rec.temperature, rec.tanh_clipping)
                    tol = 2e-5 + 2e-6 * float(np.abs(z[np.isfinite(z)]).max())
                if abs(float(ll_e[j, t]) - float(ll[j, t])) > tol:
                    run.violate(scope, "evaluate", f"beam {j // B} of instance {j % B}: log-prob at step {t} is "
                                f"{float(ll[j, t])!r} in the beam output but the policy assigns "
                                f"{float(ll_e[j, t])!r} to that action along that sequence (evaluate mode)",
                                constraint="logprob_differs", instance=j % B, slot=j // B, step=t, width=W,
                                diff=abs(float(ll_e[j, t]) - float(ll[j, t])), tol=tol,
                                actions=actions[j].tolist())
                    raise StopRun()
        rd = (out_e["reward"] - reward).abs().max() if out_e is not None else 0.0
        if float(rd) > _tol(float(reward.abs().max())):
            run.violate(scope, "evaluate", f"reward of the replayed beams differs by {float(rd)!r}",
                        constraint="reward_differs", width=W)
            raise StopRun()
        run.log.add("beams", actions.tolist(), [float(x).hex() for x in ll.sum(1).tolist()],
                    [float(x).hex() for x in reward.tolist()])
        run.outcome = {"T": T, "W": W, "B": B, "rewards": reward.tolist()}

        # ---- run B: select_best ------------------------------------------------------------------------------
        if plan["select_best"]:
            torch.manual_seed(plan["torch_seed"])
            with run.guard(scope, "policy forward decode_type=beam_search select_best=True", width=W, B=B):
                ob = _ng(plan, policy)(E.reset(env, cfg, rows), env, phase="test", decode_type="beam_search", beam_width=W,
                            select_best=True, return_sum_log_likelihood=False, max_steps=cap, **dk)
            run.probe("select_best_checked")
            rb, ab, lb = ob["reward"], ob["actions"], ob["log_likelihood"]
            if rb.shape[0] != B or ab.shape[0] != B:
                run.violate(scope, "select_best", f"select_best returns {tuple(rb.shape)} rewards for {B} instances",
                            constraint="best_shape", width=W, B=B)
                raise StopRun()
            for b in range(B):
                mine = [float(reward[b + s * B]) for s in range(W)]
                best = max(mine)
                if abs(float(rb[b]) - best) > _tol(best, 1e-6):
                    whose = [j for j in range(B * W) if abs(float(reward[j]) - float(rb[b])) <= _tol(best, 1e-6)]
                    run.violate(scope, "select_best", f"instance {b}: select_best reward {float(rb[b])!r} but its "
                                f"beams score {mine} (max {best!r}); that reward belongs to rows {whose}",
                                constraint="not_the_max", instance=b, width=W, B=B, beams=mine,
                                returned=float(rb[b]))
                    raise StopRun()
                cands = [s for s in range(W) if abs(mine[s] - best) <= _tol(best, 1e-6)]
                ok = [s for s in cands if ab[b].tolist() == actions[b + s * B].tolist()]
                if not ok:
                    run.violate(scope, "select_best", f"instance {b}: actions returned with select_best "
                                f"{ab[b].tolist()} are not those of a best beam {cands}", constraint="best_actions",
                                instance=b, width=W, B=B)
                    raise StopRun()
                if float((lb[b] - ll[b + ok[0] * B]).abs().max()) > 1e-6:
                    run.violate(scope, "select_best", f"instance {b}: log-probs returned with select_best are not "
                                f"those of the best beam", constraint="best_logprobs", instance=b, width=W, B=B)
                    raise StopRun()
            run.log.add("best", [float(x).hex() for x in rb.tolist()])


# ------------------------------------------------------------------------------------------------
# canary mutants (sensitivity self-test; in-memory only, never applied to /repo)
# ------------------------------------------------------------------------------------------------
def _patch_beam(**methods):
    import contextlib

    from rl4co.utils.decoding import BeamSearch

    @contextlib.contextmanager
    def cm():
        old = {k: BeamSearch.__dict__[k] for k in methods}
        for k, v in methods.items():
            setattr(BeamSearch, k, v)
        try:
            yield
        finally:
            for k, v in old.items():
                setattr(BeamSearch, k, v)

    return cm()


def _make_beam_step_variant(variant):
    def _make_beam_step(self, logprobs):
        aug_batch_size, num_nodes = logprobs.shape
        batch_size = aug_batch_size // self.beam_width
        batch_beam_sequence = torch.arange(0, batch_size).repeat(self.beam_width).to(logprobs.device)
        if variant == "score_not_accumulated":
            log_beam_prob = logprobs + 0 * self.parent_beam_logprobs
        else:
            log_beam_prob = logprobs + self.parent_beam_logprobs
        log_beam_prob_hstacked = torch.cat(log_beam_prob.split(batch_size), dim=1)
        topk_logprobs, topk_ind = torch.topk(log_beam_prob_hstacked, self.beam_width, dim=1)
        logprobs_selected = torch.hstack(torch.unbind(topk_logprobs, 1)).unsqueeze(1)
        topk_ind = torch.hstack(torch.unbind(topk_ind, 1))
        selected = topk_ind % num_nodes
        if variant == "parent_mod":
            beam_parent = (topk_ind % num_nodes).clamp(max=self.beam_width - 1).int()
        else:
            beam_parent = (topk_ind // num_nodes).int()
        batch_beam_idx = batch_beam_sequence + beam_parent * batch_size
        self.parent_beam_logprobs = logprobs_selected
        self.beam_path.append(beam_parent)
        return selected, batch_beam_idx

    return _make_beam_step


def _canary_parent_mod():
    """beam_parent = topk_ind % num_nodes (clamped to keep shapes) instead of // num_nodes."""
    return _patch_beam(_make_beam_step=_make_beam_step_variant("parent_mod"))


def _canary_score_not_accumulated():
    """the parent's accumulated score is not added: beams are ranked by the last step only."""
    return _patch_beam(_make_beam_step=_make_beam_step_variant("score_not_accumulated"))


def _canary_backtrack_second_last():
    """_backtrack starts from beam_path[-2]."""

    def _backtrack(self):
        actions = torch.stack(self.actions, 1)
        logprobs = torch.stack(self.logprobs, 1)
        cur_parent = self.beam_path[-2] if len(self.beam_path) > 1 else self.beam_path[-1]
        rs, rl = [actions[:, -1]], [logprobs[:, -1]]
        aug = actions.size(0)
        batch_size = aug // self.beam_width
        seq = torch.arange(0, batch_size).repeat(self.beam_width).to(actions.device)
        for k in reversed(range(len(self.beam_path) - 1)):
            idx = seq + cur_parent * batch_size
            rs.append(actions[idx, k])
            rl.append(logprobs[idx, k])
            cur_parent = self.beam_path[k][idx]
        return torch.stack(list(reversed(rs)), dim=1), torch.stack(list(reversed(rl)), dim=1)

    return _patch_beam(_backtrack=_backtrack)


def _canary_skip_state_reindex():
    """td[batch_beam_idx] skipped in BeamSearch._step: every slot keeps its own environment state."""

    def _step(self, logprobs, mask, td, **kwargs):
        selected, batch_beam_idx = self._make_beam_step(logprobs)
        logprobs = logprobs[batch_beam_idx]
        return logprobs, selected, td

    return _patch_beam(_step=_step)


def _canary_select_best_layout():
    """_select_best_beam regroups the rewards as (batch, width) instead of (width, batch)."""

    def _select_best_beam(self, logprobs, actions, td, env):
        aug = logprobs.size(0)
        batch_size = aug // self.beam_width
        rewards = env.get_reward(td, actions)
        _, idx = rewards.view(batch_size, self.beam_width).max(1)
        flat_idx = torch.arange(batch_size, device=rewards.device) + idx * batch_size
        return logprobs[flat_idx], actions[flat_idx], td[flat_idx], env

    return _patch_beam(_select_best_beam=_select_best_beam)


def _canary_select_best_min():
    """best beam chosen with min instead of max."""

    def _select_best_beam(self, logprobs, actions, td, env):
        aug = logprobs.size(0)
        batch_size = aug // self.beam_width
        rewards = env.get_reward(td, actions)
        _, idx = torch.cat(rewards.unsqueeze(1).split(batch_size), 1).min(1)
        flat_idx = torch.arange(batch_size, device=rewards.device) + idx * batch_size
        return logprobs[flat_idx], actions[flat_idx], td[flat_idx], env

    return _patch_beam(_select_best_beam=_select_best_beam)


C13.CANARIES = {
    "parent_mod": _canary_parent_mod,
    "score_not_accumulated": _canary_score_not_accumulated,
    "backtrack_second_last": _canary_backtrack_second_last,
    "skip_state_reindex": _canary_skip_state_reindex,
    "select_best_layout": _canary_select_best_layout,
    "select_best_min": _canary_select_best_min,
}


def _ng(plan, policy):
    """the policy, called with autograd switched off when the plan says so"""
    if not plan.get("no_grad"):
        return policy

    def call(*a, **k):
        with torch.no_grad():
            return policy(*a, **k)

    return call


# --------------------------------------------------------------------------------------------------
# scale fault: one very large stacked batch; sampled instances re-decoded in a small batch must give the same beams
# --------------------------------------------------------------------------------------------------
def _exec_big(run):
    plan = run.plan
    cfg, W, B = plan["cfg"], plan["width"], plan["B"]
    name = cfg["env"]
    scope = f"scripted-gaussian/{name}"
    with run.guard(name, "construct env"):
        env = E.make_env(cfg)
    torch.manual_seed(plan["inst_seed"])
    with run.guard(scope, "generator + reset (large batch)", promise=False):
        td_all = env.generator(batch_size=[B])
    policy = make_scripted_policy(name, "gaussian", plan["scorer"]["seed"], key="state")
    with run.guard(scope, "policy forward decode_type=beam_search (large batch)", width=W, B=B):
        out = policy(env.reset(td_all.clone()), env, phase="test", decode_type="beam_search", beam_width=W,
                     select_best=False, return_actions=True, return_sum_log_likelihood=False)
    acts = out["actions"]
    rew = out["reward"].reshape(-1)
    run.tick(int(acts.shape[-1]))
    run.fault("large_stacked_batch", B * W)
    run.probe("big_batch_beam")
    run.nontrivial = True
    if acts.shape[0] != B * W:
        run.violate(scope, "beam_batch_size", f"{acts.shape[0]} beams returned for {B} instances x width {W}",
                    constraint="count", width=W, B=B)
        raise StopRun()
    picks = sorted({run.chooser.pick(B, lambda: run.chooser.rng.randrange(B)) for _ in range(6)} | {0, B - 1})
    sub = td_all[picks].clone()
    with run.guard(scope, "policy forward decode_type=beam_search (the same instances, small batch)", width=W, B=len(picks)):
        out2 = policy(env.reset(sub), env, phase="test", decode_type="beam_search", beam_width=W, select_best=False,
                      return_actions=True, return_sum_log_likelihood=False)
    a2, r2 = out2["actions"], out2["reward"].reshape(-1)
    n = cfg["gen"]["num_loc"]
    for k, i in enumerate(picks):
        for j in range(W):
            big = [int(x) for x in acts[j * B + i].tolist()]
            small = [int(x) for x in a2[j * len(picks) + k].tolist()]
            if sorted(big) != list(range(n)):
                run.violate(scope, "beam_feasible", f"beam {j} of instance {i} in a batch of {B}: {big} is not a tour of "
                            f"the {n} nodes", constraint="not_a_tour", width=W, B=B, instance=i, beam=j)
                raise StopRun()
            if big != small or abs(float(rew[j * B + i]) - float(r2[j * len(picks) + k])) > 1e-5:
                run.violate(scope, "beam_batch_size", f"beam {j} of instance {i}: {big} (reward {float(rew[j * B + i])!r}) in "
                            f"a stacked batch of {B} x {W}, but {small} (reward {float(r2[j * len(picks) + k])!r}) when "
                            f"the instance is decoded in a batch of {len(picks)}", constraint="batch_size_dependent",
                            width=W, B=B, instance=i, beam=j)
                raise StopRun()
    run.log.add("big", B, W, picks, [float(x).hex() for x in r2.tolist()][:8])
    run.outcome = {"B": B, "W": W, "picks": picks}
