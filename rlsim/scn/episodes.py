"""C01 / C02 / C03 — mask-confined lock-step episodes checked against the reference models.

One simulator (EpisodeSim) drives a batch of instances to completion with per-row adversarial action
strategies, pads finished rows while batch-mates run (stall), and injects reindex / snapshot /
alternate / env-restart perturbations.  A reference model per row runs alongside (refinement
impl [= model, tick by tick).  The three properties enable different monitors:

  C01  every taken (mask-admitted) action is not `must_not` for the reference; final solution has
       no problem-level violation                                            (routing envs)
  C02  while any row is unfinished every row has >= 1 admitted action; done is monotone; every
       row finishes within the problem's step bound; rl4co's own rollout loop terminates and never
       feeds an all-masked row to the sampler                                (all constructive envs)
  C03  reward == reference objective of (original instance, executed actions) (envs with a reference
       objective, all reward modes)
"""
from __future__ import annotations

import copy
import math
import pickle

import torch

from .. import drive as D
from .. import envs as E
from ..kernel import HarnessError, StopRun, Streams
from ..ref import routing as RR
from . import canaries_env as CE


def get_ref(name, row, cfg):
    """Reference model for one instance, or None when none exists (yet) for this environment."""
    if name in RR.REFS:
        return RR.make_ref(name, row, cfg)
    try:
        if name in ("fjsp", "jssp", "ffsp", "smtwtp"):
            from ..ref import scheduling as RS

            return RS.make_ref(name, row, cfg)
        if name in ("flp", "mcp", "dpp", "mdpp"):
            from ..ref import selection as RSel

            return RSel.make_ref(name, row, cfg)
    except ImportError:
        return None
    return None


def reward_tol(ref: float, n: int) -> float:
    return 1e-5 * max(1.0, abs(ref)) * math.sqrt(max(n, 1))


def generic_step_bound(name, row, cfg):
    """Problem step bounds for environments without a reference model (C02)."""
    g = cfg.get("gen", {})
    if name in ("fjsp", "jssp"):
        n_ops = int((~row["pad_mask"]).sum())
        return 2 * n_ops
    if name == "ffsp":
        J, S, M = g["num_job"], g["num_stage"], g["num_machine"]
        total = int(row["run_time"].sum())
        return J * S + (total + 1) * S * M
    if name == "smtwtp":
        return g["num_job"]
    if name == "flp":
        return int(row["to_choose"])
    if name == "mcp":
        return int(row["n_sets_to_choose"].flatten()[0])
    if name in ("dpp", "mdpp"):
        return g["max_decaps"]
    return None


# objective = function of (instance, actions): re-scoring on another state of the same instance must agree
RESCORE_ON_RESET = ("tsp", "atsp", "cvrp", "cvrptw", "sdvrp", "svrp", "op", "pctsp", "spctsp", "pdp", "mtvrp")


class EpisodeSim:
    def __init__(self, run, monitors, cfg, rows, strategies, perturbs, sync_sdvrp=True):
        self.run = run
        self.mon = set(monitors)
        self.cfg = cfg
        self.name = cfg["env"]
        self.rows = rows
        self.strategies = strategies
        self.perturbs = sorted(perturbs, key=lambda p: p["at"])

    # ------------------------------------------------------------------------------------------------
    def go(self):
        run, name, cfg = self.run, self.name, self.cfg
        with run.guard(name, "construct env"):
            env = E.make_env(run.plan.get("env_cfg") or cfg)
        if run.plan.get("env_cfg"):
            run.fault("cross_size_env")
            run.nontrivial = True
        for p in self.perturbs:
            if p["kind"] == "alternate":
                self._alternate(env, p)
        store = None
        for p in self.perturbs:
            if p["kind"] == "reuse_store":
                # the instances live in one stored TensorDict (a dataset); episodes are reset from SLICES of
                # it, which share its storage.  A complete earlier episode on the same slices must leave the
                # stored instances untouched (in-place writes through aliased storage)
                if store is None:
                    store = E.batch_of(cfg, [{k: v.clone() for k, v in r.items()} for r in self.rows])
                self._throwaway(env, store[0:len(self.rows)], p)
        with run.guard(name, "reset", B=len(self.rows)):
            td = env.reset(store[0:len(self.rows)]) if store is not None else E.reset(env, cfg, self.rows)
        B = len(self.rows)
        refs = [get_ref(name, r, cfg) for r in self.rows]
        src = list(range(B))          # src[pos] = original row index
        hist = [[] for _ in range(B)]  # actions fed to the row now at pos (incl. padding)
        done_at = [None] * B          # indexed by pos
        cap = D.step_bound_generic(cfg, td)
        for pos, r in enumerate(self.rows):
            b = refs[pos].step_bound() if refs[pos] is not None else generic_step_bound(name, r, cfg)
            if b is not None:
                cap = max(cap, b + 2)  # the cap only bounds the run; the problem bound is checked at the end
        t = 0
        snap = None
        tail = []
        over_left = int(run.plan.get("overrun", 0) or 0)
        overrunning = False
        prev_done = E.done_vec(td).clone()
        while True:
            for p in self.perturbs:
                if p["at"] != t or p.get("fired") or p["kind"] in ("alternate", "reuse_store"):
                    continue
                if bool(E.done_vec(td).all()):
                    continue
                if p["kind"] == "reindex" and len(src) > 1:
                    g = torch.Generator().manual_seed(p["seed"])
                    perm = torch.randperm(len(src), generator=g).tolist()
                    with run.guard(name, "reindex td[idx]"):
                        td = td[torch.tensor(perm)]
                    src = [src[j] for j in perm]
                    refs = [refs[j] for j in perm]
                    hist = [hist[j] for j in perm]
                    done_at = [done_at[j] for j in perm]
                    prev_done = prev_done[torch.tensor(perm)]
                    if snap:
                        snap["valid"] = False
                    run.fault("reindex", perm)
                    run.nontrivial = True
                elif p["kind"] == "snapshot" and snap is None:
                    snap = {"td": td.clone(), "valid": True, "t": t}
                    tail = []
                    run.fault("snapshot", t)
                    run.nontrivial = True
                elif p["kind"] == "env_restart":
                    how = "pickle" if p["seed"] % 2 else "deepcopy"
                    with run.guard(name, f"env {how} mid-episode", promise="c02" in self.mon):
                        env = pickle.loads(pickle.dumps(env)) if how == "pickle" else copy.deepcopy(env)
                    run.fault("env_restart", how)
                    run.nontrivial = True
                p["fired"] = True
            done = E.done_vec(td)
            # ---- C02: done is monotone ------------------------------------------------------------
            if "c02" in self.mon:
                back = (prev_done & ~done)
                if bool(back.any()):
                    r = int(torch.nonzero(back)[0])
                    run.violate(name, "done_not_monotone", f"row {r} was done and is unfinished again at tick {t}",
                                constraint="done_monotone", tick=t, cfg=cfg)
                    raise StopRun()
            prev_done = done.clone()
            for pos in range(len(src)):
                if bool(done[pos]) and done_at[pos] is None:
                    done_at[pos] = t
            if bool(done.all()):
                if over_left <= 0:
                    break
                over_left -= 1
                overrunning = True
                run.probe("overrun_tick")
                run.fault("overrun")
            if len(set(x is None for x in done_at)) > 1:
                run.probe("mixed_finished_unfinished")
            if t >= cap:
                if "c02" in self.mon:
                    run.violate(name, "no_progress", f"episode still running after {t} steps (cap {cap})",
                                constraint="termination", cfg=cfg, strategies=self.strategies)
                raise StopRun()
            mask = td["action_mask"]
            acts = []
            for pos in range(len(src)):
                opts = D.admitted(mask[pos])
                fin = bool(done[pos])
                ref = refs[pos]
                if not opts and overrunning:
                    acts = None  # nothing is running any more: an all-False mask ends the overrun, no claim broken
                    break
                if not opts:
                    if "c02" in self.mon:
                        run.violate(name, "no_feasible_action",
                                    f"row {pos} ({'finished' if fin else 'unfinished'}) has an all-False mask at tick {t} "
                                    "while the batch is still running", constraint="dead_end" if not fin else
                                    "finished_row_not_steppable", tick=t, finished=fin, B=len(src), cfg=cfg,
                                    history=hist[pos])
                    raise StopRun()
                if fin:
                    a = D.choose(run, "uniform", td, pos, opts)
                    run.probe("row_padded")
                    run.fault("stall")
                    run.nontrivial = True
                else:
                    a = D.choose(run, self.strategies[src[pos]], td, pos, opts)
                    if ref is not None and "c01" in self.mon:
                        cls, why = ref.classify(a)
                        if cls == "not":
                            run.violate(name, "infeasible_action_admitted",
                                        f"row {pos} tick {t}: mask admits action {a} which violates '{why}'",
                                        constraint=why, tick=t, action=a, history=hist[pos], cfg=cfg,
                                        instance=E.enc_row(self.rows[src[pos]]))
                            raise StopRun()
                        if cls == "may":
                            run.probe("band_may_action")
                    if ref is not None:
                        try:
                            ref.apply(a)
                        except Exception:  # noqa: BLE001
                            # the reference cannot follow an action the environment admitted (only possible for
                            # the scheduling / selection references, whose admissibility is C07/C08's claim, not
                            # this property's): drop the reference for this row and go on with the generic bounds
                            run.probe("reference_lost_sync")
                            refs[pos] = ref = None
                    if ref is not None:
                        run.state(name, tuple(sorted(getattr(ref, "visited", []))) if hasattr(ref, "visited") else t,
                                  getattr(ref, "cur", 0))
                acts.append(a)
            if acts is None:
                break
            if run.plan.get("lookahead") and run.chooser.pick(2, lambda: run.chooser.rng.randrange(2)) == 1:
                # discarded look-ahead from the same state (TorchRL mode only)
                alt = []
                for pos in range(len(src)):
                    o = D.admitted(mask[pos])
                    alt.append(o[run.chooser.pick(len(o), lambda o=o: run.chooser.rng.randrange(len(o)))])
                with run.guard(name, "discarded look-ahead step from the same state", promise=False):
                    td.set("action", torch.tensor(alt))
                    env.step(td)
                run.fault("lookahead_discarded")
                run.probe("lookahead_discarded")
                run.nontrivial = True
            for pos, a in enumerate(acts):
                hist[pos].append(a)
            tail.append(acts)
            with run.guard(name, "step", tick=t, B=len(src)):
                td = E.step(env, td, torch.tensor(acts))
            run.tick()
            t += 1
            # SDVRP: float32 accumulators vs float64 reference (DESIGN 4): compare, then adopt
            if name == "sdvrp":
                for pos, ref in enumerate(refs):
                    if ref is None or done_at[pos] is not None:
                        continue
                    drift = ref.sync(td["demand_with_depot"][pos].double().tolist(),
                                     float(td["used_capacity"][pos].double().flatten()[0]))
                    if drift > RR.tau(1.0) and "c01" in self.mon:
                        run.violate(name, "state_drift", f"row {pos}: delivered/remaining demand differs from the "
                                    f"reference by {drift:.3g}", constraint="demand_accounting", cfg=cfg)
                        raise StopRun()
        self._final(env, td, src, refs, hist, done_at, "main")
        if snap is not None and snap["valid"] and tail:
            td2 = snap["td"]
            for acts in tail:
                with run.guard(name, "step after snapshot restore"):
                    td2 = E.step(env, td2, torch.tensor(acts))
            run.probe("snapshot_restored")
            self._final(env, td2, src, refs, hist, done_at, "restore")

    # ------------------------------------------------------------------------------------------------
    def _final(self, env, td, src, refs, hist, done_at, phase):
        run, name, cfg = self.run, self.name, self.cfg
        B = len(src)
        T = len(hist[0])
        for pos in range(B):
            own = hist[pos][: done_at[pos]]
            ref = refs[pos]
            row = self.rows[src[pos]]
            if done_at[pos] != max(done_at):
                run.probe("unequal_finish")
                run.nontrivial = True
            if "c02" in self.mon and phase == "main":
                bound = ref.step_bound() if ref is not None else generic_step_bound(name, row, cfg)
                if bound is not None and done_at[pos] > bound:
                    run.violate(name, "step_bound", f"row {pos} needed {done_at[pos]} steps, problem bound {bound}",
                                constraint="step_bound", steps=done_at[pos], bound=bound, cfg=cfg, history=own)
                    raise StopRun()
            if "c01" in self.mon and ref is not None and phase == "main":
                v = ref.violations(own)
                if v:
                    run.violate(name, "infeasible_solution", f"row {pos}: mask-confined episode ended in a solution "
                                f"violating {v[:3]}", constraint=v[0][0], actions=own, cfg=cfg,
                                instance=E.enc_row(row))
                    raise StopRun()
        if "c03" in self.mon:
            actions = torch.tensor(hist, dtype=torch.long).reshape(B, T)
            with run.guard(name, f"get_reward ({phase})", B=B):
                rew = env.get_reward(td, actions)
            rew = torch.as_tensor(rew).reshape(-1).clone()
            # the reward is reported more than once in practice (select-best, then the policy's forward):
            # asking again for the same finished state must give the same objective
            with run.guard(name, f"get_reward again ({phase})", B=B):
                rew_again = torch.as_tensor(env.get_reward(td, actions)).reshape(-1)
            if rew.numel() == rew_again.numel() and not torch.allclose(rew, rew_again, rtol=1e-6, atol=1e-6, equal_nan=True):
                r = int(torch.nonzero(~torch.isclose(rew, rew_again, rtol=1e-6, atol=1e-6, equal_nan=True))[0])
                run.violate(name, "reward_not_repeatable", f"row {r}: get_reward on the same finished state returned "
                            f"{float(rew[r])!r} and then {float(rew_again[r])!r}", constraint="repeatable",
                            first=float(rew[r]), second=float(rew_again[r]), cfg=cfg, mode=cfg.get("kw", {}))
                raise StopRun()
            if rew.numel() != B:
                run.violate(name, "reward_shape", f"get_reward returned {rew.numel()} values for a batch of {B}",
                            constraint="shape", cfg=cfg)
                raise StopRun()
            # environments whose objective is a function of (instance, actions) are also re-scored on a freshly
            # reset state of the same instances -- what rl4co.tasks.eval and the search methods do with the
            # actions they get back; the objective of the executed solution cannot depend on which state is handed in
            if name in RESCORE_ON_RESET and phase == "main" and len(src) == B:
                with run.guard(name, "reset + get_reward on the fresh state", B=B, promise=False):
                    td_fresh = E.reset(env, cfg, [self.rows[src[pos]] for pos in range(B)])
                    rew_fresh = torch.as_tensor(env.get_reward(td_fresh, actions)).reshape(-1)
                if rew_fresh.numel() == B:
                    for pos in range(B):
                        a, b_ = float(rew[pos]), float(rew_fresh[pos])
                        if (a == a) and not (abs(a - b_) <= reward_tol(a, T)):
                            run.violate(name, "reward_depends_on_state", f"row {pos}: get_reward gives {a!r} on the "
                                        f"finished state and {b_!r} on a freshly reset state of the same instance, same "
                                        f"actions", constraint="fresh_state", first=a, second=b_, cfg=cfg,
                                        mode=cfg.get("kw", {}), actions=hist[pos], instance=E.enc_row(self.rows[src[pos]]))
                            raise StopRun()
                    run.probe("rescored_on_fresh_state")
            for pos in range(B):
                ref = refs[pos]
                if ref is None:
                    continue
                own = hist[pos][: done_at[pos]]
                want = ref.objective(own)
                if want is None:
                    continue
                got = float(rew[pos])
                if not (abs(got - want) <= reward_tol(want, len(own))):
                    run.violate(name, "reward_mismatch", f"row {pos} reward {got!r} but objective of the executed "
                                f"solution is {want!r} (phase {phase}, padded {T - done_at[pos]} ticks)",
                                constraint="objective", got=got, want=want, actions=own, padded=T - done_at[pos],
                                B=B, cfg=cfg, mode=cfg.get("kw", {}), instance=E.enc_row(self.rows[src[pos]]),
                                phase=phase)
                    raise StopRun()
                run.probe("reward_checked")
            run.log.add("rewards", phase, [float(x).hex() for x in rew.tolist()])
        run.log.add("final", phase, hist, done_at)

    def _throwaway(self, env, td_in, p):
        run, name, cfg = self.run, self.name, self.cfg
        with run.guard(name, "earlier episode on the stored instances: reset"):
            td = env.reset(td_in)
        cap = D.step_bound_generic(cfg, td)
        t = 0
        while not bool(E.done_vec(td).all()) and t < cap:
            acts = []
            for r in range(td.batch_size[0]):
                opts = D.admitted(td["action_mask"][r])
                if not opts:
                    return
                acts.append(D.choose(run, "uniform", td, r, opts))
            with run.guard(name, "earlier episode on the stored instances: step"):
                td = E.step(env, td, torch.tensor(acts))
            t += 1
        run.fault("reuse_store")
        run.nontrivial = True

    def _alternate(self, env, p):
        run, name, cfg = self.run, self.name, self.cfg
        b = 1 + p["seed"] % 3
        sel = [self.rows[(p["seed"] + j) % len(self.rows)] for j in range(b)]
        with run.guard(name, "alternate episode reset"):
            td = E.reset(env, cfg, sel)
        cap = D.step_bound_generic(cfg, td)
        t = 0
        while not bool(E.done_vec(td).all()) and t < cap:
            acts = []
            for r in range(b):
                opts = D.admitted(td["action_mask"][r])
                if not opts:
                    return
                acts.append(D.choose(run, "uniform", td, r, opts))
            with run.guard(name, "alternate episode step"):
                td = E.step(env, td, torch.tensor(acts))
            t += 1
        run.fault("alternate", b)
        run.nontrivial = True


# ----------------------------------------------------------------------------------------------------
def _plan(run_seed, tier, env_names, perturb_kinds, p_perturb=0.5):
    st = Streams(run_seed)
    rc = st.get("config")
    pool = E.only_filter(env_names)
    name = pool[rc.randrange(len(pool))]
    cfg = E.sample_cfg(name, rc, tier)
    env = E.make_env(cfg)
    B = rc.choice([1, 2, 3, 3, 4, 5, 6])
    rows = E.gen_rows(env, cfg, B, st.torch_seed("instances"))
    source = "generator"
    if rc.random() < 0.4:
        rows, source = E.hand_format(name, rows, rc)
    strategies = [rc.choice(D.STRATEGIES) for _ in range(B)]
    if B > 1 and rc.random() < 0.4:  # rows that finish far apart
        strategies[0] = "zero_eager"
        strategies[-1] = "zero_averse"
    perturbs = []
    if rc.random() < p_perturb:
        for _ in range(rc.randint(1, 2)):
            perturbs.append({"kind": rc.choice(perturb_kinds), "at": rc.randint(0, 6),
                             "seed": rc.randrange(1 << 30)})
    env_cfg = E.cross_size_cfg(cfg, rc) if rc.random() < 0.15 else None
    # "overrun": the whole batch is stepped on for a few ticks after its last row finished (a decoding loop with a
    # fixed number of steps, a batch-mate in a larger stacked batch): finished rows stay finished and steppable, and
    # the objective of the executed solution does not change.  The only way fixed-length environments get padded.
    # (not SVRP: every depot visit of a finished row uses up a technician; a lock-step batch never pads a row
    # beyond the number of technicians, an overrun does and the environment indexes past the last one)
    overrun = rc.choice([0, 0, 0, 1, 2, 3]) if (name in E.ROUTING and name != "svrp") else 0
    # TorchRL stepping (`_torchrl_mode=True`, documented): step() works on a copy and leaves the state it was given
    # untouched, so a search may try an action from a state, discard the result and go on from the same state.
    # Scheduled for the environments that accumulate their objective inside the state.
    lookahead = False
    if name in ("mdcpdp", "ffsp") and rc.random() < 0.3:
        cfg["kw"]["_torchrl_mode"] = True
        lookahead = True
        overrun = 0
    return {"cfg": cfg, "env_cfg": env_cfg, "instances": [E.enc_row(r) for r in rows], "strategies": strategies,
            "perturbs": perturbs, "source": source, "overrun": overrun, "lookahead": lookahead}


def _shrink(plan):
    for i in range(len(plan["perturbs"])):
        p = copy.deepcopy(plan)
        del p["perturbs"][i]
        yield p
    if len(plan["instances"]) > 1:
        for i in range(len(plan["instances"])):
            p = copy.deepcopy(plan)
            del p["instances"][i]
            del p["strategies"][i]
            yield p
    for i, s in enumerate(plan["strategies"]):
        if s != "lowest":
            p = copy.deepcopy(plan)
            p["strategies"][i] = "lowest"
            yield p


def _sample(run):
    p = run.plan
    return {"env": p["cfg"], "B": len(p["instances"]), "strategies": p["strategies"], "perturbs": p["perturbs"],
            "instance0": p["instances"][0], "first_events": run.log.events[-3:]}


def _execute(run, monitors):
    p = run.plan
    rows = [E.dec_row(r) for r in p["instances"]]
    perturbs = copy.deepcopy(p["perturbs"])
    EpisodeSim(run, monitors, p["cfg"], rows, p["strategies"], perturbs).go()


_COMMON_REAL = ["rl4co.envs.* (_reset/_step/get_action_mask/get_reward)", "rl4co generators (instances)"]
_COMMON_STUB = ["action chooser (seeded adversarial scheduler instead of a trained policy)",
                "EDA PDN data files (random stub npy)"]


# ----------------------------------------------------------------------------------------------------
# MDCPDP with several depots (hand-supplied per-depot capacities): invariant-only episodes
# ----------------------------------------------------------------------------------------------------
MD_STRATEGIES = ["random", "pickups_high", "pickups_low", "depots_first", "deliveries_first"]


def _plan_mdcpdp_multi(rc, st):
    """The generator emits capacity [B,1] (recorded defect: the environment reads the depot count from it), so the
    multi-depot case is driven with hand-supplied instances in the per-depot format capacity [B, num_depot] (equal
    values: "the" vehicle capacity is then unambiguous).  No reference model of the multi-vehicle semantics is
    assumed: only what holds under every reading is checked on the executed action sequence."""
    D = rc.choice([2, 2, 3, 4, 5])
    h = rc.choice([1, 2, 2, 3, 4])
    c = rc.choice([1, 1, 2, 3])
    cfg = {"env": "mdcpdp", "n": 2 * h,
           "gen": {"num_loc": 2 * h, "num_depot": D, "depot_mode": rc.choice(["single", "multiple"])},
           "kw": {"reward_mode": rc.choice(["minmax", "minsum", "lateness"]),
                  "problem_mode": rc.choice(["close", "open"]), "dist_mode": rc.choice(["L1", "L2"])}}
    env = E.make_env(cfg)
    B = rc.choice([1, 2, 3])
    rows = E.gen_rows(env, cfg, B, st.torch_seed("instances"))
    for r in rows:
        r["capacity"] = torch.full((D,), c, dtype=r["capacity"].dtype)
    return {"scenario": "mdcpdp_multi", "cfg": cfg, "instances": [E.enc_row(r) for r in rows],
            "strategies": [rc.choice(MD_STRATEGIES) for _ in range(B)], "perturbs": [],
            "D": D, "half": h, "cap": c, "source": "hand:mdcpdp_per_depot_capacity"}


def _exec_mdcpdp_multi(run):
    from .. import drive as D_   # (D is the number of depots below)

    p = run.plan
    cfg, D, h, c = p["cfg"], p["D"], p["half"], p["cap"]
    name = "mdcpdp"
    rows = [E.dec_row(r) for r in p["instances"]]
    B = len(rows)
    with run.guard(name, "construct env"):
        env = E.make_env(cfg)
    with run.guard(name, "reset", B=B):
        td = E.reset(env, cfg, rows)
    hist = [[] for _ in range(B)]
    bound = 4 * (D + 2 * h) + 10
    run.probe("mdcpdp_multi_depot")
    if D > h:
        run.probe("mdcpdp_more_depots_than_orders")
    for t in range(bound):
        done = E.done_vec(td)
        if bool(done.all()):
            break
        acts = []
        for r in range(B):
            opts = D_.admitted(td["action_mask"][r])
            if bool(done[r]):
                acts.append(opts[0] if opts else 0)
                continue
            if not opts:
                run.probe("mdcpdp_multi_dead_end")   # termination / dead ends are C02's ground
                return
            pick_ = [a for a in opts if D <= a < D + h]
            deli_ = [a for a in opts if a >= D + h]
            depo_ = [a for a in opts if a < D]
            s = p["strategies"][r]
            pref = {"pickups_high": pick_[::-1], "pickups_low": pick_, "depots_first": depo_,
                    "deliveries_first": deli_}.get(s, [])
            if pref and run.chooser.pick(4) != 0:
                a = pref[0]
            else:
                a = opts[run.chooser.pick(len(opts))]
            # ---- what holds under every reading of the multi-depot problem ------------------------------
            why = None
            if a >= D and a in hist[r]:
                why = "visited_once"
            elif a >= D + h and (a - h) not in hist[r]:
                why = "pickup_before_delivery"
            elif D <= a < D + h:
                on_board = sum(1 for x in hist[r] if D <= x < D + h) - sum(1 for x in hist[r] if x >= D + h)
                if on_board + 1 > c:
                    why = "carry_capacity"
            if why is not None:
                run.violate(name, "infeasible_action_admitted",
                            f"row {r} tick {t} ({D} depots, {h} orders, capacity {c} per depot): mask admits action {a} "
                            f"which violates '{why}' after {hist[r]}", constraint=why, tick=t, action=a,
                            history=hist[r], cfg=cfg, instance=E.enc_row(rows[r]), num_depot=D)
                raise StopRun()
            hist[r].append(a)
            acts.append(a)
        with run.guard(name, "step", tick=t, actions=acts):
            td = E.step(env, td, torch.tensor(acts, dtype=torch.long))
        run.tick()
        run.state(name, D, h, c, tuple(hist[0][-3:]))
    run.log.add("mdcpdp_multi", D, h, c, hist)
    run.nontrivial = True
    if any(sum(1 for x in hh if D <= x < D + h) and max(
            sum(1 for x in hh[:i + 1] if D <= x < D + h) - sum(1 for x in hh[:i + 1] if x >= D + h)
            for i in range(len(hh))) >= c for hh in hist):
        run.probe("mdcpdp_multi_full_vehicle")


class C01:
    prop = "C01"
    level = "exploration"
    chunk = 4
    rule = ("run = one routing environment configuration (13 envs, MTVRP presets incl. all 16 variants) x batch "
            "of 1-6 generator instances x per-row action strategy (8 strategies) x up to 2 perturbations "
            "(reindex, snapshot, alternate); every taken action is classified by the reference model and the "
            "final solution validated.  Non-trivial = a perturbation fired or rows finished at different "
            "ticks; distinct = distinct event-log digest.")
    components_real = _COMMON_REAL
    components_stub = _COMMON_STUB[:1]
    assumptions = ["float band tau = 1e-5*max(1, scale): actions inside the band are never flagged",
                   "MDCPDP under its one-depot reading (DESIGN 7.11); with several depots (4% of the runs, hand-supplied "
                   "per-depot capacities) only reading-independent invariants: customers once, pickup before delivery, "
                   "orders on board <= capacity", "reference models in rlsim/ref/routing.py are "
                   "the independent problem definitions"]
    required_probes = ["row_padded", "unequal_finish"]
    CANARIES = CE.C01_CANARIES

    @staticmethod
    def make_plan(run_seed, tier):
        st = Streams(run_seed)
        r0 = st.get("scenario")
        if r0.random() < 0.04 and "mdcpdp" in E.only_filter(E.ROUTING):
            return _plan_mdcpdp_multi(r0, st)
        return _plan(run_seed, tier, E.ROUTING, ["reindex", "snapshot", "alternate", "reuse_store"])

    @staticmethod
    def execute(run):
        if run.plan.get("scenario") == "mdcpdp_multi":
            return _exec_mdcpdp_multi(run)
        _execute(run, {"c01"})

    sample = staticmethod(_sample)
    shrink = staticmethod(_shrink)


class C02:
    prop = "C02"
    level = "exploration"
    chunk = 4
    rule = ("run = one of the 21 constructive environments x batch of 1-6 instances with deliberately mixed "
            "finish-fast / finish-slow strategies x perturbations (reindex, snapshot, alternate, env pickle/deepcopy "
            "mid-episode); invariants after every tick (>=1 admitted action for every row while any row runs, done "
            "monotone) and on the history (step bound); in half of the runs additionally rl4co's own rollout() with "
            "its random policy under max_steps = bound.  Non-trivial = perturbation fired or unequal finishing "
            "ticks; distinct = distinct event-log digest.")
    components_real = _COMMON_REAL + ["rl4co.utils.decoding.rollout / random_policy"]
    components_stub = _COMMON_STUB
    assumptions = ["step bounds: reference step_bound() (routing) or the problem bounds of DESIGN 5/C02",
                   "uniform quota per batch for selection environments"]
    required_probes = ["row_padded", "mixed_finished_unfinished"]
    CANARIES = CE.C02_CANARIES

    @staticmethod
    def make_plan(run_seed, tier):
        p = _plan(run_seed, tier, E.ALL_CONSTRUCTIVE, ["reindex", "snapshot", "alternate", "env_restart", "reuse_store"], 0.6)
        r2 = Streams(run_seed).get("config2")
        p["lib_rollout"] = r2.random() < 0.5
        if p["cfg"]["env"] == "flp" and len(p["instances"]) > 1 and r2.random() < 0.5:
            # FLP carries its quota per instance (`to_choose` [B]): rows of one batch may finish at different
            # steps and are then padded with further selections.  (Only C02's invariants are claimed for such
            # batches; objective / independence of padding are out of scope, DESIGN 10.2.)
            n = p["cfg"]["gen"]["num_loc"]
            for inst in p["instances"]:
                q = r2.randint(1, n)
                inst["to_choose"]["v"] = q if not isinstance(inst["to_choose"]["v"], list) else [q]
            p["source"] = "hand:flp_mixed_quota"
        return p

    @staticmethod
    def execute(run):
        _execute(run, {"c02"})
        if run.plan.get("lib_rollout"):
            _library_rollout(run)

    sample = staticmethod(_sample)
    shrink = staticmethod(_shrink)


def _library_rollout(run):
    """rl4co's own batched loop with its random policy: must terminate below the safety cap and
    never hand an all-masked row to the sampler (torch.multinomial raises on a zero row)."""
    from rl4co.utils.decoding import random_policy, rollout

    p = run.plan
    cfg = p["cfg"]
    name = cfg["env"]
    rows = [E.dec_row(r) for r in p["instances"]]
    env = E.make_env(p.get("env_cfg") or cfg)
    td = E.reset(env, cfg, rows)
    bounds = []
    for r in rows:
        ref = get_ref(name, r, cfg)
        b = ref.step_bound() if ref is not None else generic_step_bound(name, r, cfg)
        bounds.append(b if b is not None else D.step_bound_generic(cfg, td))
    cap = max(bounds)
    torch.manual_seed(run.streams.torch_seed("rollout"))
    try:
        _, td2, actions = rollout(env, td, random_policy, max_steps=cap)
    except Exception as e:  # noqa: BLE001
        if isinstance(e, RuntimeError) and ("multinomial" in str(e) or "probability" in str(e)):
            run.violate(name, "all_masked_row_sampled", f"rollout(): {str(e)[:200]}", constraint="all_masked", cfg=cfg)
            raise StopRun()
        with run.guard(name, "library rollout"):
            raise
    run.fault("library_rollout")
    if not bool(E.done_vec(td2).all()):
        run.violate(name, "safety_cap_hit", f"rollout() stopped by max_steps={cap} with unfinished rows",
                    constraint="termination", cfg=cfg)
        raise StopRun()
    run.log.add("lib_rollout", actions.tolist())


class C03:
    prop = "C03"
    level = "exploration"
    chunk = 4
    rule = ("run = one environment with a reference objective (13 routing envs in every reward mode: mTSP "
            "minmax/sum, MDCPDP minmax/minsum/lateness x open/close x L1/L2, MTVRP open/closed presets, PCTSP/SPCTSP; "
            "SMTWTP, FJSP/JSSP/FFSP, FLP, MCP) x batch of 1-6 instances finishing at unequal ticks x strategies x "
            "perturbations (reindex, snapshot/restore, alternate); reward from env.get_reward on the padded action "
            "matrix vs the float64 objective recomputed from the original instance and the executed actions alone. "
            "Non-trivial = perturbation fired or unequal finishing ticks; distinct = distinct event-log digest.")
    components_real = _COMMON_REAL
    components_stub = _COMMON_STUB[:1]
    assumptions = ["tolerance 1e-5*max(1,|ref|)*sqrt(steps)", "padding moves of finished rows cost nothing",
                   "DPP/MDPP rewards (decap simulator) are not modelled: not listed by the property"]
    required_probes = ["reward_checked", "row_padded"]
    CANARIES = CE.C03_CANARIES
    ENVS = E.ROUTING + ["smtwtp", "fjsp", "jssp", "ffsp", "flp", "mcp"]

    @staticmethod
    def make_plan(run_seed, tier):
        return _plan(run_seed, tier, C03.ENVS, ["reindex", "snapshot", "alternate", "reuse_store"])

    @staticmethod
    def execute(run):
        _execute(run, {"c03"})

    sample = staticmethod(_sample)
    shrink = staticmethod(_shrink)
