"""C08 — selection environments pick exactly the quota of distinct, allowed items, and the
bookkeeping shown to the policy is what follows from the selection made so far.

A run = one environment configuration (FLP, MCP, DPP, MDPP; seeded choice) x 2-4 instances (from
the real generator and/or hand-built in the documented input format) x 1-3 episodes.  An episode
drives a scheduled batch composition (1-5 rows, copies allowed, every row its own selection-order
strategy) to completion through the real `reset/step`, checking after every tick, per row, against
an independent pure-Python reference:

    quota      `done` is false before the quota-th selection and true right after it
    mask       action_mask == (not chosen) and allowed (keep-out cells and probing ports never offered)
    selection  the executed action is distinct from all earlier ones and not forbidden
    bookkeeping  i / chosen / FLP distances / MCP weights + membership equal the reference's values
    reward     get_reward == reference objective (FLP, MCP)
    snapshot   a td.clone() taken mid-episode still equals its fingerprint at the end, and re-driving
               the recorded suffix from it passes the same oracles and yields the same reward

Perturbations: compose (batch composition / position / copies; the solo-vs-batch comparison itself
is C04's), snapshot/restore, alternate episode on the same env object, env pickle / deepcopy
mid-episode.  `stall` cannot occur: the quota is uniform over a batch, all rows finish together.
"""
from __future__ import annotations

import copy
import hashlib
import math
import pickle

import torch

from .. import drive as D
from .. import envs as E
from ..kernel import HarnessError, StopRun, Streams
from ..ref import selection as S

ENVS = ["flp", "mcp", "dpp", "mdpp"]


def _tol(ref: float, n: int) -> float:
    return 1e-5 * max(1.0, abs(ref)) * math.sqrt(max(n, 1))


# ------------------------------------------------------------------------------------------------
# configuration and instances
# ------------------------------------------------------------------------------------------------
def _sample_cfg(name, rc, tier):
    big = rc.random() < (0.15 if tier == "thorough" else 0.06)
    if name == "flp":
        n = rc.choice([15, 20, 30]) if big else rc.randint(3, 9)
        q = rc.choice([1, 2, n - 1, n]) if rc.random() < 0.35 else rc.randint(1, n)
        return {"env": "flp", "n": n, "kw": {}, "gen": {"num_loc": n, "to_choose": max(1, q)}}
    if name == "mcp":
        ns = rc.choice([12, 20]) if big else rc.randint(3, 8)
        lo = rc.randint(1, 3)
        q = rc.choice([1, ns - 1, ns]) if rc.random() < 0.3 else rc.randint(1, ns)
        return {"env": "mcp", "n": ns, "kw": {},
                "gen": {"num_items": rc.randint(4, 12) if not big else rc.randint(15, 30),
                        "num_sets": ns, "min_size": lo, "max_size": lo + rc.randint(0, 3),
                        "n_sets_to_choose": max(1, q)}}
    if name in ("dpp", "mdpp"):
        size = 8
        md = rc.randint(1, 6)
        if name == "mdpp" and rc.random() < 0.25:
            md = 20      # the value a default DPPGenerator carries (see DESIGN 7.16)
        elif rc.random() < 0.1:
            md = rc.randint(7, 14)
        cfg = {"env": name, "n": size * size, "kw": {}, "size": size,
               "gen": {"num_keepout_min": 1, "num_keepout_max": rc.choice([2, 8, 20, 30]),
                       "max_decaps": md}}
        if name == "mdpp":
            cfg["gen"]["num_probes_min"] = rc.choice([1, 2])
            cfg["gen"]["num_probes_max"] = rc.choice([3, 6])
        return cfg
    raise HarnessError(name)


def _hand_flp(cfg, rc):
    n, q = cfg["gen"]["num_loc"], cfg.get("inst_quota", cfg["gen"]["to_choose"])
    grid = [0.0, 0.125, 0.25, 0.5, 0.75, 1.0]
    mode = rc.choice(["grid", "duplicates", "line", "wide"])
    if mode == "wide":
        # coordinates far outside the unit box, as `loc_distribution="normal"` produces them; the initial
        # `distances` bound sqrt(2)*(max_loc-min_loc) written by the generator is then NOT an upper bound
        grid = [-3.0, -1.5, 0.0, 0.5, 1.0, 2.5, 4.0]
    pts = []
    for k in range(n):
        if mode == "line":
            pts.append([rc.choice(grid), 0.5])
        elif mode == "duplicates" and pts and rc.random() < 0.4:
            pts.append(list(rc.choice(pts)))
        else:
            pts.append([rc.choice(grid), rc.choice(grid)])
    locs = torch.tensor(pts, dtype=torch.float32)
    dm = (locs[:, None, :] - locs[None, :, :]).pow(2).sum(-1).sqrt()
    bound = math.sqrt(2.0)
    # the distance matrix is part of the instance: road-network style data (Manhattan, detour factor) whose matrix
    # is not the Euclidean matrix of the coordinates
    metric = rc.choice(["euclid", "euclid", "manhattan", "detour", "oneway"])
    if metric == "oneway":
        # asymmetric service costs (row a = cost of serving the others FROM a, as `_get_reward` reads the
        # matrix): going to a higher index costs 1.5 times the distance, so D[a][j] != D[j][a]
        idx = torch.arange(n)
        dm = torch.where(idx[:, None] < idx[None, :], dm * 1.5, dm)
    elif metric == "manhattan":
        dm = (locs[:, None, :] - locs[None, :, :]).abs().sum(-1)
    elif metric == "detour":
        dm = dm * 1.5
    if metric != "euclid":
        bound = float(dm.max()) + 0.5
    # the generator emits to_choose with shape [B]; its docstring documents [B, 1]: both are used
    tc = torch.tensor([q] if cfg.get("flp_quota_2d") else q, dtype=torch.int64)
    return {"locs": locs, "orig_distances": dm,
            "distances": torch.full((n,), bound, dtype=torch.float32),
            "chosen": torch.zeros(n, dtype=torch.bool),
            "to_choose": tc}


def _hand_mcp(cfg, rc):
    g = cfg["gen"]
    ns, ni, q = g["num_sets"], g["num_items"], cfg.get("inst_quota", g["n_sets_to_choose"])
    width = rc.randint(1, max(1, g["max_size"] + 1))
    rows = []
    for s in range(ns):
        k = 0 if rc.random() < 0.1 else rc.randint(1, width)   # an all-padding (empty) set is legal data
        items = [rc.randint(1, ni) for _ in range(k)]
        if k >= 2 and rc.random() < 0.4:
            items[rc.randrange(1, k)] = items[0]            # duplicate item inside the set
        if rows and rc.random() < 0.2:
            items = [x for x in rows[rc.randrange(len(rows))] if x != 0][:width]  # identical sets
        row = items + [0] * (width - len(items))
        if rc.random() < 0.5:
            rc.shuffle(row)                                  # padding anywhere in the row
        rows.append(row)
    wmode = rc.choice(["int", "dyadic", "equal"])
    if wmode == "int":
        w = [float(rc.randint(1, 10)) for _ in range(ni)]
    elif wmode == "dyadic":
        w = [rc.choice([0.25, 0.5, 1.0, 1.5, 2.0, 8.0]) for _ in range(ni)]
    else:
        w = [1.0] * ni
    return {"membership": torch.tensor(rows, dtype=torch.float32),
            "weights": torch.tensor(w, dtype=torch.float32),
            "n_sets_to_choose": torch.tensor([float(q)], dtype=torch.float32)}


def _hand_dpp(cfg, rc):
    size = cfg.get("size", 8)
    n = size * size
    q = cfg["gen"]["max_decaps"]
    name = cfg["env"]
    xs = torch.arange(size)
    locs = torch.stack(torch.meshgrid(xs, xs, indexing="ij"), dim=-1).reshape(-1, 2).float() / float(size)
    cells = list(range(n))
    rc.shuffle(cells)
    n_probe = 1 if name == "dpp" else rc.randint(1, 5)
    probes = cells[:n_probe]
    rest = cells[n_probe:]
    layout = rc.choice(["empty", "sparse", "half", "full", "full"])
    max_ko = len(rest) - q                     # documented-format rule: free cells >= quota
    if layout == "empty":
        ko = 0
    elif layout == "sparse":
        ko = rc.randint(0, min(5, max_ko))
    elif layout == "half":
        ko = min(max_ko, len(rest) // 2)
    else:
        ko = max_ko - rc.choice([0, 0, 1, 2]) if max_ko >= 2 else max_ko
    ko = max(0, min(ko, max_ko))
    keep = rest[:ko]
    am = torch.ones(n, dtype=torch.bool)
    if keep:
        am[torch.tensor(keep, dtype=torch.long)] = False
    if name == "dpp":
        am[probes[0]] = False                  # documented: the mask excludes the probing port
        probe = torch.tensor([probes[0]], dtype=torch.int64)
    else:
        probe = torch.zeros(n, dtype=torch.bool)
        probe[torch.tensor(probes, dtype=torch.long)] = True
        if rc.random() < 0.5:                  # generator style: probes already masked in the input
            am[torch.tensor(probes, dtype=torch.long)] = False
    return {"locs": locs, "probe": probe, "action_mask": am}


HAND = {"flp": _hand_flp, "mcp": _hand_mcp, "dpp": _hand_dpp, "mdpp": _hand_dpp}


def _seed(s: int):
    """Seed the CPU generator only (torch.manual_seed also queues CUDA/XPU seeding, which formats a
    stack trace per call: ~1.5 ms)."""
    torch.default_generator.manual_seed(int(s))


def _fingerprint(td) -> str:
    h = hashlib.blake2b(digest_size=12)
    for k in sorted(td.keys()):
        v = td[k]
        if isinstance(v, torch.Tensor):
            h.update(k.encode())
            h.update(str(tuple(v.shape)).encode())
            h.update(v.detach().contiguous().cpu().numpy().tobytes())
    return h.hexdigest()


# ------------------------------------------------------------------------------------------------
class C08:
    prop = "C08"
    level = "exploration"
    chunk = 4
    rule = ("run = one selection environment (seeded choice over FLP, MCP, DPP, MDPP) with a sampled "
            "configuration (sizes, quota from 1 to 'everything', keep-out density, probes) x 2-4 instances "
            "(real generator and/or hand-built in the documented input format: duplicate/collinear FLP "
            "points, MCP rows with duplicate items / padding anywhere / identical sets, DPP/MDPP layouts "
            "from empty to 'free cells == quota') x 1-3 episodes; an episode = batch composition of 1-5 "
            "rows (copies allowed), one of the 8 selection-order strategies per row, and up to 3 "
            "perturbations (snapshot/restore, alternate episode on the same env object, env "
            "pickle/deepcopy mid-episode).  Every tick every row is compared with a pure-Python "
            "reference (mask, done, distinctness, forbidden cells, bookkeeping), the final reward with "
            "the reference objective (FLP, MCP).  Non-trivial = a perturbation fired or the batch had "
            ">= 2 rows; distinct = distinct event-log digest.")
    components_real = ["rl4co.envs.graph.flp.FLPEnv (_reset/_step/_get_reward)",
                       "rl4co.envs.graph.mcp.MCPEnv (_reset/_step/_get_reward)",
                       "rl4co.envs.eda.dpp.DPPEnv, rl4co.envs.eda.mdpp.MDPPEnv (__init__/_reset/_step)",
                       "FLPGenerator, MCPGenerator, DPPGenerator, MDPPGenerator (instances)",
                       "RL4COEnvBase.reset/step, env pickling (__getstate__/__setstate__) and deepcopy"]
    components_stub = ["action chooser (seeded adversarial scheduler instead of a policy)",
                       "EDA PDN data files (random stub npy, 8x8 grid instead of 10x10)"]
    assumptions = ["uniform quota per batch: every row of a batch has the same to_choose / "
                   "n_sets_to_choose / max_decaps (the environments reshape under that assumption); "
                   "mixed quotas inside one batch are out of scope",
                   "quota >= 1 and, for DPP/MDPP, number of free cells >= quota (documented-format rule)",
                   "DPP/MDPP electrical reward is not modelled (no reference objective); the decap "
                   "simulator is not called",
                   "the expected DPP/MDPP quota is the max_decaps the environment was configured with "
                   "(generator_params)",
                   "MCP hand-built rows keep >= 1 real item per set and item ids within 1..num_items",
                   "CPU float32 kernels; 8x8 stub grid"]
    required_probes = ["snapshot_restored", "env_restart", "alternate", "hand_instance",
                       "mcp_duplicate_item", "mcp_padding_inside_row", "dpp_full_layout",
                       "mdpp_probe_unmasked_in_input", "quota_is_everything", "batch_padded_membership"]
    excluded = []
    CANARIES = {}

    @staticmethod
    def prepare():
        E.eda_stub_dir()
        import rl4co.envs  # noqa: F401  imported before the workers fork

    # ---------------------------------------------------------------------------------------------
    @staticmethod
    def make_plan(run_seed: int, tier: str) -> dict:
        st = Streams(run_seed)
        rc = st.get("config")
        pool = E.only_filter(ENVS)
        name = pool[rc.randrange(len(pool))]
        cfg = _sample_cfg(name, rc, tier)
        m = rc.randint(2, 4)
        source = rc.choice(["generator", "hand", "mixed"])
        if name == "flp" and source == "hand" and rc.random() < 0.4:
            cfg["flp_quota_2d"] = True
        if name in ("flp", "mcp") and source == "hand" and rc.random() < 0.4:
            # the quota is part of the instance (`to_choose` / `n_sets_to_choose`): a dataset built for
            # another quota than the one the environment's generator was configured with
            nmax = cfg["gen"]["num_loc"] if name == "flp" else cfg["gen"]["num_sets"]
            cfg["inst_quota"] = rc.randint(1, nmax)
        rows, origin = [], []
        if source in ("generator", "mixed"):
            k = m if source == "generator" else max(1, m // 2)
            try:
                _seed(st.torch_seed("env"))
                env = E.make_env(cfg)
                rows = E.gen_rows(env, cfg, k, st.torch_seed("instances"))
                origin = ["generator"] * len(rows)
            except HarnessError:
                rows, origin = [], []   # generator defects are C18's business: fall back to hand-built
        ri = st.get("instance")
        while len(rows) < m:
            rows.append(HAND[name](cfg, ri))
            origin.append("hand")
        if name == "mcp":
            pass  # rows may have different membership widths; envs.batch_of pads them
        episodes = []
        for _ in range(rc.randint(1, 3)):
            b = rc.choice([1, 1, 2, 2, 3, 3, 4, 5])
            sel = [rc.randrange(m) for _ in range(b)]
            if rc.random() < 0.25:
                sel = [sel[0]] * b
            perturb = []
            if rc.random() < 0.65:
                for _k in range(rc.randint(1, 3)):
                    kind = rc.choice(["snapshot", "alternate", "env_restart", "env_restart"])
                    perturb.append({"kind": kind, "at": rc.randint(0, max(0, _quota(cfg) - 1)),
                                    "mode": rc.choice(["pickle", "deepcopy"]),
                                    "seed": rc.randrange(1 << 30)})
            episodes.append({"rows": sel, "strategies": [rc.choice(D.STRATEGIES) for _ in range(b)],
                             "perturb": perturb, "reuse_store": rc.random() < 0.3})
        return {"cfg": cfg, "source": source, "origin": origin,
                "instances": [E.enc_row(r) for r in rows], "episodes": episodes}

    @staticmethod
    def sample(run):
        p = run.plan
        return {"env": p["cfg"], "source": p["source"], "origin": p["origin"],
                "episodes": p["episodes"], "instance0": p["instances"][0],
                "results": getattr(run, "results", None)}

    @staticmethod
    def shrink(plan):
        for ei in range(len(plan["episodes"])):
            if len(plan["episodes"]) > 1:
                p = copy.deepcopy(plan)
                del p["episodes"][ei]
                yield p
        for ei, ep in enumerate(plan["episodes"]):
            for pi in range(len(ep["perturb"])):
                p = copy.deepcopy(plan)
                del p["episodes"][ei]["perturb"][pi]
                yield p
            if len(ep["rows"]) > 1:
                for ri in range(len(ep["rows"])):
                    p = copy.deepcopy(plan)
                    del p["episodes"][ei]["rows"][ri]
                    del p["episodes"][ei]["strategies"][ri]
                    yield p

    # ---------------------------------------------------------------------------------------------
    @staticmethod
    def execute(run):
        plan = run.plan
        cfg = plan["cfg"]
        name = cfg["env"]
        insts = [E.dec_row(r) for r in plan["instances"]]
        for o in plan["origin"]:
            if o == "hand":
                run.probe("hand_instance")
        _instance_probes(run, cfg, insts)
        _seed(run.streams.torch_seed("env"))
        with run.guard(name, "construct env"):
            env = E.make_env(cfg)
        run.results = []
        run.stats["runs:" + name] += 1
        run.stats["source:" + plan["source"]] += 1
        holder = {"env": env}
        for ei, ep in enumerate(plan["episodes"]):
            _episode(run, holder, cfg, insts, ep, ei)


def _quota(cfg) -> int:
    g = cfg["gen"]
    return int(g.get("to_choose", g.get("n_sets_to_choose", g.get("max_decaps", 1))))


def _instance_probes(run, cfg, insts):
    name = cfg["env"]
    if name == "mcp":
        for r in insts:
            for row in r["membership"].tolist():
                nz = [x for x in row if x != 0]
                if len(set(nz)) < len(nz):
                    run.probe("mcp_duplicate_item")
                if 0 in row:
                    last_nz = max((k for k, x in enumerate(row) if x != 0), default=-1)
                    if any(x == 0 for x in row[: last_nz + 1]):
                        run.probe("mcp_padding_inside_row")
        if len({r["membership"].shape[-1] for r in insts}) > 1:
            run.probe("batch_padded_membership")
        if _quota(cfg) == cfg["gen"]["num_sets"]:
            run.probe("quota_is_everything")
    elif name == "flp":
        if _quota(cfg) == cfg["gen"]["num_loc"]:
            run.probe("quota_is_everything")
    else:
        q = _quota(cfg)
        for r in insts:
            ref = S.make_ref(name, r, cfg)
            free = len(ref.free_items())
            if free <= q + 2:
                run.probe("dpp_full_layout")
            if free == q:
                run.probe("quota_is_everything")
            if name == "mdpp" and any(bool(r["action_mask"][p]) for p in ref.probes):
                run.probe("mdpp_probe_unmasked_in_input")


# ------------------------------------------------------------------------------------------------
# episodes
# ------------------------------------------------------------------------------------------------
def _alternate(run, env, cfg, insts, p):
    """A complete unrelated episode on the same env object (other batch size / rows)."""
    name = cfg["env"]
    b = 1 + p["seed"] % 3
    sel = [insts[(p["seed"] // 7 + j) % len(insts)] for j in range(b)]
    with run.guard(name, "alternate episode reset", phase="alternate"):
        td = E.reset(env, cfg, sel)
    cap = D.step_bound_generic(cfg, td)
    t = 0
    while not bool(E.done_vec(td).all()) and t < cap:
        acts = []
        for r in range(b):
            opts = D.admitted(td["action_mask"][r])
            if not opts:
                return
            acts.append(D.choose(run, "uniform", td, r, opts))
        with run.guard(name, "alternate episode step", phase="alternate"):
            td = E.step(env, td, torch.tensor(acts))
        t += 1
    run.fault("alternate", b)
    run.probe("alternate")
    run.nontrivial = True


def _restart(run, holder, cfg, mode, t):
    name = cfg["env"]
    with run.guard(name, f"env {mode} mid-episode", phase="env_restart"):
        if mode == "pickle":
            holder["env"] = pickle.loads(pickle.dumps(holder["env"]))
        else:
            holder["env"] = copy.deepcopy(holder["env"])
    run.fault("env_restart", mode, t)
    run.probe("env_restart")
    run.nontrivial = True


def _viol(run, name, monitor, constraint, msg, **detail):
    run.violate(name, monitor, msg, constraint=constraint, **detail)
    raise StopRun()


def _check_state(run, holder, cfg, td, refs, t, phase, ep_i):
    """Oracles on the state before tick t (t selections made)."""
    name = cfg["env"]
    env = holder["env"]
    B = len(refs)
    done = E.done_vec(td)
    if done.numel() != B:
        _viol(run, name, "quota", "done_shape", f"done has {tuple(td['done'].shape)} for batch {B}",
              tick=t, B=B, cfg=cfg, phase=phase)
    quota = refs[0].quota
    for r, ref in enumerate(refs):
        want = ref.done() == "must"
        got = bool(done[r])
        if got != want:
            if not got:
                cons, extra = "done_late", ""
                env_q = getattr(env, "max_decaps", None)
                if name in ("dpp", "mdpp") and env_q is not None and int(env_q) != quota:
                    cons = "max_decaps_ignored"
                    extra = (f"; the environment object carries max_decaps={int(env_q)} although it was "
                             f"constructed with generator_params max_decaps={quota}")
                _viol(run, name, "quota", cons,
                      f"row {r}: {t} selections made, quota {quota}, but done is False{extra}",
                      tick=t, row=r, B=B, quota=quota, env_max_decaps=getattr(env, "max_decaps", None),
                      cfg=cfg, phase=phase, episode=ep_i)
            _viol(run, name, "quota", "done_early",
                  f"row {r}: done is True after {t} selections, quota is {quota}",
                  tick=t, row=r, B=B, quota=quota, cfg=cfg, phase=phase, episode=ep_i)
    # ---- mask ---------------------------------------------------------------------------------------
    am = td["action_mask"]
    for r, ref in enumerate(refs):
        got = [bool(x) for x in am[r].tolist()]
        want = ref.allowed_mask()
        if len(got) != len(want):
            _viol(run, name, "mask", "mask_width", f"row {r}: mask has {len(got)} entries, instance has "
                  f"{len(want)} items", tick=t, row=r, cfg=cfg, phase=phase)
        if got != want:
            offered = [k for k in range(len(want)) if got[k] and not want[k]]
            if not offered:
                # a free item being hidden is not what C08 states (that is C05 / C02 ground): observation
                run.probe("obs:mask_hides_free")
                continue
            a = offered[0]
            f = ref.forbidden(a)
            cons = ("offers_" + f) if f else "offers_chosen"
            _viol(run, name, "mask", cons,
                  f"row {r} after {t} selections {ref.chosen}: mask[{a}]={got[a]} but item {a} is "
                  f"{'forbidden (' + ref.forbidden(a) + ')' if ref.forbidden(a) else ('already chosen' if a in ref.chosen else 'free and not chosen')}",
                  tick=t, row=r, B=B, item=a, chosen=list(ref.chosen), got=D.mask_bits(am[r]),
                  want="".join("1" if b else "0" for b in want), cfg=cfg, phase=phase, episode=ep_i)
    # ---- bookkeeping -------------------------------------------------------------------------------
    for r, ref in enumerate(refs):
        bk = ref.bookkeeping()
        for key, want in bk.items():
            if key not in td.keys():
                _viol(run, name, "bookkeeping", key, f"state has no '{key}'", tick=t, cfg=cfg, phase=phase)
            v = td[key][r]
            if key == "i":
                got = int(v.flatten()[0])
                ok = got == want
            elif key == "chosen":
                got = [bool(x) for x in v.tolist()]
                ok = got == want
            elif key == "membership":
                got = [[int(round(x)) for x in row] for row in v.tolist()]
                w = len(got[0]) if got else 0
                want = [row + [0] * (w - len(row)) for row in want]   # batch padding of narrower rows
                ok = got == want
            else:  # distances, weights: values are copies / minima of the instance's own float32 numbers
                got = [float(x) for x in v.tolist()]
                ok = len(got) == len(want) and all(g == w_ for g, w_ in zip(got, want))
            if not ok:
                _viol(run, name, "bookkeeping", key,
                      f"row {r} after {t} selections {ref.chosen}: td['{key}'] = {_short(got)} but the "
                      f"selection implies {_short(want)}",
                      tick=t, row=r, B=B, chosen=list(ref.chosen), got=got, want=want, cfg=cfg,
                      phase=phase, episode=ep_i)


def _short(x, n=14):
    s = str(x)
    return s if len(s) < 240 else s[:240] + "..."


def _drive(run, holder, cfg, td, refs, t, strategies, perturbs, phase, ep_i, script=None):
    """Drive from tick t to the quota.  Returns (td, executed per-tick action lists, snapshot)."""
    name = cfg["env"]
    B = len(refs)
    quota = refs[0].quota
    executed = []
    snap = None
    k = 0
    while True:
        _check_state(run, holder, cfg, td, refs, t, phase, ep_i)
        if t >= quota:
            break
        if script is None:
            for p in perturbs:
                if p["at"] != t or p.get("_fired"):
                    continue
                if p["kind"] == "snapshot" and snap is None:
                    snap = {"t": t, "td": td.clone(), "refs": [rf.clone() for rf in refs], "tail_from": len(executed)}
                    snap["fp"] = _fingerprint(snap["td"])
                    run.fault("snapshot", t)
                    run.nontrivial = True
                    p["_fired"] = True
                elif p["kind"] == "env_restart":
                    _restart(run, holder, cfg, p["mode"], t)
                    p["_fired"] = True
        acts = []
        for r, ref in enumerate(refs):
            if script is not None:
                a = script[k][r]
            else:
                opts = D.admitted(td["action_mask"][r])
                if not opts:   # cannot happen when the mask oracle passed (free cells >= quota)
                    _viol(run, name, "mask", "dead_end", f"row {r}: no action offered after {t} of {quota} "
                          f"selections", tick=t, row=r, cfg=cfg, phase=phase)
                a = D.choose(run, strategies[r], td, r, opts)
            verdict, why = ref.classify(a)
            if verdict != "must":
                _viol(run, name, "selection", why or "forbidden",
                      f"row {r}: mask-admitted action {a} is not allowed ({why}) after selections {ref.chosen}",
                      tick=t, row=r, action=a, chosen=list(ref.chosen), cfg=cfg, phase=phase)
            acts.append(a)
        with run.guard(name, f"step ({phase})", phase=phase, B=B, tick=t):
            td = E.step(holder["env"], td, torch.tensor(acts))
        for r, ref in enumerate(refs):
            ref.apply(acts[r])
        executed.append(acts)
        run.tick()
        run.log.add("t", ep_i, phase, t, acts)
        run.state(name, t, tuple(sorted(refs[0].chosen)), quota)
        t += 1
        k += 1
    return td, executed, snap


def _reward(run, holder, cfg, td, refs, phase, ep_i):
    """final reward vs reference objective (FLP, MCP).  Returns the rewards or None."""
    name = cfg["env"]
    if name not in ("flp", "mcp"):
        return None
    B = len(refs)
    T = len(refs[0].chosen)
    actions = torch.tensor([rf.chosen for rf in refs], dtype=torch.long).reshape(B, T)
    with run.guard(name, f"get_reward ({phase})", phase=phase, B=B):
        rew = holder["env"].get_reward(td, actions)
    rew = torch.as_tensor(rew).flatten()
    if rew.numel() != B:
        _viol(run, name, "reward", "shape", f"get_reward returned {tuple(rew.shape)} for batch {B}",
              B=B, cfg=cfg, phase=phase)
    out = []
    for r, ref in enumerate(refs):
        want = ref.objective(ref.chosen)
        got = float(rew[r])
        n = ref.n_actions if name == "flp" else ref.n_items
        if not abs(got - want) <= _tol(want, n):
            _viol(run, name, "reward", "objective",
                  f"row {r}: reward {got!r} but the selection {ref.chosen} is worth {want!r}",
                  row=r, B=B, got=got, want=want, chosen=list(ref.chosen), cfg=cfg, phase=phase,
                  episode=ep_i)
        out.append(got)
    run.log.add("reward", ep_i, phase, [x.hex() for x in out])
    return out


def _episode(run, holder, cfg, insts, ep, ep_i):
    name = cfg["env"]
    sel = list(ep["rows"])
    B = len(sel)
    perturbs = [dict(p) for p in sorted(ep["perturb"], key=lambda p: p["at"])]
    for p in perturbs:
        if p["kind"] == "alternate":
            _alternate(run, holder["env"], cfg, insts, p)
    rows = [insts[i] for i in sel]
    refs = [S.make_ref(name, r, cfg) for r in rows]
    if len({rf.quota for rf in refs}) != 1:
        raise HarnessError("mixed quotas in one batch are out of scope")
    if B >= 2:
        run.nontrivial = True
    run.stats["episodes:" + name] += 1
    run.stats["rows:" + name] += B
    if ep.get("reuse_store"):
        # the instances live in one stored TensorDict (a dataset); episodes are reset from slices of it,
        # which share its storage: an earlier complete episode on the same slice must leave them untouched
        store = E.batch_of(cfg, [{k: v.clone() for k, v in r.items()} for r in rows])
        with run.guard(name, "earlier episode on the stored instances", phase="reuse_store", B=B):
            tdw = holder["env"].reset(store[0:B])
            capw = D.step_bound_generic(cfg, tdw)
            tw = 0
            while not bool(E.done_vec(tdw).all()) and tw < capw:
                aw = []
                for r in range(B):
                    ow = D.admitted(tdw["action_mask"][r])
                    aw.append(ow[run.chooser.pick(len(ow))] if ow else 0)
                tdw = E.step(holder["env"], tdw, torch.tensor(aw))
                tw += 1
        run.fault("reuse_store")
        run.nontrivial = True
        with run.guard(name, "reset from the stored instances", phase="batch", B=B):
            td = holder["env"].reset(store[0:B])
    else:
        with run.guard(name, "reset", phase="batch", B=B):
            td = E.reset(holder["env"], cfg, rows)
    td, executed, snap = _drive(run, holder, cfg, td, refs, 0, ep["strategies"], perturbs, "batch", ep_i)
    if len(executed) != refs[0].quota:   # implied by the done oracle; kept as a cross-check
        _viol(run, name, "quota", "steps_ne_quota", f"{len(executed)} steps for quota {refs[0].quota}", cfg=cfg)
    rew = _reward(run, holder, cfg, td, refs, "batch", ep_i)
    final_fp = {k: td[k].clone() for k in ("action_mask",)}
    run.results.append({"episode": ep_i, "rows": sel, "actions": [rf.chosen for rf in refs], "reward": rew})
    # ---- snapshot: unchanged, and re-driving its suffix gives the same outcome --------------------------
    if snap is not None:
        if _fingerprint(snap["td"]) != snap["fp"]:
            _viol(run, name, "snapshot", "fingerprint",
                  f"a td.clone() taken after {snap['t']} selections was modified by later steps",
                  tick=snap["t"], cfg=cfg, episode=ep_i)
        tail = executed[snap["tail_from"]:]
        td2, ex2, _ = _drive(run, holder, cfg, snap["td"], snap["refs"], snap["t"], ep["strategies"], [],
                             "restore", ep_i, script=tail)
        rew2 = _reward(run, holder, cfg, td2, snap["refs"], "restore", ep_i)
        if not torch.equal(td2["action_mask"], final_fp["action_mask"]) or (
                rew is not None and any(abs(a - b) > _tol(a, 1) for a, b in zip(rew, rew2))):
            _viol(run, name, "snapshot", "redrive", "restoring a snapshot and re-driving the same selections "
                  "gave a different final mask / reward", tick=snap["t"], cfg=cfg, episode=ep_i,
                  reward_first=rew, reward_restored=rew2)
        run.probe("snapshot_restored")


# ------------------------------------------------------------------------------------------------
# canary mutants (sensitivity self-test; in-memory only, never applied to /repo)
# ------------------------------------------------------------------------------------------------
def _patch_cm(cls, attr, new, static=False):
    import contextlib

    orig = cls.__dict__[attr]

    @contextlib.contextmanager
    def cm():
        setattr(cls, attr, staticmethod(new) if static else new)
        try:
            yield
        finally:
            setattr(cls, attr, orig)

    return cm()


def _canary_flp_done_late():
    """FLP: `done` computed with i >= to_choose instead of i >= to_choose - 1 (one selection late)."""
    from rl4co.envs.graph.flp.env import FLPEnv

    orig = FLPEnv._step

    def mutant(self, td):
        i_before = td["i"].clone()
        td = orig(self, td)
        td["done"] = i_before >= td["to_choose"]
        return td

    return _patch_cm(FLPEnv, "_step", mutant)


def _canary_mcp_done_early():
    """MCP: `done` one selection early (i >= n_sets_to_choose - 2)."""
    from rl4co.envs.graph.mcp.env import MCPEnv

    orig = MCPEnv._step

    def mutant(self, td):
        i_before = td["i"].clone()
        td = orig(self, td)
        td["done"] = i_before >= (td["n_sets_to_choose"] - 2)
        return td

    return _patch_cm(MCPEnv, "_step", mutant)


def _canary_mcp_mask_not_updated():
    """MCP: the action mask is not updated with the chosen set."""
    from rl4co.envs.graph.mcp.env import MCPEnv

    orig = MCPEnv._step

    def mutant(self, td):
        before = td["action_mask"].clone()
        td = orig(self, td)
        td["action_mask"] = before
        return td

    return _patch_cm(MCPEnv, "_step", mutant)


def _canary_flp_distances_max():
    """FLP: current distances aggregated with max instead of min over the chosen facilities."""
    from rl4co.envs.graph.flp.env import FLPEnv
    from rl4co.utils.ops import gather_by_index

    orig = FLPEnv._step

    def mutant(self, td):
        td = orig(self, td)
        chosen = td["chosen"]
        b, n = chosen.shape
        td["distances"] = (
            gather_by_index(td["orig_distances"], chosen.nonzero(as_tuple=True)[1].view(b, -1))
            .view(b, -1, n).max(dim=1).values
        )
        return td

    return _patch_cm(FLPEnv, "_step", mutant)


def _canary_mcp_weights_stale():
    """MCP: remaining weights computed from the original weights and only the newly chosen set
    (items covered by earlier selections reappear)."""
    from rl4co.envs.graph.mcp.env import MCPEnv

    orig = MCPEnv._step

    def mutant(self, td):
        w_before = td["weights"].clone()
        td = orig(self, td)
        newly = (w_before != 0) & (td["weights"] == 0)
        td["weights"] = td["orig_weights"] * (~newly).float()
        return td

    return _patch_cm(MCPEnv, "_step", mutant)


def _canary_mdpp_mask_ignores_probes():
    """MDPP: _reset no longer removes the probing ports from the action mask."""
    from rl4co.envs.eda.dpp.env import DPPEnv
    from rl4co.envs.eda.mdpp.env import MDPPEnv

    def mutant(self, td=None, batch_size=None):
        td_reset = DPPEnv._reset(self, td, batch_size=batch_size)
        td_reset.update({"keepout": ~td_reset["action_mask"]})
        return td_reset

    return _patch_cm(MDPPEnv, "_reset", mutant)


def _canary_mdpp_max_decaps_ignored():
    """MDPP: the episode length comes from a default generator (max_decaps = 20) instead of the
    generator the environment was configured with (the defect of DESIGN 7.16, since repaired)."""
    from rl4co.envs.eda.mdpp.env import MDPPEnv

    orig = MDPPEnv.__init__

    def mutant(self, *a, **kw):
        orig(self, *a, **kw)
        self.max_decaps = 20

    return _patch_cm(MDPPEnv, "__init__", mutant)


def _canary_dpp_keepout_reopened():
    """DPP: _step re-opens the keep-out cells (mask rebuilt without the keep-out term)."""
    from rl4co.envs.eda.dpp.env import DPPEnv

    orig = DPPEnv._step

    def mutant(self, td):
        td = orig(self, td)
        td["action_mask"] = td["action_mask"] | td["keepout"]
        return td

    return _patch_cm(DPPEnv, "_step", mutant)


C08.CANARIES = {
    "flp_done_late": _canary_flp_done_late,
    "mcp_done_early": _canary_mcp_done_early,
    "mcp_mask_not_updated": _canary_mcp_mask_not_updated,
    "flp_distances_max": _canary_flp_distances_max,
    "mcp_weights_stale": _canary_mcp_weights_stale,
    "mdpp_mask_ignores_probes": _canary_mdpp_mask_ignores_probes,
    "dpp_keepout_reopened": _canary_dpp_keepout_reopened,
    "mdpp_max_decaps_ignored": _canary_mdpp_max_decaps_ignored,
}
