"""C09 — improvement environments keep tours valid and best-so-far bookkeeping exact.

A run = one variant (TSPkoptEnv k_max 2 / 3 / 4, PDPRuinRepairEnv) x instances (real generator and
hand-built grid coordinates with ties) x a batch composition (1-4 rows, copies allowed; `mirror`
batches consist of copies fed identical moves) x initial tours random|greedy x a history of moves
split into segments, each from one source:

    mask         every row's move is picked by the scheduler among ALL moves admitted by env.get_mask
                 (2-opt: any pair i != j; PDP: any pair to remove, then any admitted (first, second))
    random       the environment's own `_random_action`
    policy       DACTPolicy (k=2) / NeuOptPolicy (k=3,4) / N2SPolicy (PDP), random weights, eval mode,
                 sampling or greedy decoding
    to_solution  `env.step_to_solution` with a scheduler-made valid tour

After every move, per row, against a pure-Python successor-array reference and a ledger of every tour
seen: rec_current / rec_best are single cycles (PDP: precedence), cost_current = length(rec_current),
cost_bsf = length(rec_best) = min over all tours seen, cost_bsf never increases, reward = decrease of
cost_bsf, sum of rewards = initial - best, visited_time = positions along rec_current, the built-in
checker accepts rec_best.  Perturbations: `snapshot` (td.clone()) right after an improving move — at
the end the clone must still equal its fingerprint and re-driving the recorded moves from it must
reproduce the first pass; `compose` (batch size / position / copies; mirror rows must stay equal).
"""
from __future__ import annotations

import copy
import hashlib
import os
import random

import torch

from .. import envs as E
from ..kernel import HarnessError, StopRun, Streams
from ..ref import improvement as I

VARIANTS = ["kopt2", "kopt3", "kopt4", "kopt5", "kopt6", "pdp_rr", "kopt2", "pdp_rr"]  # k-opt "for k in {2,3,4,...}"
SCOPE = {"kopt2": "tsp_kopt2", "kopt3": "tsp_kopt3", "kopt4": "tsp_kopt4", "kopt5": "tsp_kopt5", "kopt6": "tsp_kopt6",
         "pdp_rr": "pdp_ruin_repair"}
POLICY = {"kopt2": "DACTPolicy", "kopt3": "NeuOptPolicy", "kopt4": "NeuOptPolicy", "kopt5": "NeuOptPolicy",
          "kopt6": "NeuOptPolicy", "pdp_rr": "N2SPolicy"}


def _only(names):
    only = os.environ.get("RLSIM_ONLY")
    if not only:
        return list(names)
    sel = [n for n in names if n in only.split(",")]
    return sel or list(names)


def _make_env(cfg):
    from rl4co.envs import get_env

    return get_env(cfg["env"], generator_params=dict(cfg["gen"]), **dict(cfg.get("kw", {})))


def _make_policy(plan):
    v = plan["variant"]
    pc = plan["policy"]
    kw = dict(embed_dim=pc["embed_dim"], num_encoder_layers=pc["layers"], num_heads=pc["heads"],
              feedforward_hidden=pc["embed_dim"])
    if v == "kopt2":
        from rl4co.models.zoo.dact.policy import DACTPolicy as P
    elif v in ("kopt3", "kopt4", "kopt5", "kopt6"):
        from rl4co.models.zoo.neuopt.policy import NeuOptPolicy as P
    else:
        from rl4co.models.zoo.n2s.policy import N2SPolicy as P
    pol = P(**kw)
    pol.eval()
    return pol


def _hand_row(variant, n, rc):
    """Coordinates on a coarse dyadic grid (ties, duplicate points, collinear points)."""
    grid = [0.0, 0.25, 0.5, 0.75, 1.0]
    mode = rc.choice(["grid", "line", "duplicates", "address"] + (["address"] * 5 if n >= 26 else []))
    k = n + 1 if variant == "pdp_rr" else n
    pts = []
    for _ in range(k):
        if mode == "address":
            # arbitrary (not grid) coordinates with several customers at one address: zero-length edges whose
            # computed length is exactly 0 only if the distance is taken coordinate-wise
            pts.append(list(rc.choice(pts)) if pts and rc.random() < 0.35 else [rc.random(), rc.random()])
        elif mode == "line":
            pts.append([rc.choice(grid + [0.125, 0.375]), 0.5])
        elif mode == "duplicates" and pts and rc.random() < 0.35:
            pts.append(list(rc.choice(pts)))
        else:
            pts.append([rc.choice(grid), rc.choice(grid)])
    t = torch.tensor(pts, dtype=torch.float32)
    if variant == "pdp_rr":
        return {"locs": t[1:], "depot": t[0]}
    return {"locs": t}


def _seed(s: int):
    """Seed the CPU generator only (torch.manual_seed also queues CUDA/XPU seeding, which formats a
    stack trace per call: ~1.5 ms)."""
    torch.default_generator.manual_seed(int(s))


def _fingerprint(td) -> str:
    h = hashlib.blake2b(digest_size=12)
    for k in sorted(td.keys()):
        v = td[k]
        if isinstance(v, torch.Tensor):
            h.update(k.encode())
            h.update(str(tuple(v.shape)).encode())
            h.update(v.detach().contiguous().cpu().numpy().tobytes())
    return h.hexdigest()


class C09:
    prop = "C09"
    level = "exploration"
    chunk = 2
    rule = ("run = one variant (seeded choice over TSPkoptEnv k_max=2,3,4 and PDPRuinRepairEnv) x num_loc "
            "4-10 x init_sol_type random|greedy x 2-3 instances (generator / hand-built dyadic grid with "
            "ties) x batch composition of 1-4 rows (copies allowed; mirror batches get identical moves) x "
            "history of 20-60 moves (thorough: up to 200) in 2-5 segments, each from one move source "
            "(scheduler over all mask-admitted moves, env._random_action, bundled policy with random "
            "weights sampling|greedy, step_to_solution) x optional snapshot right after the k-th "
            "improving move, restored and re-driven at the end.  Non-trivial = snapshot fired, or an "
            "improving move was followed by a worsening one, or >= 2 rows; distinct = distinct "
            "event-log digest.")
    components_real = ["rl4co.envs.routing.tsp.env.TSPkoptEnv (_reset/_step/_local_operator/get_mask/"
                       "_random_action/step_to_solution/check_solution_validity)",
                       "rl4co.envs.routing.pdp.env.PDPRuinRepairEnv (same members)",
                       "TSPGenerator/PDPGenerator incl. _get_initial_solutions (random, greedy)",
                       "DACTPolicy, NeuOptPolicy, N2SPolicy forward (encoder, decoders, internal masks, "
                       "decoding strategy) with random weights in eval mode"]
    components_stub = ["move chooser for the 'mask' and 'to_solution' sources (seeded adversarial scheduler)",
                       "policy weights are random (untrained)"]
    assumptions = ["CPU float32 kernels; costs compared with 1e-5 relative tolerance (sqrt(n) scaled)",
                   "visited_time is compared modulo the number of nodes (the environment writes n for node 0)",
                   "for k_max > 2 the environment has no move mask (NeuOpt masks inside the policy), so "
                   "k=3,4 moves come from _random_action, NeuOptPolicy and step_to_solution only",
                   "tours handed to step_to_solution are valid tours (PDP: precedence-feasible)",
                   "quick tier: num_loc 4-10, histories 20-60 moves; k in {2,3,4}"]
    required_probes = ["snapshot_restored", "improve_then_worsen", "move:mask", "move:random",
                       "move:policy", "move:to_solution", "mirror_batch", "tie_move",
                       "two_opt_whole_cycle", "pdp_first_eq_second", "init:greedy", "init:random"]
    excluded = [["N2SPolicy", "pdp_ruin_repair", "num_loc=2: with a single pickup-delivery pair the policy "
                 "masks the pair it removed last and has no candidate left (degenerate size)"],
                ["N2SPolicy", "pdp_ruin_repair", "num_loc=4 with the environment in eval() mode: action_record "
                 "then has num_loc/2 = 2 history rows while the removal decoder reads the last 3 (MLP input "
                 "7 instead of 8); train-mode environments keep num_loc+1 rows and are exercised"],
                ["DACTPolicy", "tsp_kopt k_max>2", "asserts two_opt_mode"],
                ["NeuOptPolicy", "tsp_kopt k_max=2", "asserts not two_opt_mode"]]
    CANARIES = {}

    @staticmethod
    def prepare():
        import rl4co.envs  # noqa: F401  (imported once, before the workers fork)
        import rl4co.models.zoo.dact.policy  # noqa: F401
        import rl4co.models.zoo.n2s.policy  # noqa: F401
        import rl4co.models.zoo.neuopt.policy  # noqa: F401

    # ---------------------------------------------------------------------------------------------
    @staticmethod
    def make_plan(run_seed: int, tier: str) -> dict:
        st = Streams(run_seed)
        rc = st.get("config")
        pool = _only(VARIANTS)
        variant = pool[rc.randrange(len(pool))]
        thorough = tier == "thorough"
        if variant == "pdp_rr":
            n = rc.choice([4, 6, 6, 8, 8, 10] + ([14, 20] if thorough else []))
            cfg = {"env": "pdp_ruin_repair", "kw": {}, "gen": {"num_loc": n}}
        else:
            n = rc.choice([4, 5, 6, 6, 7, 8, 8, 9, 10] + ([15, 20] if thorough else []))
            cfg = {"env": "tsp_kopt", "kw": {"k_max": int(variant[-1])}, "gen": {"num_loc": n}}
        big = rc.random() < 0.08
        if big:
            # more than 25 nodes (torch kernels switch algorithm there) with several customers at one address
            n = rc.choice([26, 30])
            cfg["gen"]["num_loc"] = n
        cfg["gen"]["init_sol_type"] = rc.choice(["random", "greedy"])
        m = rc.randint(2, 3)
        _seed(st.torch_seed("env"))
        env = _make_env(cfg)
        _seed(st.torch_seed("instances"))
        rows = E.td_rows(env.generator(batch_size=[m]))
        ri = st.get("instance")
        for j in range(m):
            if rc.random() < (0.3 if not big else 0.8):
                rows[j] = _hand_row(variant, n, ri)
        b = rc.choice([1, 1, 2, 2, 3, 4])
        b = max(b, int(os.environ.get("RLSIM_MIN_B", "1")))   # debugging aid, like RLSIM_ONLY
        sel = [rc.randrange(m) for _ in range(b)]
        mirror = False
        if cfg["gen"]["init_sol_type"] == "greedy" and b >= 2 and rc.random() < 0.4:
            sel = [sel[0]] * b
            mirror = True
        total = rc.randint(20, 60) if not thorough else rc.randint(20, 200)
        if big:
            total = min(total, 25)
        sources = ["random", "policy", "to_solution"] + (["mask", "mask"] if variant in ("kopt2", "pdp_rr") else ["random"])
        segs = []
        left = total
        nseg = rc.randint(2, 5)
        for s in range(nseg):
            k = left if s == nseg - 1 else max(1, min(left - (nseg - 1 - s), rc.randint(1, max(1, 2 * total // nseg))))
            src = rc.choice(sources)
            if src == "to_solution":
                k = min(k, rc.randint(1, 3))
            if src == "policy" and not thorough:
                k = min(k, 25)
            segs.append({"source": src, "n": k, "decode": rc.choice(["sampling", "sampling", "greedy"])})
            left -= k
            if left <= 0:
                break
        snapshot = None
        if rc.random() < 0.6:
            snapshot = {"after_improving": rc.randint(1, 3)}
        env_eval = rc.random() < 0.5
        if variant == "pdp_rr" and n < 6 and any(s["source"] == "policy" for s in segs):
            env_eval = False   # see `excluded`: N2S reads the last 3 rows of action_record
        # perturbation "alternate": another episode is reset (and moved once) on the same environment object
        # in the middle of this one; an episode's state lives in its TensorDict, not in the environment
        alternate = None
        if rc.random() < 0.3:
            alternate = {"at": rc.randint(1, max(1, min(total, 12))),
                         "rows": [rc.randrange(m) for _ in range(rc.choice([b, b, 1, b + 1]))],
                         "seed": rc.randrange(1 << 30)}
        plan = {"variant": variant, "cfg": cfg, "instances": [E.enc_row(r) for r in rows], "rows": sel,
                "mirror": mirror, "segments": segs, "snapshot": snapshot, "alternate": alternate,
                "env_eval": env_eval,
                "policy": {"embed_dim": rc.choice([32, 64]), "layers": rc.choice([1, 2]), "heads": rc.choice([2, 4])}}
        # TorchRL mode (documented constructor option): step() returns the successor under "next" and leaves the
        # state it was called on alone -- states handed out earlier (a recorded rollout) stay what they were
        plan["torchrl"] = rc.random() < 0.25
        return plan

    @staticmethod
    def sample(run):
        p = run.plan
        return {"variant": p["variant"], "cfg": p["cfg"], "rows": p["rows"], "mirror": p["mirror"],
                "segments": p["segments"], "snapshot": p["snapshot"], "instance0": p["instances"][0],
                "summary": getattr(run, "summary", None)}

    @staticmethod
    def shrink(plan):
        if plan.get("snapshot"):
            p = copy.deepcopy(plan)
            p["snapshot"] = None
            yield p
        if plan.get("alternate"):
            p = copy.deepcopy(plan)
            p["alternate"] = None
            yield p
        if len(plan["rows"]) > 1:
            for ri in range(len(plan["rows"])):
                p = copy.deepcopy(plan)
                del p["rows"][ri]
                if len(p["rows"]) < 2:
                    p["mirror"] = False
                yield p
        for si in reversed(range(len(plan["segments"]))):
            if len(plan["segments"]) > 1:
                p = copy.deepcopy(plan)
                del p["segments"][si]
                yield p
        for si in reversed(range(len(plan["segments"]))):
            if plan["segments"][si]["n"] > 1:
                p = copy.deepcopy(plan)
                p["segments"][si]["n"] = plan["segments"][si]["n"] // 2
                yield p

    # ---------------------------------------------------------------------------------------------
    @staticmethod
    def execute(run):
        _execute(run)


# ------------------------------------------------------------------------------------------------
def _obs(run, scope, monitor, constraint, msg, **detail):
    """mismatch outside C09's statement: counted, never reported"""
    run.probe("obs:" + monitor + ":" + constraint)
    run.log.add("observation", monitor, constraint)


def _viol(run, scope, monitor, constraint, msg, **detail):
    run.violate(scope, monitor, msg, constraint=constraint, **detail)
    raise StopRun()


class _Row:
    """Reference-side state of one batch row."""

    def __init__(self, locs, rec0, pdp):
        self.ledger = I.Ledger(locs, rec0, pdp)
        self.bsf_prev = None        # environment's cost_bsf after the previous move (float of float32)
        self.bsf_init = None
        self.reward_sum = 0.0
        self.n_moves = 0
        self.improved_last = False

    def clone(self):
        return copy.deepcopy(self)


def _coords(variant, inst):
    if variant == "pdp_rr":
        return [inst["depot"].tolist()] + inst["locs"].tolist()
    return inst["locs"].tolist()


def _check_rows(run, env, plan, td, rows, t, phase, source, first=False):
    """Every oracle of the property on the state after move t (or after reset when first)."""
    scope = SCOPE[plan["variant"]]
    pdp = plan["variant"] == "pdp_rr"
    B = len(rows)
    rc_all = td["rec_current"].tolist()
    rb_all = td["rec_best"].tolist()
    cc_all = [float(x) for x in td["cost_current"].flatten().tolist()]
    cb_all = [float(x) for x in td["cost_bsf"].flatten().tolist()]
    vt_all = td["visited_time"].tolist()
    if not first and "reward" not in td.keys():
        _viol(run, scope, "reward", "reward_missing", f"the state returned by move {t} ({source}) carries no reward "
              f"(keys {sorted(td.keys())})", t=t, phase=phase)
    rew_all = None if first else [float(x) for x in td["reward"].flatten().tolist()]
    if len(cc_all) != B or len(cb_all) != B:
        _viol(run, scope, "shape", "cost_shape", f"cost tensors {tuple(td['cost_current'].shape)} / "
              f"{tuple(td['cost_bsf'].shape)} for batch {B}", t=t, phase=phase)
    base = dict(t=t, phase=phase, source=source, B=B, cfg=plan["cfg"])
    for r, row in enumerate(rows):
        led = row.ledger
        gs = led.n
        rec_c, rec_b = rc_all[r], rb_all[r]
        # ---- validity --------------------------------------------------------------------------------
        for nm, rec in (("rec_current", rec_c), ("rec_best", rec_b)):
            ok, cons, why = led.valid(rec)
            if not ok:
                _viol(run, scope, "initial_tour" if first else "tour_valid", f"{nm}:{cons}",
                      f"row {r} after move {t} ({source}): {nm} = {rec} is not a valid tour: {why}",
                      row=r, rec=rec, action=_last_action(td, r), which=nm, **base)
        # ---- costs -----------------------------------------------------------------------------------
        ln_c = led.length(rec_c) if first else led.observe(rec_c)
        if not abs(cc_all[r] - ln_c) <= I.tol(ln_c, gs):
            _viol(run, scope, "cost_current", "length",
                  f"row {r} after move {t}: cost_current {cc_all[r]!r} but rec_current has length {ln_c!r}",
                  row=r, got=cc_all[r], want=ln_c, rec=rec_c, **base)
        ln_b = led.length(rec_b)
        if not abs(cb_all[r] - ln_b) <= I.tol(ln_b, gs):
            _viol(run, scope, "cost_bsf", "length_of_rec_best",
                  f"row {r} after move {t}: cost_bsf {cb_all[r]!r} but the stored best tour {rec_b} has "
                  f"length {ln_b!r}", row=r, got=cb_all[r], want=ln_b, rec_best=rec_b, **base)
        if not abs(cb_all[r] - led.best) <= I.tol(led.best, gs):
            _viol(run, scope, "cost_bsf", "min_over_seen",
                  f"row {r} after move {t}: cost_bsf {cb_all[r]!r} but the shortest of the {len(led.lengths)} "
                  f"tours seen so far has length {led.best!r} (seen at #{led.best_at})",
                  row=r, got=cb_all[r], want=led.best, best_at=led.best_at, **base)
        # ---- visited_time ----------------------------------------------------------------------------
        if not I.visited_time_consistent(rec_c, vt_all[r]):
            # not part of C09's statement (tour validity / costs / best-so-far / rewards): observation only;
            # a stale visited_time matters through the policies' masks, i.e. through invalid tours
            _obs(run, scope, "visited_time", "positions",
                  f"row {r} after move {t}: visited_time {vt_all[r]} does not give the positions of the "
                  f"nodes along rec_current {rec_c} (from node 0: {I.positions(rec_c)})",
                  row=r, visited_time=vt_all[r], rec=rec_c, **base)
        if first:
            if rec_c != rec_b:
                _viol(run, scope, "initial_tour", "best_ne_current", f"row {r}: after reset rec_best != "
                      f"rec_current", row=r, **base)
            row.bsf_prev = row.bsf_init = cb_all[r]
            continue
        # ---- monotone best, reward -------------------------------------------------------------------
        prev = row.bsf_prev
        if cb_all[r] > prev:
            _viol(run, scope, "cost_bsf", "increased",
                  f"row {r} move {t}: cost_bsf went up from {prev!r} to {cb_all[r]!r}",
                  row=r, prev=prev, new=cb_all[r], **base)
        want_rew = prev - cb_all[r]
        if not abs(rew_all[r] - want_rew) <= 1e-6 * max(1.0, abs(prev)):
            _viol(run, scope, "reward", "bsf_decrease",
                  f"row {r} move {t}: reward {rew_all[r]!r} but cost_bsf went from {prev!r} to {cb_all[r]!r} "
                  f"(decrease {want_rew!r})", row=r, got=rew_all[r], want=want_rew, **base)
        row.reward_sum += rew_all[r]
        row.n_moves += 1
        tot = row.bsf_init - cb_all[r]
        if not abs(row.reward_sum - tot) <= I.tol(row.bsf_init, row.n_moves):
            _viol(run, scope, "reward", "sum",
                  f"row {r} after {row.n_moves} moves: rewards sum to {row.reward_sum!r}, initial - best = {tot!r}",
                  row=r, got=row.reward_sum, want=tot, **base)
        tot_ref = led.initial - led.best
        if not abs(row.reward_sum - tot_ref) <= 2 * I.tol(led.initial, row.n_moves + gs):
            _viol(run, scope, "reward", "sum_vs_ledger",
                  f"row {r} after {row.n_moves} moves: rewards sum to {row.reward_sum!r}, reference initial "
                  f"length - best length seen = {tot_ref!r}", row=r, got=row.reward_sum, want=tot_ref, **base)
        # ---- probes ----------------------------------------------------------------------------------
        improved = rew_all[r] > 0
        if row.improved_last and cc_all[r] > cb_all[r] + I.tol(cb_all[r], gs):
            run.probe("improve_then_worsen")
            run.nontrivial = True
        row.improved_last = improved
        row.bsf_prev = cb_all[r]
    # ---- the built-in checker accepts rec_best -------------------------------------------------------
    try:
        env.check_solution_validity(td)
    except AssertionError as e:
        # the checker's verdict is C06's ground
        _obs(run, scope, "checker", "rejects_rec_best", f"after move {t}: check_solution_validity rejects "
              f"rec_best: {e}", rec_best=rb_all, **base)
    # ---- mirror rows stay identical -------------------------------------------------------------------
    if plan["mirror"] and B >= 2:
        for r in range(1, B):
            if rc_all[r] != rc_all[0] or rb_all[r] != rb_all[0] or cc_all[r] != cc_all[0] or cb_all[r] != cb_all[0]:
                _obs(run, scope, "compose", "mirror_rows_differ",
                      f"after move {t}: row {r} is a copy of row 0 fed the same moves, but its state differs "
                      f"(rec_current {rc_all[r]} vs {rc_all[0]}, cost_bsf {cb_all[r]!r} vs {cb_all[0]!r})",
                      row=r, **base)


def _last_action(td, r):
    try:
        return td["action"][r].tolist()
    except Exception:  # noqa: BLE001
        return None


def _propose(run, env, pol, plan, td, seg, t, rows):
    """Produce the move of tick t.  Returns ("action", tensor[B,k]) or ("to_solution", tensor[B,gs])."""
    v = plan["variant"]
    scope = SCOPE[v]
    B, gs = td["rec_current"].shape
    src = seg["source"]
    if src == "mask":
        if v == "kopt2":
            with run.guard(scope, "get_mask", B=B):
                m = env.get_mask(td)
            if B >= 2:
                for r in range(B):
                    with run.guard(scope, "get_mask (row alone)", B=1):
                        ms = env.get_mask(td[r:r + 1])
                    if not torch.equal(ms[0], m[r]):
                        _viol(run, scope, "mask", "depends_on_batch_mates",
                              f"row {r}: the move mask inside the batch differs from the mask of the same state alone",
                              t=t, row=r)
                run.probe("mask_solo_vs_batch")
            acts = []
            for r in range(B):
                opts = torch.nonzero(m[r]).tolist()
                if not opts:
                    _viol(run, scope, "mask", "no_move", f"row {r}: get_mask admits no move", t=t)
                i, j = opts[run.chooser.pick(len(opts))]
                acts.append([i, j])
                if int(td["rec_current"][r][j]) == i:
                    run.probe("two_opt_whole_cycle")
            a = torch.tensor(acts, dtype=torch.long)
        else:
            h = gs // 2
            pairs = [run.chooser.pick(h) for _ in range(B)]
            sel = torch.tensor(pairs, dtype=torch.long).view(B, 1)
            with run.guard(scope, "get_mask", B=B):
                m = env.get_mask(sel + 1, td)
            if B >= 2:
                # the moves admitted for an instance are a matter of that instance and its removed pair alone
                for r in range(B):
                    with run.guard(scope, "get_mask (row alone)", B=1):
                        ms = env.get_mask(sel[r:r + 1] + 1, td[r:r + 1])
                    if not torch.equal(ms[0], m[r]):
                        d = torch.nonzero(ms[0] != m[r]).tolist()[:3]
                        _viol(run, scope, "mask", "depends_on_batch_mates",
                              f"row {r} (pair {pairs[r]} removed; batch-mates removed {pairs}): the reinsertion mask inside "
                              f"the batch differs from the mask of the same state alone at positions {d}", t=t, row=r)
                run.probe("mask_solo_vs_batch")
            acts = []
            for r in range(B):
                opts = torch.nonzero(m[r]).tolist()
                if not opts:
                    _viol(run, scope, "mask", "no_move", f"row {r}: get_mask admits no reinsertion for pair "
                          f"{pairs[r]}", t=t)
                i, j = opts[run.chooser.pick(len(opts))]
                if i == j:
                    run.probe("pdp_first_eq_second")
                acts.append([pairs[r], i, j])
            a = torch.tensor(acts, dtype=torch.long)
        kind = "action"
    elif src == "random":
        _seed(run.streams.torch_seed(f"move{t}"))
        with run.guard(scope, "_random_action", B=B):
            a = env._random_action(td).clone()
        kind = "action"
    elif src == "policy":
        _seed(run.streams.torch_seed(f"move{t}"))
        with run.guard(scope, f"{POLICY[v]}.forward", decode=seg["decode"], B=B):
            with torch.no_grad():
                out = pol(td, env, phase="test", decode_type=seg["decode"])
        a = out["actions"].clone()
        kind = "action"
    elif src == "to_solution":
        sols = []
        for r in range(B):
            seed = run.chooser.pick(1 << 16)
            sols.append(I.random_tour(random.Random(seed), gs, pdp=(v == "pdp_rr")))
        a = torch.tensor(sols, dtype=torch.long)
        kind = "to_solution"
    else:
        raise HarnessError(src)
    if plan["mirror"] and B >= 2:
        a = a[0:1].expand(B, -1).clone()
    return kind, a


def _apply(run, env, plan, td, kind, a, phase):
    scope = SCOPE[plan["variant"]]
    if kind == "action":
        td.set("action", a.clone())
        with run.guard(scope, f"step ({phase})", action=a.tolist(), B=int(a.shape[0])):
            return env.step(td)["next"]
    with run.guard(scope, f"step_to_solution ({phase})", B=int(a.shape[0])):
        return env.step_to_solution(td, a.clone())


def _execute(run):
    plan = run.plan
    v = plan["variant"]
    scope = SCOPE[v]
    cfg = plan["cfg"]
    pdp = v == "pdp_rr"
    insts = [E.dec_row(r) for r in plan["instances"]]
    sel = list(plan["rows"])
    B = len(sel)
    run.stats["runs:" + scope] += 1
    run.probe("init:" + cfg["gen"]["init_sol_type"])
    _seed(run.streams.torch_seed("env"))
    tmode = bool(plan.get("torchrl"))
    with run.guard(scope, "construct env"):
        env = _make_env(cfg if not tmode else {**cfg, "kw": {**cfg.get("kw", {}), "_torchrl_mode": True}})
    if tmode:
        run.probe("torchrl_mode")
    if plan.get("env_eval"):
        env.eval()
    pol = None
    if any(s["source"] == "policy" for s in plan["segments"]):
        _seed(run.streams.torch_seed("policy"))
        with run.guard(scope, f"construct {POLICY[v]}"):
            pol = _make_policy(plan)
        run.stats["policy:" + POLICY[v]] += 1
    batch = E.stack_rows([{k: x.clone() for k, x in insts[i].items()} for i in sel])
    _seed(run.streams.torch_seed("reset"))
    with run.guard(scope, "reset", B=B):
        td = env.reset(batch)
    rows = [_Row(_coords(v, insts[i]), td["rec_current"][r].tolist(), pdp) for r, i in enumerate(sel)]
    if B >= 2:
        run.nontrivial = True
    if plan["mirror"]:
        run.probe("mirror_batch")
    _check_rows(run, env, plan, td, rows, 0, "first", "reset", first=True)
    run.log.add("init", td["rec_current"].tolist(), [float(x).hex() for x in td["cost_bsf"].tolist()])

    snap = None
    want_snap = plan.get("snapshot")
    improving_seen = 0
    recorded = []          # moves since the snapshot
    t = 0
    for seg in plan["segments"]:
        for _ in range(seg["n"]):
            t += 1
            alt = plan.get("alternate")
            if alt and t == alt["at"]:
                _seed(alt["seed"])
                with run.guard(scope, "reset of another episode on the same environment", promise=False):
                    td_alt = env.reset(E.stack_rows([{k: x.clone() for k, x in insts[i].items()} for i in alt["rows"]]))
                    td_alt.set("action", env._random_action(td_alt).clone())
                    env.step(td_alt)
                run.fault("alternate", t)
                run.nontrivial = True
            prev_rec = td["rec_current"].tolist()
            prev_cost = [float(x) for x in td["cost_current"].tolist()]
            kind, a = _propose(run, env, pol, plan, td, seg, t, rows)
            held = (td, _fingerprint(td.exclude("action", "next"))) if (tmode and kind == "action") else None
            td = _apply(run, env, plan, td, kind, a, "first")
            if held is not None and _fingerprint(held[0].exclude("action", "next")) != held[1]:
                bad = [k for k in ("rec_current", "rec_best", "cost_current", "cost_bsf", "visited_time")
                       if k in held[0].keys() and k in td.keys() and held[0][k].data_ptr() == td[k].data_ptr()]
                _viol(run, scope, "earlier_state", "modified_by_step",
                      f"TorchRL mode: move {t} changed the state it was taken from (entries shared with the successor: "
                      f"{bad}); a state recorded before an improving move now pairs its old cost_bsf "
                      f"{[float(x) for x in held[0]['cost_bsf'].flatten().tolist()]} with the new rec_best", t=t, cfg=cfg)
            run.tick()
            run.probe("move:" + seg["source"])
            run.stats[f"moves:{scope}:{seg['source']}"] += 1
            if snap is not None:
                recorded.append((kind, a.clone(), seg["source"]))
            _check_rows(run, env, plan, td, rows, t, "first", seg["source"])
            _observations(run, plan, td, kind, a, prev_rec, prev_cost)
            run.log.add("m", t, seg["source"], a.tolist(), [float(x).hex() for x in td["cost_current"].tolist()],
                        [float(x).hex() for x in td["cost_bsf"].tolist()])
            run.state(scope, tuple(td["rec_current"][0].tolist()))
            if want_snap and snap is None and bool((td["reward"] > 0).any()):
                improving_seen += 1
                if improving_seen >= want_snap["after_improving"]:
                    snap = {"t": t, "td": td.clone(), "rows": [rw.clone() for rw in rows]}
                    snap["fp"] = _fingerprint(snap["td"])
                    run.fault("snapshot", t)
                    run.nontrivial = True
    run.summary = {"moves": t, "cost_init": [rw.bsf_init for rw in rows],
                   "cost_best": [rw.bsf_prev for rw in rows],
                   "tours_seen": [len(rw.ledger.lengths) for rw in rows]}
    # ---- snapshot: still the tour it described; re-driving reproduces the first pass --------------------
    if snap is not None:
        if _fingerprint(snap["td"]) != snap["fp"]:
            _viol(run, scope, "snapshot", "fingerprint",
                  f"a td.clone() taken after move {snap['t']} (an improving move) was modified by later moves",
                  t=snap["t"], cfg=cfg)
        td2, rows2 = snap["td"], snap["rows"]
        t2 = snap["t"]
        for kind, a, source in recorded:
            t2 += 1
            td2 = _apply(run, env, plan, td2, kind, a, "restore")
            _check_rows(run, env, plan, td2, rows2, t2, "restore", source)
        for key in ("rec_current", "rec_best", "cost_current", "cost_bsf", "visited_time"):
            if not torch.equal(td2[key], td[key]):
                _viol(run, scope, "snapshot", "redrive",
                      f"restoring the snapshot of move {snap['t']} and re-driving the same {len(recorded)} moves "
                      f"gives a different {key}: {td2[key].tolist()} vs {td[key].tolist()}",
                      t=snap["t"], key=key, cfg=cfg)
        run.probe("snapshot_restored")


def _observations(run, plan, td, kind, a, prev_rec, prev_cost):
    """Probes and observation-only comparisons with the list-based move operators (the property
    promises valid outcomes, not a particular neighbour, so a disagreement is only counted)."""
    v = plan["variant"]
    B = len(prev_rec)
    cur = td["rec_current"].tolist()
    cc = [float(x) for x in td["cost_current"].tolist()]
    for r in range(B):
        if cur[r] != prev_rec[r] and cc[r] == prev_cost[r]:
            run.probe("tie_move")
        if kind != "action":
            continue
        if v == "kopt2":
            i, j = a[r].tolist()
            if i == j:
                continue
            want = I.two_opt(prev_rec[r], i, j)
            run.probe("obs_two_opt_matches_ref" if I.same_cycle_undirected(want, cur[r]) else "obs_two_opt_differs_from_ref")
        elif v == "pdp_rr":
            p, i, j = a[r].tolist()
            gs = len(prev_rec[r])
            h = gs // 2
            if i in (p + 1, p + 1 + h) or j in (p + 1, p + 1 + h):
                continue
            want = I.remove_reinsert_pair(prev_rec[r], p, i, j)
            run.probe("obs_reinsert_matches_ref" if want == cur[r] else "obs_reinsert_differs_from_ref")


# ------------------------------------------------------------------------------------------------
# canary mutants (sensitivity self-test; in-memory only, never applied to /repo)
# ------------------------------------------------------------------------------------------------
def _patch_many(pairs):
    import contextlib

    @contextlib.contextmanager
    def cm():
        olds = [(c, a, c.__dict__[a]) for c, a, _ in pairs]
        for c, a, new in pairs:
            setattr(c, a, new)
        try:
            yield
        finally:
            for c, a, old in olds:
                setattr(c, a, old)

    return cm()


def _step_variant(flavor):
    """A faithful copy of TSPkoptEnv._step / PDPRuinRepairEnv._step with one regression."""

    def _step(self, td, solution_to=None):
        solution_best = td["rec_best"]
        locs = td["locs"]
        cost_bsf = td["cost_bsf"]
        bs, gs = solution_best.size()
        if solution_to is None:
            action = td["action"]
            solution = td["rec_current"]
            next_rec = self._local_operator(solution, action)
        else:
            next_rec = solution_to.clone()
        new_obj = self.get_costs(locs, next_rec)
        if flavor == "bsf_gt":
            now_bsf = torch.where(new_obj > cost_bsf, new_obj, cost_bsf)
        else:
            now_bsf = torch.where(new_obj < cost_bsf, new_obj, cost_bsf)
        if flavor == "reward_from_current":
            reward = (td["cost_current"] - new_obj).clamp(min=0)
        else:
            reward = cost_bsf - now_bsf
        index = reward > 0.0
        if flavor == "best_by_reference":
            # the best tour is kept by reference when the whole batch improved
            if bool(index.all()):
                solution_best = next_rec
            else:
                solution_best[index] = next_rec[index].clone()
        else:
            solution_best[index] = next_rec[index].clone()
        if flavor == "stale_visited_time":
            visited_time = td["visited_time"]
        else:
            visited_time = td["visited_time"] * 0
            pre = torch.zeros((bs), device=visited_time.device).long()
            arange = torch.arange(bs)
            for i in range(gs):
                current_nodes = next_rec[arange, pre]
                visited_time[arange, current_nodes] = i + 1
                pre = current_nodes
            visited_time = visited_time.long()
        upd = {"cost_current": new_obj, "cost_bsf": now_bsf, "rec_current": next_rec,
               "rec_best": solution_best, "visited_time": visited_time,
               "i": td["i"] + 1 if solution_to is None else td["i"], "reward": reward}
        if "action_record" in td.keys():
            action_record = td["action_record"]
            if solution_to is None:
                action_record[:, :-1] = action_record[:, 1:].clone()
                action_record[:, -1] *= 0
                action_record[torch.arange(bs), -1, action[:, 0]] = 1
            upd["action_record"] = action_record
        td.update(upd)
        return td

    return _step


def _canary_step(flavor):
    def factory():
        from rl4co.envs.routing.pdp.env import PDPRuinRepairEnv
        from rl4co.envs.routing.tsp.env import TSPkoptEnv

        f = _step_variant(flavor)
        return _patch_many([(TSPkoptEnv, "_step", f), (PDPRuinRepairEnv, "_step", f)])

    return factory


def _canary_best_alias():
    """rec_best stored by reference when the whole batch improved + local operators that write their
    result into the input tensor: the next (worsening) move rewrites the stored best tour."""
    from rl4co.envs.routing.pdp.env import PDPRuinRepairEnv
    from rl4co.envs.routing.tsp.env import TSPkoptEnv

    f = _step_variant("best_by_reference")
    o_tsp = TSPkoptEnv.__dict__["_local_operator"]
    o_pdp = PDPRuinRepairEnv.__dict__["_local_operator"].__func__

    def tsp_inplace(self, solution, action):
        out = o_tsp(self, solution, action)
        solution.copy_(out)
        return solution

    def pdp_inplace(solution, action):
        out = o_pdp(solution, action)
        solution.copy_(out)
        return solution

    return _patch_many([(TSPkoptEnv, "_step", f), (PDPRuinRepairEnv, "_step", f),
                        (TSPkoptEnv, "_local_operator", tsp_inplace),
                        (PDPRuinRepairEnv, "_local_operator", staticmethod(pdp_inplace))])


def _canary_two_opt_short_loop():
    """2-opt reversal loop too short: the last link is not reversed when the reversed segment is the
    whole cycle (second is the predecessor of first)."""
    from rl4co.envs.routing.tsp.env import TSPkoptEnv

    orig = TSPkoptEnv.__dict__["_local_operator"]

    def mutant(self, solution, action):
        if not self.two_opt_mode:
            return orig(self, solution, action)
        rec = solution.clone()
        first = action[:, 0].view(-1, 1)
        second = action[:, 1].view(-1, 1)
        argsort = solution.argsort()
        pre_first = argsort.gather(1, first)
        pre_first = torch.where(pre_first != second, pre_first, first)
        rec.scatter_(1, pre_first, second)
        post_second = solution.gather(1, second)
        post_second = torch.where(post_second != first, post_second, second)
        rec.scatter_(1, first, post_second)
        cur = first
        for i in range(self.generator.num_loc - 2):
            cur_next = solution.gather(1, cur)
            rec.scatter_(1, cur_next, torch.where(cur != second, cur, rec.gather(1, cur_next)))
            cur = torch.where(cur != second, cur_next, cur)
        return rec

    return _patch_many([(TSPkoptEnv, "_local_operator", mutant)])


def _canary_kopt_short_loop():
    """k-opt (k>2) relinking loop two iterations short."""
    from rl4co.envs.routing.tsp.env import TSPkoptEnv

    orig = TSPkoptEnv.__dict__["_local_operator"]

    def mutant(self, solution, action):
        if self.two_opt_mode:
            return orig(self, solution, action)
        rec = solution.clone()
        selected_index = action[:, : self.k_max]
        left = action[:, self.k_max: 2 * self.k_max]
        right = action[:, 2 * self.k_max:]
        rec_next = rec.clone()
        right_nodes = rec.gather(1, selected_index)
        argsort = rec.argsort()
        rec_next.scatter_(1, left, right)
        cur = left[:, :1].clone()
        for i in range(self.generator.num_loc - 4):
            next_cur = rec_next.gather(1, cur)
            pre_next_wrt_old = argsort.gather(1, next_cur)
            reverse_link_condition = (cur != pre_next_wrt_old) & ~((next_cur == right_nodes).any(-1, True))
            next_next_cur = rec_next.gather(1, next_cur)
            rec_next.scatter_(1, next_cur, torch.where(reverse_link_condition, pre_next_wrt_old, next_next_cur))
            cur = next_cur
        return rec_next

    return _patch_many([(TSPkoptEnv, "_local_operator", mutant)])


def _canary_pdp_reinsert_swapped():
    """PDP reinsertion with first/second swapped: the delivery goes after `first`, the pickup after
    `second` (breaks precedence whenever first comes strictly before second)."""
    from rl4co.envs.routing.pdp.env import PDPRuinRepairEnv

    def mutant(solution, action):
        pair_index = action[:, 0].view(-1, 1) + 1
        first = action[:, 2].view(-1, 1)
        second = action[:, 1].view(-1, 1)
        rec = solution.clone()
        bs, gs = rec.size()
        argsort = rec.argsort()
        pre_pairfirst = argsort.gather(1, pair_index)
        post_pairfirst = rec.gather(1, pair_index)
        rec.scatter_(1, pre_pairfirst, post_pairfirst)
        rec.scatter_(1, pair_index, pair_index)
        argsort = rec.argsort()
        pre_pairsecond = argsort.gather(1, pair_index + gs // 2)
        post_pairsecond = rec.gather(1, pair_index + gs // 2)
        rec.scatter_(1, pre_pairsecond, post_pairsecond)
        post_second = rec.gather(1, second)
        rec.scatter_(1, second, pair_index + gs // 2)
        rec.scatter_(1, pair_index + gs // 2, post_second)
        post_first = rec.gather(1, first)
        rec.scatter_(1, first, pair_index)
        rec.scatter_(1, pair_index, post_first)
        return rec

    return _patch_many([(PDPRuinRepairEnv, "_local_operator", staticmethod(mutant))])


def _source_mutant(cls, attr, replacements):
    """Re-create a regression by editing the *source* of a repo function in memory: the edited
    function is compiled under the repo file's name (same line numbers), so an exception it raises
    is attributed to rl4co exactly as the original defect was.  Nothing is written to /repo."""
    import inspect
    import textwrap

    func = cls.__dict__[attr]
    func = getattr(func, "__func__", func)  # staticmethod / classmethod: the decorator line is part of the source
    src, first = inspect.getsourcelines(func)
    text = textwrap.dedent("".join(src))
    for old, new in replacements:
        if old not in text:
            raise HarnessError(f"canary source edit does not apply to {cls.__name__}.{attr}: {old!r}")
        text = text.replace(old, new)
    code = compile("\n" * (first - 1) + text, inspect.getsourcefile(func), "exec")
    ns = {}
    exec(code, func.__globals__, ns)  # noqa: S102  (in-memory mutant of library code)
    return ns[attr]


def _canary_b1_kopt_random_action():
    """TSPkoptEnv._random_action (k_max > 2) with bare .squeeze(): crashes at batch size one (the
    defect repaired by 'fix: improvement environments and policies crash at batch size one')."""
    from rl4co.envs.routing.tsp.env import TSPkoptEnv

    f = _source_mutant(TSPkoptEnv, "_random_action", [(".squeeze(-1)", ".squeeze()")])
    return _patch_many([(TSPkoptEnv, "_random_action", f)])


def _canary_b1_pdp_step_overlap():
    """PDPRuinRepairEnv._step shifting action_record onto itself without clone(): every step at
    batch size one raises (same repaired defect)."""
    from rl4co.envs.routing.pdp.env import PDPRuinRepairEnv

    f = _source_mutant(PDPRuinRepairEnv, "_step",
                       [("action_record[:, :-1] = action_record[:, 1:].clone()",
                         "action_record[:, :-1] = action_record[:, 1:]")])
    return _patch_many([(PDPRuinRepairEnv, "_step", f)])


def _canary_torchrl_shallow_clone():
    """RL4COEnvBase._torchrl_step steps on a shallow clone: the in-place incumbent update of the improvement
    environments reaches the state the move was taken from."""
    from rl4co.envs.common.base import RL4COEnvBase

    f = _source_mutant(RL4COEnvBase, "_torchrl_step", [("td.clone()", "td.clone(recurse=False)")])
    return _patch_many([(RL4COEnvBase, "_torchrl_step", f)])


def _canary_pdp_mask_outer_index():
    """PDPRuinRepairEnv.get_mask closes the columns of every row's removed pair in all rows."""
    from rl4co.envs.routing.pdp.env import PDPRuinRepairEnv

    f = _source_mutant(PDPRuinRepairEnv, "get_mask",
                       [("mask[arange, :, selected_node.view(-1)] = True", "mask[:, :, selected_node.view(-1)] = True")])
    return _patch_many([(PDPRuinRepairEnv, "get_mask", f)])


C09.CANARIES = {
    "torchrl_shallow_clone": _canary_torchrl_shallow_clone,
    "pdp_mask_outer_index": _canary_pdp_mask_outer_index,
    "two_opt_short_loop": _canary_two_opt_short_loop,
    "kopt_short_loop": _canary_kopt_short_loop,
    "best_alias": _canary_best_alias,
    "bsf_gt": _canary_step("bsf_gt"),
    "reward_from_current": _canary_step("reward_from_current"),
    "stale_visited_time": _canary_step("stale_visited_time"),
    "pdp_reinsert_swapped": _canary_pdp_reinsert_swapped,
    "b1_kopt_random_action": _canary_b1_kopt_random_action,
    "b1_pdp_step_overlap": _canary_b1_pdp_step_overlap,
}
