"""C12 -- replicated rollouts (multi-start, multi-sample, augmentation) keep their instance.

Four kinds of run:

* ``ops``         batchify / unbatchify / unbatchify_and_gather on tensors and TensorDicts whose rows carry
                  their instance id as payload, nested factors (k), (a,s), (r,a,s) incl. 0 and 1 factors.
* ``rollout``     multi-start / multi-sample decoding through the REAL ``ConstructivePolicy`` loop with the
                  scripted decoder (replica-keyed table) on every environment with a start-node rule, for
                  ``num_starts`` from 1 to beyond the number of feasible starts; every returned row is
                  re-derived by a reference loop that drives the real environment at B=1 with logits
                  recomputed from ``scripted_logits``; best-of-k is compared against the un-selected call.
* ``shared_step`` POMO / SymNCO ``shared_step`` with a stub policy whose reward / log-likelihood / actions
                  / embeddings encode (instance id, output row): everything the model regroups must stay
                  within one instance.
* ``am``          the real AttentionModel (shared-embedding cache regrouping) with multi-start /
                  multi-sample: a batched rollout equals the solo rollout of each instance.
"""
from __future__ import annotations

import contextlib
import copy

import numpy as np
import torch
from tensordict import TensorDict

from .. import envs as E
from .. import policies as P
from ..ref import routing as RR
from ..kernel import H, HarnessError, StopRun, Streams
from .loglik import ProcessTap, ref_logp, tol

DEPOT_ENVS = {"cvrp", "cvrptw", "sdvrp", "op", "pctsp", "spctsp", "pdp", "mtsp", "mtvrp"}
START_RULE_ENVS = list(P.MULTISTART_ENVS) + ["fjsp", "jssp"]
SAMPLE_ONLY_ENVS = ["svrp", "smtwtp", "mdcpdp"]          # no start rule: multi-sample only
TABLE_RULE_ENVS = ["ffsp"]                               # start rule = machine-table augmentation
ROLLOUT_ENVS = START_RULE_ENVS + SAMPLE_ONLY_ENVS + TABLE_RULE_ENVS
AM_ENVS = ["tsp", "cvrp", "cvrptw", "sdvrp", "op", "pctsp", "spctsp", "pdp", "mtsp", "mtvrp"]
PAYLOAD_KEY_ENVS = {"fjsp", "jssp"}  # no static instance tensor survives the forced move: key by payload
MAX_REF_ROWS = 12


# --------------------------------------------------------------------------------------------------
class C12:
    prop = "C12"
    level = "exploration"
    chunk = 4
    rule = ("run = one of: (ops) a random tensor / TensorDict with instance-id payload pushed through "
            "batchify, unbatchify and unbatchify_and_gather for a nested factor list drawn from (k), (a,s), "
            "(r,a,s) with factors 0-5; (rollout) environment drawn uniformly from the 15 environments with a "
            "start-node rule plus 3 sample-only ones, 1-4 generator instances with 3-8 nodes (OP: max_length "
            "hand-set so that a scheduled number of customers is unreachable), decode mode multistart_greedy / "
            "multistart_sampling / sampling with num_samples, replication factor from {1,2,3, #starts-1, "
            "#starts, #starts+1, #starts+3}, scripted logits mode, temperature / tanh clip, select_best on/off; "
            "(shared_step) POMO or SymNCO, phase train/val/test, 1-4 TSP instances, num_augment 1-4, num_starts "
            "2-5, stub policy; (am) real AttentionModel multi-start / multi-sample, batched vs solo; (antsystem) "
            "rl4co's AntSystem search (DeepACO/GFACS inference) on a seeded heuristic matrix, 2-4 TSP/CVRP instances, "
            "3-6 ants x 2-5 iterations, best-of-all-rollouts kept per instance across iterations; (nar) the real "
            "non-autoregressive decoder behind a stub heatmap encoder, 2-3 multi-start calls on one policy object "
            "whose expanded batches have the same number of rows but different (B, k): every row's logits are its "
            "own instance's heatmap row.  "
            "Non-trivial = replication factor >= 2 (or nested factors); distinct = distinct event-log digest.")
    components_real = ["rl4co.utils.ops (batchify, unbatchify, unbatchify_and_gather, gather_by_index, "
                       "select_start_nodes, get_num_starts, sample_n_random_actions)", "PDPEnv / MTVRPEnv / "
                       "FLPEnv / MCPEnv / FJSPEnv start-node rules", "rl4co.utils.decoding (pre_decoder_hook, "
                       "step, post_decoder_hook, _select_best)", "ConstructivePolicy.forward", "environments' "
                       "_reset/_step/get_reward", "POMO.shared_step, SymNCO.shared_step, SharedBaseline, "
                       "StateAugmentation, symnco losses", "AttentionModelPolicy / AttentionModelDecoder (cache "
                       "regrouping)", "rl4co.models.zoo.deepaco.antsystem.AntSystem (run, _update_results, pheromone "
                       "update) + NonAutoregressiveDecoder.heatmap_to_logits"]
    components_stub = ["scripted decoder (replica-keyed logits table) in place of a network", "stub policy for "
                       "the shared_step runs (outputs encode instance id and row)", "trainer shim log_dict"]
    assumptions = ["CPU float32", "instances from the library generators at 3-8 nodes; OP max_length hand-set",
                   "feasible starts are counted without the depot for environments whose rule excludes it",
                   "FFSP's start rule replicates machine tables and forces the same (wait) action k times by "
                   "design: only feasibility of the forced action is demanded there"]
    required_probes = ["ops_nested", "ops_tensordict", "forced_start_checked", "k_beyond_feasible",
                       "some_first_moves_infeasible", "solo_rows_rederived", "select_best_checked",
                       "shared_step_checked", "am_batched_vs_solo"]
    excluded = [
        ["scripted", "ffsp", "num_samples", "the per-episode machine tables live on the environment object and are not "
         "replicated by batchify (IndexError in get_machine_index); FFSP's own start rule (multistart) IS exercised"],
        ["scripted", "dpp/mdpp/svrp/smtwtp/mdcpdp", "multistart", "get_num_starts defines no start-node rule"],
        ["am", "atsp/flp/mcp", "*", "no embeddings (Appendix B)"],
    ]
    CANARIES = {}

    # ----------------------------------------------------------------------------------------------
    @staticmethod
    def make_plan(run_seed: int, tier: str) -> dict:
        st = Streams(run_seed)
        rc = st.get("config")
        u = rc.random()
        only = E.only_filter(E.ALL_CONSTRUCTIVE)
        if u < 0.12:
            return _plan_ops(rc)
        if u < 0.17 and any(e in only for e in ("tsp", "cvrp")):
            return _plan_antsystem(rc, st, rc.choice([e for e in ("tsp", "cvrp") if e in only]))
        if u < 0.20 and any(e in only for e in ("tsp", "cvrp")):
            return _plan_nar(rc, st, rc.choice([e for e in ("tsp", "cvrp") if e in only]))
        if u < 0.24:
            return _plan_shared_step(rc, st)
        if u < 0.36:
            if u >= 0.335 and any(e in only for e in ("fjsp", "jssp")):
                # L2D (shared encoder output expanded in the decoder's pre-hook) on the scheduling environments
                return _plan_am(rc, st, rc.choice([e for e in ("fjsp", "jssp") if e in only]), "l2d")
            pool = [e for e in AM_ENVS if e in only] or AM_ENVS
            return _plan_am(rc, st, pool[rc.randrange(len(pool))])
        # OP is the one environment whose first-move feasibility depends on the instance: triple weight
        pool = [e for e in ROLLOUT_ENVS if e in only] or ROLLOUT_ENVS
        name = pool[rc.randrange(len(pool))]
        if "op" in pool and rc.random() < 0.2:
            name = "op"
        return _plan_rollout(rc, st, name, tier)

    @staticmethod
    def sample(run):
        p = run.plan
        s = {k: v for k, v in p.items() if k not in ("instances",)}
        if "instances" in p:
            s["B"] = len(p["instances"])
            s["instance0"] = p["instances"][0]
        s["summary"] = getattr(run, "summary", None)
        return s

    @staticmethod
    def shrink(plan):
        if plan["scenario"] in ("rollout", "am", "shared_step", "antsystem") and len(plan["instances"]) > 1:
            for i in range(len(plan["instances"])):
                p = copy.deepcopy(plan)
                del p["instances"][i]
                yield p
        if plan["scenario"] in ("rollout", "am") and plan["k"] > 2:
            p = copy.deepcopy(plan)
            p["k"] = plan["k"] - 1
            yield p
        if plan["scenario"] == "rollout":
            if plan["select_best"]:
                p = copy.deepcopy(plan)
                p["select_best"] = False
                yield p
            if plan["scripted_mode"] != "gaussian":
                p = copy.deepcopy(plan)
                p["scripted_mode"] = "gaussian"
                yield p
            if plan["temperature"] != 1.0 or plan["tanh_clipping"]:
                p = copy.deepcopy(plan)
                p["temperature"], p["tanh_clipping"] = 1.0, 0
                yield p
        if plan["scenario"] == "shared_step":
            for key in ("n_aug", "n_start"):
                if plan[key] > 2:
                    p = copy.deepcopy(plan)
                    p[key] = plan[key] - 1
                    yield p
        if plan["scenario"] == "ops" and len(plan["shape"]) > 1:
            for i in range(len(plan["shape"])):
                p = copy.deepcopy(plan)
                del p["shape"][i]
                yield p

    @staticmethod
    def execute(run):
        sc = run.plan["scenario"]
        run.stats["runs:" + sc + (":" + run.plan["cfg"]["env"] if "cfg" in run.plan else "")] += 1
        if sc == "ops":
            return _exec_ops(run)
        if sc == "rollout":
            return _exec_rollout(run)
        if sc == "shared_step":
            return _exec_shared_step(run)
        if sc == "am":
            return _exec_am(run)
        if sc == "antsystem":
            return _exec_antsystem(run)
        if sc == "nar":
            return _exec_nar(run)
        raise HarnessError(f"unknown scenario {sc}")


# --------------------------------------------------------------------------------------------------
# (a) batchify / unbatchify / unbatchify_and_gather
# --------------------------------------------------------------------------------------------------
def _plan_ops(rc):
    depth = rc.choice([1, 1, 2, 2, 3])
    shape = [rc.choice([0, 1, 2, 2, 3, 3, 4, 5]) for _ in range(depth)]
    return {"scenario": "ops", "B": rc.randint(1, 5), "shape": shape, "as_int": depth == 1 and rc.random() < 0.5,
            "container": rc.choice(["tensor", "tensordict", "tensordict"]),
            "feat": [rc.randint(1, 3) for _ in range(rc.randint(0, 2))], "seed": rc.randrange(1 << 30),
            "dtype": rc.choice(["float32", "int64", "bool"])}


def _payload_rows(B, feat, dtype, seed):
    """x[b] carries b in every entry position 0 and pseudo-random content elsewhere."""
    g = torch.Generator().manual_seed(seed)
    if dtype == "bool":
        x = torch.rand((B, *feat), generator=g) < 0.5
    elif dtype == "int64":
        x = torch.randint(0, 1000, (B, *feat), generator=g)
    else:
        x = torch.rand((B, *feat), generator=g)
    return x


def _exec_ops(run):
    from rl4co.utils.ops import batchify, unbatchify, unbatchify_and_gather

    plan = run.plan
    B, shape = plan["B"], list(plan["shape"])
    eff = [s for s in shape if s > 0]
    K = int(np.prod(eff)) if eff else 1
    arg = shape[0] if plan["as_int"] else tuple(shape)
    scope = "ops"
    ids = torch.arange(B)
    x = _payload_rows(B, plan["feat"], plan["dtype"], plan["seed"])
    if plan["container"] == "tensordict":
        src = TensorDict({"id": ids.clone(), "x": x.clone(), "y": torch.rand(B, 2, 2),
                          "nested": TensorDict({"z": ids.clone().float()[:, None]}, batch_size=[B])},
                         batch_size=[B])
        run.probe("ops_tensordict")
    else:
        src = x.clone()
    if len(eff) > 1:
        run.probe("ops_nested")
    run.nontrivial = K > 1
    with run.guard(scope, "batchify", shape=shape):
        y = batchify(src, arg)
    n_out = y.shape[0]
    if n_out != B * K:
        run.violate(scope, "batchify_rows", f"batchify of {B} rows by {shape} gives {n_out} rows, expected {B * K}",
                    constraint="row_count", shape=shape, B=B)
        raise StopRun()

    def rows_of(c, r):
        return {"id": c["id"][r], "x": c["x"][r], "y": c["y"][r], "z": c["nested", "z"][r]} \
            if isinstance(c, TensorDict) else {"x": c[r]}

    def same(a, b):
        return all(torch.equal(a[k], b[k]) for k in a)

    for r in range(n_out):
        if not same(rows_of(y, r), rows_of(src, r % B)):
            run.violate(scope, "batchify_layout", f"row {r} of batchify(x, {shape}) is not instance {r % B}",
                        constraint="row_mod_B", row=r, shape=shape, B=B, container=plan["container"])
            raise StopRun()
    with run.guard(scope, "unbatchify", shape=shape):
        u = unbatchify(y, arg)
    want = (B, *eff)
    if tuple(u.shape[: len(want)]) != want:
        run.violate(scope, "unbatchify_shape", f"unbatchify(batchify(x, {shape}), {shape}) has leading shape "
                    f"{tuple(u.shape[:len(want)])}, expected {want}", constraint="shape", shape=shape, B=B)
        raise StopRun()
    for b in range(B):
        for idx in np.ndindex(*eff) if eff else [()]:
            sel = (b, *idx)
            got = rows_of(u, sel) if isinstance(u, TensorDict) else {"x": u[sel]}
            if not same(got, rows_of(src, b)):
                run.violate(scope, "roundtrip_identity", f"unbatchify(batchify(x))[{sel}] is not instance {b}",
                            constraint="identity", shape=shape, B=B, index=list(sel), container=plan["container"])
                raise StopRun()
    # a non-replicated k-major tensor: every regrouped entry must stem from a row of its own instance,
    # each row exactly once
    z = torch.arange(B * K) if not isinstance(src, TensorDict) else TensorDict(
        {"row": torch.arange(B * K)}, batch_size=[B * K])
    with run.guard(scope, "unbatchify (distinct rows)", shape=shape):
        uz = unbatchify(z, arg)
    flat = (uz["row"] if isinstance(uz, TensorDict) else uz).reshape(B, -1)
    seen = sorted(flat.flatten().tolist())
    if seen != list(range(B * K)):
        run.violate(scope, "unbatchify_bijection", "unbatchify lost or duplicated rows", constraint="bijection",
                    shape=shape, B=B)
        raise StopRun()
    for b in range(B):
        bad = [int(r) for r in flat[b].tolist() if r % B != b]
        if bad:
            run.violate(scope, "unbatchify_layout", f"group {b} of unbatchify(x, {shape}) contains rows {bad} of "
                        "other instances", constraint="row_mod_B", shape=shape, B=B)
            raise StopRun()
    # unbatchify_and_gather with a single factor
    if len(eff) == 1 and K > 0:
        g = torch.Generator().manual_seed(plan["seed"] + 1)
        idx = torch.randint(0, K, (B,), generator=g)
        vals = torch.arange(B * K).float()[:, None].repeat(1, 3)
        cont = TensorDict({"v": vals.clone(), "w": torch.arange(B * K)}, batch_size=[B * K]) \
            if plan["container"] == "tensordict" else vals
        with run.guard(scope, "unbatchify_and_gather", shape=shape):
            got = unbatchify_and_gather(cont, idx, K)
        gv = got["v"] if isinstance(got, TensorDict) else got
        for b in range(B):
            exp_row = int(idx[b]) * B + b
            if gv.shape[0] != B or float(gv[b].flatten()[0]) != float(exp_row):
                run.violate(scope, "gather_layout", f"unbatchify_and_gather picked row {gv[b].flatten()[0].item()} for "
                            f"instance {b}, replica {int(idx[b])}; expected row {exp_row}", constraint="gather",
                            shape=shape, B=B, container=plan["container"])
                raise StopRun()
        run.probe("ops_gather")
    run.tick()
    run.log.add("ops", B, shape, plan["container"], plan["dtype"])
    run.state("ops", B, tuple(shape), plan["container"])


# --------------------------------------------------------------------------------------------------
# instances
# --------------------------------------------------------------------------------------------------
def _small_cfg(name, rc, tier):
    for _ in range(50):
        cfg = E.sample_cfg(name, rc, tier)
        if cfg["n"] <= 9:
            return cfg
    raise HarnessError("no small configuration drawn")


def _op_far_nodes(rows, rc, lo_keep=1):
    """Hand-set OP max_length so that a scheduled number of customers cannot be reached as first move
    (round trip depot -> j -> depot longer than max_length).  Documented format is kept (DESIGN 2.3)."""
    out = []
    for r in rows:
        r = dict(r)
        d = (r["locs"] - r["depot"][None]).norm(dim=-1) * 2.0
        ds = sorted(d.tolist())
        n = len(ds)
        keep = rc.randint(min(lo_keep, n), n)  # number of customers that stay reachable
        if keep >= n:
            ml = ds[-1] + 0.25
        else:
            lo, hi = ds[keep - 1], ds[keep]
            ml = (lo + hi) / 2.0
            if hi - lo < 1e-3:
                ml = ds[-1] + 0.25
        r["max_length"] = torch.tensor(float(ml), dtype=r["max_length"].dtype).reshape(r["max_length"].shape)
        out.append(r)
    return out


def _feasible_starts(name, mask_row):
    """indices feasible as first move, not counting the depot where the start rule excludes it"""
    idx = torch.nonzero(mask_row).flatten().tolist()
    if name in DEPOT_ENVS:
        idx = [i for i in idx if i != 0]
    return idx


CROSS_SIZE_ENVS = ["tsp", "cvrp", "sdvrp", "cvrptw", "svrp", "op", "mtvrp"]


def _plan_rollout(rc, st, name, tier):
    cfg = _small_cfg(name, rc, tier)
    env = E.make_env(cfg)
    B = rc.choice([1, 2, 2, 3, 3, 4])
    rows = E.gen_rows(env, cfg, B, st.torch_seed("instances"))
    hand = False
    if name == "op" and rc.random() < 0.7:
        rows = _op_far_nodes(rows, rc, rc.choice([1, 2, 2, 3]))
        hand = True
    env_cfg = None
    if name in CROSS_SIZE_ENVS and rc.random() < 0.3:
        # cross-size use: these environments take every size from the data ("we do not enforce loading from
        # self for flexibility"), so an environment built for one size is evaluated on instances of another
        import copy as _copy

        env_cfg = _copy.deepcopy(cfg)
        n_data = cfg["gen"]["num_loc"]
        env_cfg["gen"]["num_loc"] = rc.choice([max(2, n_data - rc.randint(1, 3)), n_data + rc.randint(1, 4)])
        env = E.make_env(env_cfg)
    td0 = E.reset(env, cfg, rows)
    try:
        gns = int(env.get_num_starts(td0))
    except Exception:  # noqa: BLE001
        gns = int(td0["action_mask"].shape[-1])
    if name in ("fjsp", "jssp"):
        gns = int(td0["action_mask"][:, 1:].sum(-1).min())
    nfeas = min(len(_feasible_starts(name, td0["action_mask"][b])) for b in range(B))
    if name == "op":
        mode = rc.choice(["multistart_greedy", "multistart_sampling", "multistart_sampling", "multisample"])
    elif name in START_RULE_ENVS:
        mode = rc.choice(["multistart_greedy", "multistart_sampling", "multisample"])
    elif name in TABLE_RULE_ENVS:
        mode = rc.choice(["multistart_greedy", "multistart_sampling"])
    else:
        mode = "multisample"
    if mode == "multisample":
        k = rc.choice([1, 2, 3, 4, 5])
    else:
        cands = [1, 2, 2, 3, max(1, gns - 1), gns, gns, gns + 1, gns + 3, max(1, nfeas), nfeas + 1]
        k = max(1, min(rc.choice(cands), 12))
        if name in TABLE_RULE_ENVS:
            k = max(2, min(k, 6))
        if name == "op" and hand and rc.random() < 0.6:
            k = max(2, rc.randint(2, max(2, nfeas)))  # every row has >= k reachable customers, some unreachable
    return {"scenario": "rollout", "cfg": cfg, "env_cfg": env_cfg, "instances": [E.enc_row(r) for r in rows], "hand_built": hand,
            "mode": mode, "k": k, "select_best": rc.random() < 0.5,
            "scripted_mode": rc.choice(["gaussian", "gaussian", "gaussian", "ties", "huge", "flat", "one_dominant"]),
            "table_seed": rc.randrange(1 << 20), "sample_seed": rc.randrange(1 << 30),
            "temperature": rc.choice([1.0, 1.0, 0.5, 2.0]), "tanh_clipping": rc.choice([0, 0, 10.0]),
            "ref_rows_seed": rc.randrange(1 << 30)}


# --------------------------------------------------------------------------------------------------
# (b) start nodes, trajectories, best-of-k
# --------------------------------------------------------------------------------------------------
def _check_starts(run, name, cfg, masks, starts, k, B, where):
    """starts: LongTensor [k*B] in (k, B) k-major layout.  Returns the set of instances with a bad start."""
    tainted = set()
    width = masks.shape[-1]
    if starts.numel() != k * B:
        run.violate(name, "forced_start_shape", f"{where}: {starts.numel()} start actions for {B} instances x {k} "
                    "starts", constraint="count", k=k, B=B, where=where)
        raise StopRun()
    st = starts.view(k, B)
    for b in range(B):
        acts = [int(a) for a in st[:, b].tolist()]
        feas = _feasible_starts(name, masks[b])
        run.probe("forced_start_checked")
        if len(feas) < k:
            run.probe("k_beyond_feasible")
        if len(feas) < int(masks[b].numel()) - (1 if name in DEPOT_ENVS else 0):
            run.probe("some_first_moves_infeasible")
        oob = [a for a in acts if a < 0 or a >= width]
        if oob:
            run.violate(name, "forced_start_infeasible", f"{where}: instance {b}: start action {oob[0]} is not an action "
                        f"index (mask width {width})", constraint="out_of_range", k=k, B=B, instance=b, starts=acts,
                        where=where, n_feasible=len(feas))
            tainted.add(b)
            continue
        bad = [a for a in acts if not bool(masks[b][a])]
        if bad:
            constraint = {"op": "op_masked_start", "pdp": "pdp_start_masked"}.get(name, "masked_start")
            run.violate(name, "forced_start_infeasible", f"{where}: instance {b}: forced start {bad[0]} is masked out at "
                        f"reset (feasible starts {feas}, forced {acts})", constraint=constraint, k=k, B=B, instance=b,
                        starts=acts, feasible=feas, n_feasible=len(feas), where=where, env_kw=cfg.get("kw", {}),
                        every_row_has_k_feasible=bool(all(len(_feasible_starts(name, masks[i])) >= k
                                                          for i in range(B))))
            tainted.add(b)
        if name in TABLE_RULE_ENVS:
            continue  # the k replicas differ by machine table, not by first action
        if len(feas) >= k and len(set(acts)) < k:
            constraint = "op_resample_duplicates" if name == "op" else "duplicate_starts"
            run.violate(name, "forced_start_duplicate", f"{where}: instance {b} has {len(feas)} feasible starts but the {k} "
                        f"forced starts {acts} are not pairwise distinct", constraint=constraint, k=k, B=B, instance=b,
                        starts=acts, n_feasible=len(feas), where=where,
                        some_row_short=bool(any(len(_feasible_starts(name, masks[i])) < k for i in range(B))))
    return tainted


def _max_steps(td) -> int:
    """generous cap on decoding steps: keeps a run bounded when a mutant breaks termination"""
    return 6 * int(td["action_mask"].shape[-1]) + 60


def _scripted_policy(plan, name):
    from ..scripted import make_scripted_policy

    kf = ("iid",) if name in PAYLOAD_KEY_ENVS else None
    return make_scripted_policy(name, plan["scripted_mode"], plan["table_seed"], key="replica", key_fields=kf)


def _exec_rollout(run):
    from ..scripted import instance_keys, scripted_logits

    plan = run.plan
    cfg = plan["cfg"]
    name = cfg["env"]
    rows = [E.dec_row(r) for r in plan["instances"]]
    B = len(rows)
    k, mode = plan["k"], plan["mode"]
    with run.guard(name, "construct env"):
        env = E.make_env(plan.get("env_cfg") or cfg)
    if plan.get("env_cfg"):
        run.fault("cross_size_env")
    with run.guard(name, "env.reset"):
        td = E.reset(env, cfg, rows)
    if name in PAYLOAD_KEY_ENVS:
        td["iid"] = torch.arange(B, dtype=torch.float32)[:, None] + 0.5
    masks = td["action_mask"].clone()
    keys = instance_keys(td, ("iid",) if name in PAYLOAD_KEY_ENVS else None)
    if len(set(keys)) != B:
        run.probe("duplicate_instances")
    multistart = mode.startswith("multistart") and k > 1
    replicated = k > 1
    run.nontrivial = replicated
    if name == "op" and multistart and any(len(_feasible_starts(name, masks[b])) == 0 for b in range(B)):
        run.probe("op_no_reachable_customer")
    tainted = set()
    # ---- the start-node rule, called directly -----------------------------------------------------
    if multistart:
        torch.manual_seed(plan["sample_seed"] + 7)
        with run.guard(name, "env.select_start_nodes", k=k, B=B, where="direct"):
            starts = env.select_start_nodes(td, num_starts=k)
        tainted |= _check_starts(run, name, cfg, masks, starts.long().flatten(), k, B, "select_start_nodes")
    # ---- the real decoding loop -------------------------------------------------------------------
    pol = _scripted_policy(plan, name)
    kw = {"temperature": plan["temperature"], "tanh_clipping": plan["tanh_clipping"]}
    if mode == "multisample":
        kw.update(decode_type="sampling", num_samples=k)
    else:
        kw.update(decode_type=mode, num_starts=k)
    torch.manual_seed(plan["sample_seed"])
    with torch.no_grad():
        with run.guard(name, f"policy forward ({mode}, k={k})", mode=mode, k=k, B=B):
            out = pol(td.clone(), env, phase="test", return_actions=True, return_sum_log_likelihood=False,
                      select_best=False, max_steps=_max_steps(td), **kw)
    acts, ll, rew = out["actions"], out["log_likelihood"].detach().double(), out["reward"].detach().double()
    R = acts.shape[0]
    T = acts.shape[1]
    run.tick(T)
    run.log.add("rollout", name, mode, k, acts.tolist(), [float(x).hex() for x in rew.flatten().tolist()])
    run.state(name, mode, k, B, plan["scripted_mode"])
    want_rows = B * k if replicated else B
    if R != want_rows or rew.flatten().shape[0] != want_rows:
        run.violate(name, "output_rows", f"{mode} k={k}: {R} action rows / {rew.numel()} rewards for {B} instances",
                    constraint="row_count", k=k, B=B, mode=mode)
        raise StopRun()
    rew = rew.flatten()
    forced = 1 if multistart else 0
    if multistart:
        tainted |= _check_starts(run, name, cfg, masks, acts[:, 0].long(), k, B, "policy loop")
    # ---- every row re-derived at B=1 ----------------------------------------------------------------
    order = list(range(R))
    if R > MAX_REF_ROWS:
        g = torch.Generator().manual_seed(plan["ref_rows_seed"])
        order = sorted(torch.randperm(R, generator=g)[:MAX_REF_ROWS].tolist())
    greedy = mode == "multistart_greedy"
    if name in TABLE_RULE_ENVS:
        run.probe("table_rule_reference_skipped")  # a B=1 reference would need the same table augmentation
        order = []
    for r in order:
        b, j = r % B, r // B
        if b in tainted:
            run.probe("row_skipped_bad_start")
            continue
        with run.guard(name, "solo reset (B=1)", phase="solo"):
            tds = E.reset(env, cfg, [rows[b]])
        seq = acts[r].tolist()
        t0 = 0
        if forced:
            with run.guard(name, "solo forced step (B=1)", phase="solo"):
                tds = E.step(env, tds, torch.tensor([seq[0]]))
            if abs(float(ll[r, 0])) != 0.0:
                run.violate(name, "trajectory_vs_solo", f"row {r}: forced first move contributes {float(ll[r, 0])!r}",
                            constraint="forced_step_nonzero", row=r, k=k, B=B)
                raise StopRun()
            t0 = 1
        for t in range(t0, T):
            m = tds["action_mask"][0]
            a = seq[t]
            width = int(m.numel())
            logits = scripted_logits(keys[b], j, t - t0, width, plan["scripted_mode"], plan["table_seed"])
            lp, scale = ref_logp(logits[None], m.numpy()[None], plan["temperature"], plan["tanh_clipping"])
            lp, scale = lp[0], float(scale[0])
            if a >= width or not bool(m[a]):
                run.violate(name, "trajectory_vs_solo", f"row {r} (instance {b}, replica {j}) step {t}: action {a} is not "
                            "admitted when the instance is rolled out alone", constraint="infeasible_in_solo", row=r,
                            step=t, instance=b, replica=j, k=k, B=B, mode=mode)
                raise StopRun()
            if abs(float(ll[r, t]) - lp[a]) > tol(lp[a], scale):
                run.violate(name, "trajectory_vs_solo", f"row {r} step {t}: returned log-prob {float(ll[r, t])!r} is not the "
                            f"log-prob {float(lp[a])!r} that replica {j} of instance {b} assigns to action {a}",
                            constraint="logprob_of_other_rollout", row=r, step=t, instance=b, replica=j, k=k, B=B,
                            mode=mode, got=float(ll[r, t]), ref=float(lp[a]))
                raise StopRun()
            if greedy:
                best = float(np.max(lp))
                if best - lp[a] > 1e-6 * max(1.0, scale):
                    run.violate(name, "trajectory_vs_solo", f"row {r} step {t}: greedy took action {a} (log-prob "
                                f"{float(lp[a])!r}) but replica {j} of instance {b} prefers {int(np.argmax(lp))} "
                                f"({best!r})", constraint="greedy_not_argmax", row=r, step=t, instance=b, replica=j,
                                k=k, B=B)
                    raise StopRun()
            with run.guard(name, "solo step (B=1)", phase="solo"):
                tds = E.step(env, tds, torch.tensor([a]))
        if not bool(E.done_vec(tds)[0]):
            run.violate(name, "trajectory_vs_solo", f"row {r}: the returned {T} actions do not finish instance {b} when it is "
                        "rolled out alone", constraint="solo_not_done", row=r, instance=b, k=k, B=B)
            raise StopRun()
        with run.guard(name, "solo get_reward (B=1)", phase="solo"):
            rs = env.get_reward(tds, acts[r][None])
        rs = float(torch.as_tensor(rs).flatten()[0])
        if abs(rs - float(rew[r])) > tol(rs, 0.0, T):
            run.violate(name, "trajectory_vs_solo", f"row {r}: reward {float(rew[r])!r} but instance {b} alone gives {rs!r} "
                        "for the same actions", constraint="reward_of_other_instance", row=r, instance=b, k=k, B=B,
                        got=float(rew[r]), ref=rs)
            raise StopRun()
        run.probe("solo_rows_rederived")
    # ---- best-of-k ------------------------------------------------------------------------------------
    if plan["select_best"] and replicated:
        torch.manual_seed(plan["sample_seed"])
        with torch.no_grad():
            with run.guard(name, f"policy forward ({mode}, k={k}, select_best)", mode=mode, k=k, B=B):
                ob = pol(td.clone(), env, phase="test", return_actions=True, return_sum_log_likelihood=False,
                         select_best=True, max_steps=_max_steps(td), **kw)
        ab, lb, rb = ob["actions"], ob["log_likelihood"].detach().double(), ob["reward"].detach().double().flatten()
        if ab.shape[0] != B or rb.shape[0] != B:
            run.violate(name, "select_best", f"select_best returned {ab.shape[0]} rows for {B} instances",
                        constraint="row_count", k=k, B=B)
            raise StopRun()
        for b in range(B):
            own = [j * B + b for j in range(k)]
            best = max(float(rew[r]) for r in own)
            if abs(float(rb[b]) - best) > tol(best, 0.0, T):
                other = [r for r in range(R) if abs(float(rew[r]) - float(rb[b])) <= 1e-9]
                run.violate(name, "select_best", f"instance {b}: best-of-{k} reward {float(rb[b])!r} is not the maximum "
                            f"{best!r} of its own rollouts (rewards {[float(rew[r]) for r in own]}; rows with that "
                            f"reward: {other})", constraint="not_own_max", instance=b, k=k, B=B, mode=mode)
                raise StopRun()
            cands = [r for r in own if abs(float(rew[r]) - best) <= tol(best, 0.0, T)]
            hit = [r for r in cands if torch.equal(acts[r], ab[b]) and
                   float((ll[r] - lb[b]).abs().max()) <= 1e-6]
            if not hit:
                run.violate(name, "select_best", f"instance {b}: the actions / log-probs returned with the best reward are "
                            f"not those of the rollout that earned it (best rows {cands})",
                            constraint="actions_of_other_rollout", instance=b, k=k, B=B, mode=mode,
                            returned=ab[b].tolist(), own_best=[acts[r].tolist() for r in cands])
                raise StopRun()
        run.probe("select_best_checked")
    run.summary = {"rows": R, "T": T, "tainted": sorted(tainted)}


# --------------------------------------------------------------------------------------------------
# (c) POMO / SymNCO shared_step regrouping
# --------------------------------------------------------------------------------------------------
class _StubPolicy(torch.nn.Module):
    """Outputs encode (instance id, output row).  The instance of an input row is recognised from the
    ratio of two pairwise distances (invariant under every augmentation rl4co applies), the output layout
    is the documented k-major one (row s*B' + r for start s of input row r)."""

    def __init__(self, fingerprints, seed, embed=6):
        super().__init__()
        self.fp = fingerprints
        self.seed = seed
        self.embed = embed
        self.train_decode_type = "sampling"
        self.val_decode_type = "greedy"
        self.test_decode_type = "greedy"
        self.calls = []
        self.w = torch.nn.Parameter(torch.zeros(1))

    @staticmethod
    def fingerprint(locs):
        d01 = (locs[..., 0, :] - locs[..., 1, :]).norm(dim=-1)
        d02 = (locs[..., 0, :] - locs[..., 2, :]).norm(dim=-1)
        return (d01 / d02).tolist()

    def forward(self, td, env=None, phase="train", num_starts=None, **kw):
        fps = self.fingerprint(td["locs"])
        ids = []
        for f in fps:
            d = [abs(f - g) / max(abs(g), 1e-9) for g in self.fp]
            i = int(np.argmin(d))
            if d[i] > 1e-3:
                raise HarnessError(f"stub policy cannot recognise an augmented instance (ratio {f})")
            ids.append(i)
        n_in = len(ids)
        k = max(int(num_starts or 1), 1)
        rows = n_in * k
        rid = torch.tensor([ids[r % n_in] for r in range(rows)])
        f = torch.tensor([(H(self.seed, "f", r) % 100000) / 100000.0 for r in range(rows)], dtype=torch.float64)
        reward = (rid.double() * 1000.0 + f).float()
        ll = -(torch.arange(rows).float() + 1.0) + 0.0 * self.w
        actions = torch.stack([rid, torch.arange(rows), torch.arange(rows)], 1)
        emb = torch.zeros(n_in, 3, self.embed)
        for r in range(n_in):
            emb[r, :, ids[r] % self.embed] = 1.0
        out = {"reward": reward, "log_likelihood": ll, "actions": actions, "proj_embeddings": emb,
               "init_embeds": emb}
        self.calls.append({"ids_in": ids, "k": k, "rows": rows, "rid": rid.tolist(), "reward": reward.tolist()})
        return out


def _plan_shared_step(rc, st):
    cfg = {"env": "tsp", "n": rc.randint(4, 6), "kw": {}, "gen": {}}
    cfg["gen"] = {"num_loc": cfg["n"]}
    env = E.make_env(cfg)
    B = rc.randint(1, 4)
    rows = None
    for a in range(20):
        cand = E.gen_rows(env, cfg, B, st.torch_seed("instances") + 101 * a)
        fps = [_StubPolicy.fingerprint(r["locs"]) for r in cand]
        if all(abs(fps[i] - fps[j]) / max(fps[j], 1e-9) > 0.05 for i in range(B) for j in range(i)) and \
                all(0.05 < f < 20 for f in fps):
            rows = cand
            break
    if rows is None:
        raise HarnessError("could not draw instances with distinct fingerprints")
    model = rc.choice(["pomo", "symnco"])
    return {"scenario": "shared_step", "model": model, "cfg": cfg, "instances": [E.enc_row(r) for r in rows],
            "phase": rc.choice(["train", "train", "val", "test"]), "n_aug": rc.choice([0, 1, 2, 2, 3, 4] if model == "pomo" else [1, 2, 2, 3, 4]),
            "n_start": rc.choice([2, 3, 4, 5]), "augment_fn": rc.choice(["symmetric", "dihedral8"]),
            "seed": rc.randrange(1 << 30)}


def _exec_shared_step(run):
    plan = run.plan
    cfg = plan["cfg"]
    rows = [E.dec_row(r) for r in plan["instances"]]
    B = len(rows)
    model_name, phase = plan["model"], plan["phase"]
    n_aug, n_start = plan["n_aug"], plan["n_start"]
    if model_name == "pomo" and plan["augment_fn"] == "dihedral8" and n_aug > 1:
        n_aug = 8
    scope = model_name
    with run.guard(scope, "construct env"):
        env = E.make_env(cfg)
    stub = _StubPolicy([_StubPolicy.fingerprint(r["locs"]) for r in rows], plan["seed"])
    common = dict(batch_size=B, train_data_size=B, val_data_size=B, test_data_size=B)
    if model_name == "pomo":
        from rl4co.models.zoo.pomo.model import POMO

        with run.guard(scope, "construct POMO"):
            model = POMO(env, policy=stub, num_augment=n_aug, num_starts=n_start,
                         augment_fn=plan["augment_fn"], **common)
    else:
        from rl4co.models.zoo.symnco.model import SymNCO

        with run.guard(scope, "construct SymNCO"):
            model = SymNCO(env, policy=stub, num_augment=n_aug, num_starts=n_start,
                           augment_fn="symmetric", **common)
    captured = {}
    model.log_dict = lambda *a, **k: None
    orig_log = model.log_metrics

    def log_metrics(metric_dict, ph, dataloader_idx=None):
        captured["out"] = dict(metric_dict)
        return orig_log(metric_dict, ph, dataloader_idx=dataloader_idx)

    model.log_metrics = log_metrics
    loss_args = {}
    cms = []
    if model_name == "pomo":
        orig_calc = model.calculate_loss

        def calculate_loss(td, batch, policy_out, reward=None, log_likelihood=None):
            loss_args["reward"], loss_args["ll"] = reward.detach().clone(), log_likelihood.detach().clone()
            return orig_calc(td, batch, policy_out, reward, log_likelihood)

        model.calculate_loss = calculate_loss
    else:
        import rl4co.models.zoo.symnco.model as sm

        orig_ps = sm.problem_symmetricity_loss

        def ps(reward, ll, *a, **k):
            loss_args["reward"], loss_args["ll"] = reward.detach().clone(), ll.detach().clone()
            return orig_ps(reward, ll, *a, **k)

        from ..kernel import patched

        cms.append(patched(sm, "problem_symmetricity_loss", ps))
    batch = E.batch_of(cfg, [{k: v.clone() for k, v in r.items()} for r in rows])
    torch.manual_seed(plan["seed"])
    with contextlib.ExitStack() as es:
        for cm in cms:
            es.enter_context(cm)
        with run.guard(scope, f"{model_name}.shared_step({phase})", phase=phase, n_aug=n_aug, n_start=n_start, B=B):
            model.shared_step(batch, 0, phase)
    run.tick()
    run.nontrivial = True
    call = stub.calls[-1]
    out = captured.get("out", {})
    eff_aug = n_aug if (n_aug > 1 and not (model_name == "pomo" and phase == "train")) else 1
    if call["rows"] != B * eff_aug * n_start:
        raise HarnessError(f"stub produced {call['rows']} rows, expected {B * eff_aug * n_start}")
    rew_row = call["reward"]
    rid = call["rid"]
    own = {b: [r for r in range(call["rows"]) if rid[r] == b] for b in range(B)}
    run.log.add("shared_step", model_name, phase, n_aug, n_start, B)
    run.state(model_name, phase, n_aug, n_start, B)
    det = dict(model=model_name, phase=phase, n_aug=n_aug, n_start=n_start, B=B)

    def group_check(name, t, enc_row=False):
        """t [B, ...]: every entry of t[b] must stem from a row of instance b, each row once."""
        t = t.detach().double().reshape(B, -1)
        for b in range(B):
            vals = t[b].tolist()
            rows_b = []
            for v in vals:
                r = int(round(-v - 1)) if enc_row else None
                if enc_row:
                    if r < 0 or r >= call["rows"] or rid[r] != b:
                        run.violate(scope, "regroup_mixes_instances", f"{name}[{b}] contains the value of output row {r}, "
                                    f"which belongs to instance {rid[r] if 0 <= r < call['rows'] else '?'}",
                                    constraint=name, instance=b, **det)
                        raise StopRun()
                    rows_b.append(r)
                else:
                    if int(v // 1000) != b:
                        run.violate(scope, "regroup_mixes_instances", f"{name}[{b}] contains reward {v!r} of instance "
                                    f"{int(v // 1000)}", constraint=name, instance=b, **det)
                        raise StopRun()
            if enc_row:
                okb = sorted(rows_b) == own[b]
            else:
                a_, b_ = sorted(vals), sorted(rew_row[r] for r in own[b])
                okb = len(a_) == len(b_) and all(abs(x - y) < 1e-3 for x, y in zip(a_, b_))
            if not okb:
                run.violate(scope, "regroup_mixes_instances", f"{name}[{b}] is not a rearrangement of the {len(own[b])} "
                            f"rollouts of instance {b}", constraint=name + "_bijection", instance=b, **det)
                raise StopRun()
        return True

    if phase == "train":
        if "reward" not in loss_args:
            if not (model_name == "symnco" and n_start <= 1):
                raise HarnessError("loss function was not reached")
        else:
            R_, L_ = loss_args["reward"], loss_args["ll"]
            if R_.shape[0] != B:
                run.violate(scope, "regroup_mixes_instances", f"reward regrouped to shape {tuple(R_.shape)} for {B} instances",
                            constraint="reward_shape", **det)
                raise StopRun()
            group_check("reward", R_)
            group_check("log_likelihood", L_, enc_row=True)
            # element-wise pairing of reward and log-likelihood: both must be the same output row
            rr, lr = R_.double().reshape(-1), L_.double().reshape(-1)
            for v, l_ in zip(rr.tolist(), lr.tolist()):
                r = int(round(-l_ - 1))
                if abs(rew_row[r] - v) > 1e-3:
                    run.violate(scope, "regroup_mixes_instances", f"the loss pairs the log-likelihood of output row {r} with "
                                f"the reward {v!r} of another row", constraint="reward_ll_pairing", **det)
                    raise StopRun()
            if model_name == "pomo" and "bl_val" in out:
                bl = out["bl_val"].detach().double().reshape(B, -1)
                for b in range(B):
                    m = float(np.mean([rew_row[r] for r in own[b]]))
                    if bl.shape[1] != 1 or abs(float(bl[b, 0]) - m) > 1e-2:
                        run.violate(scope, "regroup_mixes_instances", f"shared baseline of instance {b} is {bl[b].tolist()}, "
                                    f"the mean reward of its own rollouts is {m!r}", constraint="baseline_group",
                                    instance=b, **det)
                        raise StopRun()
            if model_name == "symnco" and n_aug > 1:
                inv = out.get("loss_inv")
                inv = float(inv) if inv is not None else None
                if inv is None or abs(inv - (n_aug - 1)) > 1e-4:
                    run.violate(scope, "regroup_mixes_instances", f"invariance loss compares embeddings of different "
                                f"instances: value {inv!r}, but every instance's {n_aug} augmented copies carry the same "
                                f"embedding (expected {n_aug - 1})", constraint="symnco_invariance_grouping", got=inv,
                                **det)
                    raise StopRun()
    else:
        if n_start > 1:
            mr = out["max_reward"].detach().double().reshape(B, -1)
            for b in range(B):
                for v in mr[b].tolist():
                    if int(v // 1000) != b:
                        run.violate(scope, "regroup_mixes_instances", f"max_reward[{b}] = {v!r} is a reward of instance "
                                    f"{int(v // 1000)}", constraint="max_reward", instance=b, **det)
                        raise StopRun()
                best = max(rew_row[r] for r in own[b])
                if abs(float(mr[b].max()) - best) > 1e-3:
                    run.violate(scope, "regroup_mixes_instances", f"max over max_reward[{b}] is {float(mr[b].max())!r}, the "
                                f"best own rollout has {best!r}", constraint="max_reward_value", instance=b, **det)
                    raise StopRun()
            bma = out["best_multistart_actions"].detach()
            if bma.numel() % (B * 3) != 0:
                run.violate(scope, "best_actions_shape", f"best_multistart_actions has shape {tuple(bma.shape)}: not "
                            f"{B} x groups x 3 actions", constraint="best_multistart_actions", **det)
                raise StopRun()
            bma = bma.reshape(B, -1, 3)
            shape_ok = bma.shape[1] == mr.shape[1]
            if not shape_ok:
                run.violate(scope, "best_actions_shape", f"best_multistart_actions has shape "
                            f"{tuple(out['best_multistart_actions'].shape)}: {bma.shape[1]} action sequences per instance for "
                            f"{mr.shape[1]} best rewards (max_reward {tuple(out['max_reward'].shape)})",
                            constraint="best_multistart_actions", **det)
            for b in range(B):
                for g in range(bma.shape[1]):
                    i_, r_ = int(bma[b, g, 0]), int(bma[b, g, 1])
                    if i_ != b or rid[r_] != b:
                        run.violate(scope, "regroup_mixes_instances", f"best_multistart_actions[{b},{g}] are the actions "
                                    f"of output row {r_} (instance {i_})", constraint="best_multistart_actions",
                                    instance=b, **det)
                        raise StopRun()
                    if shape_ok and abs(rew_row[r_] - float(mr[b, g])) > 1e-3:
                        run.violate(scope, "regroup_mixes_instances", f"best_multistart_actions[{b},{g}] are the actions "
                                    f"of row {r_} (reward {rew_row[r_]!r}) but max_reward says {float(mr[b, g])!r}",
                                    constraint="best_actions_not_of_best_reward", instance=b, **det)
                        raise StopRun()
        if n_aug > 1:
            mar = out["max_aug_reward"].detach().double().reshape(B)
            baa = out.get("best_aug_actions")
            for b in range(B):
                best = max(rew_row[r] for r in own[b])
                if abs(float(mar[b]) - best) > 1e-3:
                    run.violate(scope, "regroup_mixes_instances", f"max_aug_reward[{b}] = {float(mar[b])!r}, best own rollout "
                                f"{best!r}", constraint="max_aug_reward", instance=b, **det)
                    raise StopRun()
            if baa is not None:
                if baa.numel() % (B * 3) != 0:
                    run.violate(scope, "best_actions_shape", f"best_aug_actions has shape {tuple(baa.shape)}: not "
                                f"{B} x 3 actions (one best rollout per instance)", constraint="best_aug_actions", **det)
                    raise StopRun()
                seqs = baa.detach().reshape(B, -1, 3)
                if seqs.shape[1] != 1:
                    run.violate(scope, "best_actions_shape", f"best_aug_actions has shape {tuple(baa.shape)}: "
                                f"{seqs.shape[1]} action sequences per instance instead of the one best rollout",
                                constraint="best_aug_actions", **det)
                for b in range(B):
                    best = max(rew_row[r] for r in own[b])
                    for g in range(seqs.shape[1]):
                        i_, r_ = int(seqs[b, g, 0]), int(seqs[b, g, 1])
                        if i_ != b or rid[r_] != b:
                            run.violate(scope, "regroup_mixes_instances", f"best_aug_actions[{b}] holds the actions of row "
                                        f"{r_} (instance {i_})", constraint="best_aug_actions", instance=b, **det)
                            raise StopRun()
                        if seqs.shape[1] == 1 and abs(rew_row[r_] - best) > 1e-3:
                            run.violate(scope, "regroup_mixes_instances", f"best_aug_actions[{b}] are the actions of row "
                                        f"{r_} (reward {rew_row[r_]!r}), best own reward {best!r}",
                                        constraint="best_aug_actions_not_best", instance=b, **det)
                            raise StopRun()
    run.probe("shared_step_checked")
    run.summary = {"rows": call["rows"], "ids_in": call["ids_in"]}


# --------------------------------------------------------------------------------------------------
# real AttentionModel: batched replicated rollout == solo replicated rollout
# --------------------------------------------------------------------------------------------------
def _plan_am(rc, st, name, kind="am"):
    n = rc.randint(4, 7)
    cfg = P.env_cfg_for(kind, name, n, rc)
    if name == "op":
        cfg["gen"]["max_length"] = 3.0
    env = E.make_env(cfg)
    B = rc.choice([2, 2, 3])
    rows = E.gen_rows(env, cfg, B, st.torch_seed("instances"))
    td0 = E.reset(env, cfg, rows)
    gns = int(env.get_num_starts(td0))
    mode = rc.choice(["multistart_greedy", "multistart_greedy", "multisample_greedy"])
    k = rc.randint(2, max(2, min(gns, 4)))
    if kind != "am":  # the scheduling environments define no start-node rule: replicas by num_samples only
        mode, k = "multisample_greedy", rc.randint(2, 4)
    return {"scenario": "am", "kind": kind, "cfg": cfg, "instances": [E.enc_row(r) for r in rows], "mode": mode, "k": k,
            "policy_seed": rc.randrange(1 << 20), "select_best": rc.random() < 0.4}


def _exec_am(run):
    plan = run.plan
    cfg = plan["cfg"]
    name = cfg["env"]
    kind = plan.get("kind", "am")
    scope = kind + ":" + name
    rows = [E.dec_row(r) for r in plan["instances"]]
    B, k, mode = len(rows), plan["k"], plan["mode"]
    with run.guard(scope, "construct env"):
        env = E.make_env(cfg)
    with run.guard(scope, "construct policy"):
        pol = P.make_policy(kind, name, plan["policy_seed"]).eval()
    if kind != "am":
        run.probe("replicas_" + kind)
    with run.guard(scope, "env.reset"):
        td = E.reset(env, cfg, rows)
    masks = td["action_mask"].clone()
    kw = dict(decode_type="multistart_greedy", num_starts=k) if mode == "multistart_greedy" else \
        dict(decode_type="greedy", num_samples=k)
    run.nontrivial = True

    def forward(t, sel=False):
        # same seed for every forward of the run: where the OP start rule has to resample start nodes (fewer
        # reachable customers than starts) the best-selection pass must see the rollouts of the first pass
        torch.manual_seed(plan["policy_seed"] % (2**31 - 1) + 1)
        with torch.no_grad(), ProcessTap() as tap:
            o = pol(t, env, phase="test", return_actions=True, return_sum_log_likelihood=False,
                    select_best=sel, max_steps=_max_steps(t), **kw)
        return o, tap

    with run.guard(scope, f"policy forward ({mode}, k={k})", mode=mode, k=k, B=B, multistart=True):
        out, tap = forward(td.clone())
    acts, ll, rew = out["actions"], out["log_likelihood"].detach().double(), out["reward"].detach().double().flatten()
    run.tick(acts.shape[1])
    run.log.add("am", name, mode, k, acts.tolist())
    if acts.shape[0] != B * k:
        run.violate(scope, "output_rows", f"{acts.shape[0]} rows for {B} instances x {k}", constraint="row_count", k=k, B=B)
        raise StopRun()
    forced = 1 if mode == "multistart_greedy" else 0
    if forced:
        _check_starts(run, name, cfg, masks, acts[:, 0].long(), k, B, "policy loop")
    indeterminate = False
    for b in range(B):
        with run.guard(scope, "solo reset", phase="solo"):
            tds = E.reset(env, cfg, [rows[b], rows[b]])  # two copies: avoids the batch-size-one defects (C14)
        with run.guard(scope, f"solo policy forward ({mode}, k={k})", phase="solo"):
            so, stap = forward(tds)
        sa, sl, sr = so["actions"], so["log_likelihood"].detach().double(), so["reward"].detach().double().flatten()
        for j in range(k):
            r, s = j * B + b, j * 2
            Tm = min(acts.shape[1], sa.shape[1])
            diff = [t for t in range(Tm) if int(acts[r, t]) != int(sa[s, t])]
            if diff and diff[0] < forced and len(_feasible_starts(name, masks[b])) < k:
                # fewer than k feasible starts: the start rule resamples at random (OP), so the batched and the
                # solo run legitimately force different starts; nothing to compare for this replica
                run.probe("am_resampled_starts_not_comparable")
                continue
            if diff:
                t = diff[0]
                if t < forced:
                    run.violate(scope, "batched_vs_solo", f"row {r} (instance {b}, replica {j}) is forced to start at "
                                f"{int(acts[r, t])}, the same instance replicated alone at {int(sa[s, t])}, although it "
                                f"has at least {k} feasible starts", constraint="forced_start", row=r, instance=b,
                                replica=j, k=k, B=B, mode=mode)
                    raise StopRun()
                # selection flip inside float noise?  look at the gap between the two candidates
                lp = tap.records[t - forced].logprobs[r].double()
                gap = abs(float(lp[int(acts[r, t])]) - float(lp[int(sa[s, t])]))
                if gap < 1e-5:
                    indeterminate = True
                    run.probe("indeterminate_selection_flip")
                    continue
                run.violate(scope, "batched_vs_solo", f"row {r} (instance {b}, replica {j}) takes action {int(acts[r, t])} at "
                            f"step {t}; the same instance replicated alone takes {int(sa[s, t])} (log-prob gap {gap!r})",
                            constraint="actions", row=r, instance=b, replica=j, step=t, k=k, B=B, mode=mode)
                raise StopRun()
            tail_ok = all(abs(float(x)) < 1e-6 for x in ll[r, Tm:].tolist()) and \
                all(abs(float(x)) < 1e-6 for x in sl[s, Tm:].tolist())
            if float((ll[r, :Tm] - sl[s, :Tm]).abs().max()) > 1e-4 or not tail_ok:
                run.violate(scope, "batched_vs_solo", f"row {r} (instance {b}, replica {j}): per-step log-probs differ from the "
                            "solo replicated rollout of that instance", constraint="logprobs", row=r, instance=b,
                            replica=j, k=k, B=B, mode=mode)
                raise StopRun()
            if abs(float(rew[r]) - float(sr[s])) > tol(float(sr[s]), 0.0, Tm):
                run.violate(scope, "batched_vs_solo", f"row {r}: reward {float(rew[r])!r} vs {float(sr[s])!r} solo",
                            constraint="reward", row=r, instance=b, replica=j, k=k, B=B, mode=mode)
                raise StopRun()
    run.probe("am_batched_vs_solo")
    if plan["select_best"] and not indeterminate:
        with run.guard(scope, f"policy forward ({mode}, k={k}, select_best)", mode=mode, k=k, B=B):
            ob, _ = forward(td.clone(), sel=True)
        rb = ob["reward"].detach().double().flatten()
        for b in range(B):
            own = [j * B + b for j in range(k)]
            best = max(float(rew[r]) for r in own)
            cands = [r for r in own if abs(float(rew[r]) - best) <= 1e-6]
            ok = abs(float(rb[b]) - best) <= 1e-6 and any(
                torch.equal(acts[r], ob["actions"][b]) and
                float((ll[r] - ob["log_likelihood"][b].double()).abs().max()) <= 1e-6 for r in cands)
            if not ok:
                run.violate(scope, "select_best", f"instance {b}: best-of-{k} does not return the reward / actions / log-probs "
                            "of its own best rollout", constraint="not_own_best", instance=b, k=k, B=B, mode=mode)
                raise StopRun()
        run.probe("select_best_checked")


# --------------------------------------------------------------------------------------------------
# canary mutants (in-memory only)
# --------------------------------------------------------------------------------------------------
@contextlib.contextmanager
def _patch_many(pairs):
    olds = []
    for obj, name, new in pairs:
        olds.append((obj, name, obj.__dict__[name] if isinstance(obj, type) else getattr(obj, name)))
        setattr(obj, name, new)
    try:
        yield
    finally:
        for obj, name, old in olds:
            setattr(obj, name, old)


def _modules_binding(fn_name, orig):
    import sys

    return [m for n, m in sorted(sys.modules.items()) if n.startswith("rl4co") and m is not None
            and getattr(m, "__dict__", {}).get(fn_name) is orig]


def _canary_batchify_interleave():
    """_batchify_single with repeat_interleave: rows [b0,b0,b1,b1] instead of [b0,b1,b0,b1]."""
    from rl4co.utils import ops

    def _batchify_single(x, repeats):
        if isinstance(x, torch.Tensor):
            return x.repeat_interleave(repeats, dim=0)
        idx = torch.arange(x.shape[0]).repeat_interleave(repeats)
        return x[idx]

    return _patch_many([(ops, "_batchify_single", _batchify_single)])


def _canary_unbatchify_no_permute():
    """unbatchify without the permute: a plain view(B, k, ...) of the k-major tensor."""
    from rl4co.utils import ops

    def _unbatchify_single(x, repeats):
        s = x.shape
        return x.reshape(s[0] // repeats, repeats, *s[1:])

    return _patch_many([(ops, "_unbatchify_single", _unbatchify_single)])


def _canary_start_nodes_mod():
    """start nodes `arange % (num_loc+1)` for depot environments: the depot becomes a start node."""
    from rl4co.utils import ops

    orig = ops.select_start_nodes

    def select_start_nodes(td, env, num_starts):
        if env.name in ["tsp", "atsp", "flp", "mcp", "jssp", "fjsp"]:
            return orig(td, env, num_starts)
        num_loc = env.generator.num_loc if hasattr(env.generator, "num_loc") else 0xFFFFFFFF
        return torch.arange(num_starts, device=td.device).repeat_interleave(td.shape[0]) % (num_loc + 1)

    pairs = [(m, "select_start_nodes", select_start_nodes) for m in _modules_binding("select_start_nodes", orig)]
    return _patch_many(pairs)


def _canary_select_best_min():
    """_select_best gathers with min instead of max."""
    from rl4co.utils import decoding as dec
    from rl4co.utils.ops import unbatchify, unbatchify_and_gather

    def _select_best(self, logprobs, actions, td, env):
        rewards = env.get_reward(td, actions)
        _, max_idxs = unbatchify(rewards, self.num_starts).min(dim=-1)
        actions = unbatchify_and_gather(actions, max_idxs, self.num_starts)
        logprobs = unbatchify_and_gather(logprobs, max_idxs, self.num_starts)
        td = unbatchify_and_gather(td, max_idxs, self.num_starts)
        return logprobs, actions, td, env

    return _patch_many([(dec.DecodingStrategy, "_select_best", _select_best)])


def _canary_start_nodes_row_major():
    """start nodes laid out instance-major (`repeat` instead of `repeat_interleave`): row j*B+b gets
    start (j*B+b) % k -- feasible, but instance b no longer receives k distinct starts."""
    from rl4co.utils import ops

    orig = ops.select_start_nodes

    def select_start_nodes(td, env, num_starts):
        sel = orig(td, env, num_starts)
        B = td.shape[0]
        if sel.numel() == num_starts * B and B > 1:
            lo = int(sel.min())
            return torch.arange(num_starts).repeat(B)[: num_starts * B] + lo
        return sel

    pairs = [(m, "select_start_nodes", select_start_nodes) for m in _modules_binding("select_start_nodes", orig)]
    return _patch_many(pairs)


def _canary_select_best_actions_first():
    """best-of-k returns the reward of the best rollout but the actions of replica 0."""
    from rl4co.utils import decoding as dec
    from rl4co.utils.ops import unbatchify, unbatchify_and_gather

    def _select_best(self, logprobs, actions, td, env):
        rewards = env.get_reward(td, actions)
        _, max_idxs = unbatchify(rewards, self.num_starts).max(dim=-1)
        actions = unbatchify_and_gather(actions, torch.zeros_like(max_idxs), self.num_starts)
        logprobs = unbatchify_and_gather(logprobs, max_idxs, self.num_starts)
        td = unbatchify_and_gather(td, max_idxs, self.num_starts)
        return logprobs, actions, td, env

    return _patch_many([(dec.DecodingStrategy, "_select_best", _select_best)])


def _canary_pomo_regroup_swapped():
    """POMO regroups rewards with a plain reshape(B, k) (instance-major reading of a k-major tensor)."""
    import rl4co.models.zoo.pomo.model as pm

    orig = pm.unbatchify

    def unbatchify(x, shape):
        shape_ = [shape] if isinstance(shape, int) else list(shape)
        eff = [s for s in shape_ if s > 0]
        n = int(np.prod(eff)) if eff else 1
        if isinstance(x, torch.Tensor) and x.dim() >= 1 and n > 1:
            return x.reshape(x.shape[0] // n, *eff, *x.shape[1:])
        return orig(x, shape)

    return _patch_many([(pm, "unbatchify", unbatchify)])


def _canary_op_starts_ignore_mask():
    """OP start nodes 1..k whenever every instance has >= k reachable customers, reachable or not -- the
    defect repaired by the repo commit 'fix: OP multi-start forces start nodes that are masked'."""
    from einops import rearrange
    from rl4co.utils import ops

    orig = ops.select_start_nodes

    def select_start_nodes(td, env, num_starts):
        if env.name != "op":
            return orig(td, env, num_starts)
        num_loc = env.generator.num_loc if hasattr(env.generator, "num_loc") else 0xFFFFFFFF
        selected = torch.arange(num_starts, device=td.device).repeat_interleave(td.shape[0]) % num_loc + 1
        if (td["action_mask"][..., 1:].float().sum(-1) < num_starts).any():
            w = td["action_mask"][..., 1:].float()
            w = torch.cat(((w.sum(-1, keepdim=True) == 0).float(), w), -1)
            selected = rearrange(torch.multinomial(w, num_starts, replacement=True), "b n -> (n b)")
        return selected

    pairs = [(m, "select_start_nodes", select_start_nodes) for m in _modules_binding("select_start_nodes", orig)]
    return _patch_many(pairs)


C12.CANARIES = {
    "op_starts_ignore_mask": _canary_op_starts_ignore_mask,
    "batchify_repeat_interleave": _canary_batchify_interleave,
    "unbatchify_no_permute": _canary_unbatchify_no_permute,
    "start_nodes_mod_num_loc_plus_1": _canary_start_nodes_mod,
    "select_best_min": _canary_select_best_min,
    "start_nodes_instance_major": _canary_start_nodes_row_major,
    "select_best_actions_of_replica0": _canary_select_best_actions_first,
    "pomo_regroup_reshape": _canary_pomo_regroup_swapped,
}


# --------------------------------------------------------------------------------------------------
# ant-system search (DeepACO / GFACS inference): best-of-(ants x iterations) kept per instance across calls
# --------------------------------------------------------------------------------------------------
def _plan_antsystem(rc, st, name):
    n = rc.randint(6, 9)
    cfg = {"env": name, "n": n, "kw": {}, "gen": {"num_loc": n}}
    env = E.make_env(cfg)
    B = rc.choice([2, 3, 3, 4])
    rows = E.gen_rows(env, cfg, B, st.torch_seed("instances"))
    return {"scenario": "antsystem", "cfg": cfg, "instances": [E.enc_row(r) for r in rows],
            "n_ants": rc.randint(3, 6), "n_iter": rc.randint(2, 5), "torch_seed": rc.randrange(1 << 30),
            "temperature": rc.choice([0.1, 1.0, 3.0]), "heat_seed": rc.randrange(1 << 30)}


def _exec_antsystem(run):
    """rl4co.models.zoo.deepaco.antsystem.AntSystem on a seeded heuristic matrix: every iteration rolls out
    n_ants replicas per instance and the object keeps, per instance, the best reward and trail seen so far.
    After the run: the reported reward of instance b is the maximum over ITS OWN rollouts of all iterations, and
    the reported actions are those of one of its own rollouts with that reward (and are worth it on instance b)."""
    from rl4co.models.zoo.deepaco.antsystem import AntSystem

    plan = run.plan
    cfg = plan["cfg"]
    name = cfg["env"]
    scope = f"antsystem:{name}"
    rows = [E.dec_row(r) for r in plan["instances"]]
    B = len(rows)
    with run.guard(scope, "construct env", promise=False):
        env = E.make_env(cfg)
    with run.guard(scope, "env.reset", promise=False):
        td = E.reset(env, cfg, rows)
    N = int(td["action_mask"].shape[-1])
    g = torch.Generator().manual_seed(plan["heat_seed"])
    log_heur = torch.randn(B, N, N, generator=g) * 0.5
    seen = []
    orig = AntSystem._update_results

    def tap(self, actions, reward):
        seen.append((actions.detach().clone(), reward.detach().clone()))
        return orig(self, actions, reward)

    AntSystem._update_results = tap
    try:
        torch.manual_seed(plan["torch_seed"])
        # promise=False: when all ants of an instance tie, AntSystem._reward_map divides 0 by 0 and the next
        # iteration samples from NaN pheromones (observation outside C12's statement, DESIGN 10.3)
        with run.guard(scope, "AntSystem.run", promise=False, n_ants=plan["n_ants"], n_iterations=plan["n_iter"], B=B):
            aco = AntSystem(log_heur, n_ants=plan["n_ants"], temperature=plan["temperature"])
            td_f, actions, reward = aco.run(td, env, plan["n_iter"])
    finally:
        AntSystem._update_results = orig
    run.tick(len(seen))
    if len(seen) != plan["n_iter"]:
        run.probe("antsystem_iterations_not_observed")
        return
    det = {"n_ants": plan["n_ants"], "n_iter": plan["n_iter"], "B": B, "cfg": cfg}
    improved_later = False
    for b in range(B):
        own = []  # (reward, actions) of every rollout of instance b
        for it, (a, r) in enumerate(seen):
            for k in range(a.shape[1]):
                own.append((float(r[b, k]), [int(x) for x in a[b, k].tolist()], it))
        best = max(x[0] for x in own)
        if any(x[0] == best and x[2] > 0 for x in own) and not any(x[0] == best and x[2] == 0 for x in own):
            improved_later = True
        got_r = float(reward[b])
        if abs(got_r - best) > 1e-5 * max(1.0, abs(best)):
            run.violate(scope, "select_best", f"instance {b}: reported reward {got_r!r} is not the maximum {best!r} of its "
                        f"own {len(own)} rollouts", constraint="antsystem_reward", instance=b, **det)
            raise StopRun()
        got_a = [int(x) for x in actions[b].tolist()]
        strip = lambda seq: [x for i, x in enumerate(seq) if not (x == 0 and i > 0 and all(y == 0 for y in seq[i:]))]  # noqa: E731
        cands = [x for x in own if abs(x[0] - best) <= 1e-5 * max(1.0, abs(best))]
        if not any(strip(x[1]) == strip(got_a) for x in cands):
            whose = [bb for bb in range(B) for (a, r) in seen for k in range(a.shape[1])
                     if strip([int(x) for x in a[bb, k].tolist()]) == strip(got_a)]
            run.violate(scope, "select_best", f"instance {b}: reported actions {got_a} are not those of its best rollout "
                        f"(reward {best!r}); they are a rollout of instance(s) {sorted(set(whose))}",
                        constraint="antsystem_actions", instance=b, **det)
            raise StopRun()
        # worth what is reported, on this instance
        ref = RR.make_ref(name, rows[b], cfg)
        obj = ref.objective(strip(got_a) if name != "tsp" else got_a)
        if abs(obj - got_r) > 1e-4 * max(1.0, abs(obj)):
            run.violate(scope, "select_best", f"instance {b}: reported reward {got_r!r} but the reported actions are worth "
                        f"{obj!r} on this instance", constraint="antsystem_objective", instance=b, **det)
            raise StopRun()
    run.probe("antsystem_checked")
    if improved_later:
        run.probe("antsystem_improved_in_later_iteration")
        run.nontrivial = True
    run.summary = {"reward": [float(x) for x in reward.tolist()]}


# --------------------------------------------------------------------------------------------------
# non-autoregressive decoder: heatmap row of every replicated rollout
# --------------------------------------------------------------------------------------------------
def _plan_nar(rc, st, name):
    n = rc.randint(5, 7)
    cfg = {"env": name, "n": n, "kw": {}, "gen": {"num_loc": n}}
    env = E.make_env(cfg)
    # two calls on one policy object whose replicated batches have the SAME number of rows but different batch
    # sizes (6 = 2x3 = 3x2, 12 = 2x6 = 3x4 = 4x3 ...), then possibly a third
    rows_total = rc.choice([6, 12])
    pairs = [(b, rows_total // b) for b in (2, 3, 4, 6) if rows_total % b == 0 and 2 <= rows_total // b <= n - 1]
    rc.shuffle(pairs)
    calls = pairs[: rc.randint(2, min(3, len(pairs)))]
    rows = E.gen_rows(env, cfg, max(b for b, _ in calls) * len(calls), st.torch_seed("instances"))
    return {"scenario": "nar", "cfg": cfg, "instances": [E.enc_row(r) for r in rows], "calls": calls,
            "mode": rc.choice(["multistart_sampling", "multistart_greedy"]), "policy_seed": rc.randrange(1 << 30),
            "torch_seed": rc.randrange(1 << 30)}


def _exec_nar(run):
    """rl4co's NonAutoregressiveDecoder under multi-start: row r of the k-fold expanded state reads the heatmap of
    instance r mod B -- on every call of the same policy object, whatever (B, k) earlier calls used."""
    plan = run.plan
    cfg = plan["cfg"]
    name = cfg["env"]
    scope = f"nar:{name}"
    rows = [E.dec_row(r) for r in plan["instances"]]
    with run.guard(scope, "construct env", promise=False):
        env = E.make_env(cfg)
    with run.guard(scope, "construct NonAutoregressivePolicy", promise=False):
        pol = P.make_nar_policy(name, plan["policy_seed"]).eval()
    at = 0
    for ci, (B, k) in enumerate(plan["calls"]):
        chunk = rows[at:at + B]
        at += B
        with run.guard(scope, "env.reset", promise=False):
            td = E.reset(env, cfg, chunk)
        with torch.no_grad():
            heat = pol.encoder(td)[0].detach()  # [B, N, N]
        torch.manual_seed(plan["torch_seed"] + ci)
        with ProcessTap() as tap:
            with run.guard(scope, f"policy forward decode_type={plan['mode']}", B=B, k=k, call=ci):
                out = pol(td.clone(), env, phase="test", decode_type=plan["mode"], num_starts=k, return_actions=True)
        acts = out["actions"]
        run.tick(len(tap.records))
        if acts.shape[0] != B * k:
            run.violate(scope, "row_instance", f"call {ci}: {acts.shape[0]} rollouts for {B} instances x {k} starts",
                        constraint="count", B=B, k=k, call=ci)
            raise StopRun()
        # step t (t >= 1) scores the move after action t-1: logits of row r = heat[r mod B, action_{t-1}[r], :]
        for t, rec in enumerate(tap.records, start=1):
            if t >= acts.shape[1] or rec.logits.shape[0] != B * k:
                continue
            prev = acts[:, t - 1]
            for r in range(B * k):
                want = heat[r % B, int(prev[r])]
                if not torch.allclose(rec.logits[r], want, rtol=1e-5, atol=1e-6):
                    whose = [b for b in range(B) if torch.allclose(rec.logits[r], heat[b, int(prev[r])], rtol=1e-5, atol=1e-6)]
                    run.violate(scope, "row_instance", f"call {ci} (B={B}, k={k}) step {t}: rollout row {r} is scored with "
                                f"the heatmap of instance {whose[0] if whose else '?'}, it belongs to instance {r % B}",
                                constraint="heatmap_row", B=B, k=k, call=ci, row=r, step=t,
                                earlier_calls=[list(c) for c in plan["calls"][:ci]])
                    raise StopRun()
        run.log.add("nar", ci, B, k, [int(x) for x in acts[:, 0].tolist()])
        run.state("nar", name, B, k)
    run.probe("nar_rows_checked")
    run.fault("policy_reuse", len(plan["calls"]))
    run.nontrivial = True
