"""C04 — an instance's outcome is independent of its batch-mates and of padding steps.

Phase A drives every instance alone (B=1) under a scheduled action strategy and records masks,
finishing tick and reward.  Phase B replays the recorded sequences inside scheduled batches
(copies, strangers, other batch sizes, other positions) with stalls (padding of finished rows while a
slower batch-mate runs) and the perturbations reindex / replicate / snapshot / alternate.  The
history check demands bit-equal masks and finishing ticks and float-equal rewards."""
from __future__ import annotations

import math

import torch

from .. import drive as D
from .. import envs as E
from ..kernel import HarnessError, StopRun, Streams

ENVS = E.ALL_CONSTRUCTIVE


def _tol(ref: float, n: int) -> float:
    return 1e-5 * max(1.0, abs(ref)) * math.sqrt(max(n, 1))


class C04:
    prop = "C04"
    level = "exploration"
    chunk = 4
    rule = ("run = one environment configuration (round-robin over 21 constructive envs) x 2-4 "
            "generator instances x per-instance action strategy; each instance is driven solo (B=1) "
            "and then inside 2-4 scheduled batch compositions with padding of finished rows and "
            "perturbations (reindex, replicate, snapshot/restore, alternate episode on the same env). "
            "Non-trivial = at least one perturbation fired or two rows of one batch finished at "
            "different ticks; distinct = distinct event-log digest.")
    components_real = ["rl4co.envs.* (_reset/_step/get_action_mask/get_reward of all 21 constructive "
                       "environments)", "rl4co generators (instances)", "rl4co.utils.ops.batchify",
                       "tensordict indexing"]
    components_stub = ["action chooser (seeded adversarial scheduler instead of a policy)",
                       "EDA PDN data files (random stub npy, 8x8 grid)"]
    assumptions = ["CPU float32 kernels", "instances come from the library's generators at small sizes "
                   "(3-8 nodes, 8% at 20-50)", "MDCPDP is exercised with one depot (generator emits "
                   "capacity [B,1]; see DESIGN 7.11)"]
    required_probes = ["row_padded", "unequal_finish"]
    CANARIES = {}

    # ---------------------------------------------------------------------------------------------
    @staticmethod
    def make_plan(run_seed: int, tier: str) -> dict:
        st = Streams(run_seed)
        rc = st.get("config")
        pool = E.only_filter(ENVS)
        name = pool[rc.randrange(len(pool))]
        cfg = E.sample_cfg(name, rc, tier)
        env = E.make_env(cfg)
        m = rc.randint(2, 4)
        rows = E.gen_rows(env, cfg, m, st.torch_seed("instances"))
        if rc.random() < 0.4:  # hand-supplied documented-format data: per-instance parameters differ between rows
            rows, _src = E.hand_format(name, rows, rc)
        strategies = [rc.choice(D.STRATEGIES) for _ in range(m)]
        comps = []
        for _ in range(rc.randint(2, 4)):
            b = rc.choice([1, 2, 2, 3, 3, 4, 5, 6])
            rws = [rc.randrange(m) for _ in range(b)]
            if rc.random() < 0.3:  # copies of one instance
                rws = [rws[0]] * b
            perturb = []
            if rc.random() < 0.5:
                kinds = ["reindex", "snapshot", "alternate"]
                if name != "ffsp":
                    kinds.append("replicate")
                for _k in range(rc.randint(1, 2)):
                    kind = rc.choice(kinds)
                    perturb.append({"kind": kind, "at": rc.randint(0, 6), "seed": rc.randrange(1 << 30)})
            comps.append({"rows": rws, "perturb": perturb})
        env_cfg = E.cross_size_cfg(cfg, rc) if rc.random() < 0.15 else None
        return {"cfg": cfg, "env_cfg": env_cfg, "instances": [E.enc_row(r) for r in rows], "strategies": strategies,
                "compositions": comps}

    # ---------------------------------------------------------------------------------------------
    @staticmethod
    def sample(run):
        p = run.plan
        return {"env": p["cfg"], "n_instances": len(p["instances"]), "strategies": p["strategies"],
                "compositions": p["compositions"], "instance0": p["instances"][0],
                "solo": getattr(run, "solo_summary", None)}

    @staticmethod
    def shrink(plan):
        import copy

        # drop compositions, drop perturbations, drop rows of compositions
        for ci in range(len(plan["compositions"])):
            if len(plan["compositions"]) > 1:
                p = copy.deepcopy(plan)
                del p["compositions"][ci]
                yield p
        for ci, c in enumerate(plan["compositions"]):
            for pi in range(len(c["perturb"])):
                p = copy.deepcopy(plan)
                del p["compositions"][ci]["perturb"][pi]
                yield p
            if len(c["rows"]) > 1:
                for ri in range(len(c["rows"])):
                    p = copy.deepcopy(plan)
                    del p["compositions"][ci]["rows"][ri]
                    yield p

    # ---------------------------------------------------------------------------------------------
    @staticmethod
    def execute(run):
        plan = run.plan
        cfg = plan["cfg"]
        name = cfg["env"]
        rows = [E.dec_row(r) for r in plan["instances"]]
        with run.guard(name, "construct env"):
            env = E.make_env(plan.get("env_cfg") or cfg)
        if plan.get("env_cfg"):
            run.fault("cross_size_env")
        solo = []
        for i, row in enumerate(rows):
            solo.append(_solo(run, env, cfg, row, plan["strategies"][i], i))
        run.solo_summary = [{"T": s["T"], "reward": s["reward"], "actions": s["actions"]} for s in solo]
        for ci, comp in enumerate(plan["compositions"]):
            _composition(run, env, cfg, rows, solo, comp, ci)


def _solo(run, env, cfg, row, strategy, i):
    name = cfg["env"]
    with run.guard(name, "solo reset (B=1)", phase="solo"):
        td = E.reset(env, cfg, [row])
    cap = D.step_bound_generic(cfg, td)
    masks, actions = [], []
    t = 0
    while not bool(E.done_vec(td)[0]):
        opts = D.admitted(td["action_mask"][0])
        masks.append(D.mask_bits(td["action_mask"][0]))
        if not opts:
            run.probe("solo_dead_end")  # C02's business
            raise StopRun()
        a = D.choose(run, strategy, td, 0, opts)
        actions.append(a)
        with run.guard(name, "solo step (B=1)", phase="solo"):
            td = E.step(env, td, torch.tensor([a]))
        run.tick()
        t += 1
        if t > cap:
            run.probe("solo_step_cap")
            raise StopRun()
    final_mask = D.mask_bits(td["action_mask"][0])
    with run.guard(name, "solo get_reward (B=1)", phase="solo"):
        r = env.get_reward(td, torch.tensor([actions]))
    r = float(torch.as_tensor(r).flatten()[0])
    run.log.add("solo", i, actions, r.hex() if r == r else "nan")
    return {"T": t, "masks": masks, "actions": actions, "reward": r, "final_mask": final_mask}


def _composition(run, env, cfg, rows, solo, comp, ci):
    from rl4co.utils.ops import batchify

    name = cfg["env"]
    src = list(comp["rows"])  # src[r] = instance index of row r
    perturbs = sorted(comp["perturb"], key=lambda p: p["at"])
    for p in perturbs:
        if p["kind"] == "alternate":
            _alternate(run, env, cfg, rows, p)
    with run.guard(name, "batched reset", phase="batch", B=len(src)):
        td = E.reset(env, cfg, [rows[i] for i in src])
    Ts = [solo[i]["T"] for i in src]
    if len(set(Ts)) > 1:
        run.probe("unequal_finish")
        run.nontrivial = True
    t = 0
    hist = [[] for _ in src]  # hist[r] = actions fed so far to the row now at position r
    tail = []  # per-tick action vectors since the snapshot (valid while the layout is unchanged)
    snap = None
    cap = max(Ts) + 2
    while True:
        # ---- perturbations scheduled before tick t ------------------------------------------------
        for p in perturbs:
            if p["at"] != t or p.get("fired"):
                continue
            if t >= max(solo[i]["T"] for i in src):
                continue
            if p["kind"] == "reindex":
                g = torch.Generator().manual_seed(p["seed"])
                perm = torch.randperm(len(src), generator=g).tolist()
                if len(perm) > 1 and (p["seed"] % 3 == 0) and name != "ffsp":
                    # drop a row (not for FFSP: it books the reward inside the step that finishes the whole
                    # batch, so removing the last unfinished row without a step leaves no reward to read -
                    # no caller of rl4co re-indexes FFSP states)
                    perm = perm[:-1]
                with run.guard(name, "reindex td[idx]", phase="batch"):
                    td = td[torch.tensor(perm)]
                src = [src[j] for j in perm]
                hist = [list(hist[j]) for j in perm]
                if snap is not None:
                    snap["valid"] = False
                run.fault("reindex", perm)
                run.nontrivial = True
            elif p["kind"] == "replicate":
                k = 2 + p["seed"] % 2
                with run.guard(name, "batchify mid-episode", phase="batch"):
                    td = batchify(td, k)
                src = src * k
                hist = [list(h) for _ in range(k) for h in hist]
                if snap is not None:
                    snap["valid"] = False
                run.fault("replicate", k)
                run.nontrivial = True
            elif p["kind"] == "snapshot" and snap is None:
                snap = {"t": t, "td": td.clone(), "valid": True}
                tail = []
                run.fault("snapshot", t)
                run.nontrivial = True
        done = E.done_vec(td)
        # ---- history check: finishing tick --------------------------------------------------------
        for r, i in enumerate(src):
            should = t >= solo[i]["T"]
            if bool(done[r]) != should:
                run.violate(name, "finish_tick", f"row {r} (instance {i}) done={bool(done[r])} at tick {t}, "
                            f"solo finished at {solo[i]['T']}", constraint="finish", tick=t, B=len(src),
                            row=r, solo_T=solo[i]["T"], cfg=cfg)
                raise StopRun()
        if bool(done.all()):
            break
        if t > cap:
            raise HarnessError("composition exceeded its own cap")
        # ---- masks and actions --------------------------------------------------------------------
        acts = []
        for r, i in enumerate(src):
            bits = D.mask_bits(td["action_mask"][r])
            if t < solo[i]["T"]:
                if bits != solo[i]["masks"][t]:
                    run.violate(name, "mask_differs", f"row {r} (instance {i}) tick {t}: batched mask {bits} "
                                f"!= solo mask {solo[i]['masks'][t]}", constraint="mask", tick=t,
                                B=len(src), row=r, cfg=cfg)
                    raise StopRun()
                acts.append(solo[i]["actions"][t])
            else:
                opts = D.admitted(td["action_mask"][r])
                if not opts:
                    run.probe("finished_row_without_action")  # reported by C02
                    return
                acts.append(D.choose(run, "uniform", td, r, opts))
                run.probe("row_padded")
                run.fault("stall")
                run.nontrivial = True
        for r, a in enumerate(acts):
            hist[r].append(a)
        tail.append(acts)
        with run.guard(name, "batched step", phase="batch", B=len(src), tick=t):
            td = E.step(env, td, torch.tensor(acts))
        run.tick()
        run.state(name, t, tuple(acts))
        t += 1
    _check_rewards(run, env, cfg, td, src, solo, hist, "batch")
    # ---- snapshot restore: re-drive the same suffix ----------------------------------------------------
    if snap is not None and snap["valid"] and tail:
        td2 = snap["td"]
        for acts in tail:
            with run.guard(name, "step after snapshot restore", phase="restore"):
                td2 = E.step(env, td2, torch.tensor(acts))
        run.probe("snapshot_restored")
        if not torch.equal(td2["action_mask"], td["action_mask"]):
            run.violate(name, "snapshot_mask", "final mask after restoring a snapshot and re-driving the same "
                        "actions differs from the first pass", constraint="snapshot", cfg=cfg)
            raise StopRun()
        _check_rewards(run, env, cfg, td2, src, solo, hist, "restore")


def _check_rewards(run, env, cfg, td, src, solo, hist, phase):
    name = cfg["env"]
    B = len(src)
    T = len(hist[0]) if hist else 0
    actions = torch.tensor(hist, dtype=torch.long).reshape(B, T)
    with run.guard(name, f"get_reward ({phase})", phase=phase, B=B):
        rew = env.get_reward(td, actions)
    rew = torch.as_tensor(rew)
    if rew.dim() == 0:
        rew = rew.reshape(1)
    rew = rew.flatten()
    if rew.numel() != B:
        run.violate(name, "reward_shape", f"get_reward returned {tuple(rew.shape)} for batch {B}",
                    constraint="shape", B=B, cfg=cfg)
        raise StopRun()
    for r, i in enumerate(src):
        got, ref = float(rew[r]), solo[i]["reward"]
        if (got != got) and (ref != ref):
            continue
        if abs(got - ref) > _tol(ref, T) or (got != got) != (ref != ref):
            padded = T - solo[i]["T"]
            run.violate(name, "reward_differs", f"row {r} (instance {i}) reward {got!r} in batch of {B} vs "
                        f"{ref!r} solo (padded {padded} ticks, phase {phase})", constraint="reward",
                        B=B, row=r, padded=padded, got=got, ref=ref, cfg=cfg, phase=phase,
                        reward_mode=cfg.get("kw", {}))
            raise StopRun()
    run.log.add("rewards", phase, [float(x).hex() for x in rew.tolist()])


def _alternate(run, env, cfg, rows, p):
    """A complete unrelated episode on the same env object (other batch size) before the episode under
    test: exposes state parked on the environment object."""
    name = cfg["env"]
    b = 1 + p["seed"] % 3
    sel = [rows[(p["seed"] + j) % len(rows)] for j in range(b)]
    with run.guard(name, "alternate episode reset", phase="alternate"):
        td = E.reset(env, cfg, sel)
    cap = D.step_bound_generic(cfg, td)
    t = 0
    while not bool(E.done_vec(td).all()) and t < cap:
        acts = []
        for r in range(b):
            opts = D.admitted(td["action_mask"][r])
            if not opts:
                return
            acts.append(D.choose(run, "uniform", td, r, opts))
        with run.guard(name, "alternate episode step", phase="alternate"):
            td = E.step(env, td, torch.tensor(acts))
        t += 1
    run.fault("alternate", b)
    run.nontrivial = True


# ------------------------------------------------------------------------------------------------
# canary mutants (sensitivity self-test; in-memory only)
# ------------------------------------------------------------------------------------------------
def _canary_cvrp_capacity_shared():
    """CVRP used capacity leaks across the batch: row i also carries row 0's load."""
    import contextlib

    from rl4co.envs.routing.cvrp.env import CVRPEnv

    orig = CVRPEnv.get_action_mask

    def mutant(td):
        td = td.clone()
        td["used_capacity"] = td["used_capacity"] + td["used_capacity"][0:1] * 0.5
        return orig(td)

    @contextlib.contextmanager
    def cm():
        CVRPEnv.get_action_mask = staticmethod(mutant)
        try:
            yield
        finally:
            CVRPEnv.get_action_mask = staticmethod(orig)

    return cm()


def _canary_pctsp_done_all():
    """PCTSP `done` reduced over the batch: nobody is done until everybody is."""
    import contextlib

    from rl4co.envs.routing.pctsp.env import PCTSPEnv

    orig = PCTSPEnv._step

    def mutant(self, td):
        td = orig(self, td)
        td["done"] = td["done"] & td["done"].all()
        return td

    @contextlib.contextmanager
    def cm():
        PCTSPEnv._step = mutant
        try:
            yield
        finally:
            PCTSPEnv._step = orig

    return cm()


C04.CANARIES = {"cvrp_capacity_shared": _canary_cvrp_capacity_shared,
                "pctsp_done_all": _canary_pctsp_done_all}
