"""C07 — scheduling environments always yield valid schedules with the reported makespan.

One run = one environment configuration (FJSP / JSSP / FFSP / SMTWTP), one batch of 1-5 generator
instances (FJSP/JSSP optionally written to instance files and read back through the file generators
under a permuted directory listing) driven in lock-step to completion, every row under its own action
strategy, with the perturbations alternate / snapshot / env-restart and the natural stall of rows that
finish early.  Oracles: (i) an independent validator on every row's final schedule against the ORIGINAL
instance, (ii) an independent dispatcher (rlsim.ref.scheduling) fed the same actions predicts clock,
done flag and admissible set at every tick and keeps its own ledger of the schedule, (iii) SMTWTP
permutation and tardiness, (iv) FFSP validator and the per-slot "every ready job is offered"."""
from __future__ import annotations

import contextlib
import copy
import math
import os
import pickle
import random
import shutil
import tempfile

import torch

from .. import drive as D
from .. import envs as E
from ..kernel import H, HarnessError, StopRun, Streams
from ..ref import scheduling as R

ENV_WEIGHTS = [("fjsp", 7), ("jssp", 5), ("ffsp", 5), ("smtwtp", 3)]
STRATEGIES = ["uniform", "lowest", "highest", "zero_eager", "zero_averse", "last_eager", "uniform"]
JOBSHOP = ("fjsp", "jssp")


def _tol(ref: float, n: int) -> float:
    return 1e-5 * max(1.0, abs(ref)) * math.sqrt(max(n, 1))


class C07:
    prop = "C07"
    level = "exploration"
    chunk = 4
    rule = ("run = one scheduling environment (seeded choice FJSP 35% / JSSP 25% / FFSP 25% / SMTWTP 15%) "
            "x swarm configuration (jobs, machines, ops per job, processing-time range, same_mean_per_op, "
            "one2one_ma_map, mask_no_ops on/off; stages/machines/jobs for FFSP) x batch of 1-5 generator "
            "instances (a quarter of the FJSP/JSSP runs go through instance files and the file generators, "
            "directory listing permuted) x per-row action strategy (wait-eager, wait-averse, lowest, highest, "
            "uniform) x perturbations (alternate episode of another shape on the same env object, snapshot + "
            "restore + re-drive, env pickle/deepcopy mid-episode, stall of finished rows). Non-trivial = a "
            "perturbation fired or two rows finished at different ticks; distinct = distinct event-log digest.")
    components_real = ["rl4co.envs.scheduling.fjsp.env.FJSPEnv (_reset/_step/_make_step/_transit_to_next_time/"
                       "get_action_mask/_get_reward)", "rl4co.envs.scheduling.jssp.env.JSSPEnv",
                       "rl4co.envs.scheduling.ffsp.env.FFSPEnv + IndexTables", "rl4co.envs.scheduling.smtwtp.env.SMTWTPEnv",
                       "FJSPGenerator / JSSPGenerator / FFSPGenerator / SMTWTPGenerator (instances)",
                       "fjsp.parser.write/read, jssp.parser.read, FJSPFileGenerator, JSSPFileGenerator"]
    components_stub = ["action chooser (seeded adversarial scheduler instead of a policy)",
                       "os.listdir (seeded permutation of the real listing of the run's temp dir)",
                       "JSSP instance files are written by the harness in the format jssp.parser documents "
                       "(rl4co ships no JSSP writer)"]
    assumptions = ["CPU float32 kernels; processing times are integers (15% of the FJSP/JSSP runs: multiples of 1/4 or 1/2), so clock arithmetic is exact",
                   "instances come from the library's generators at small sizes (2-4 jobs x 2-3 machines, 8% at "
                   "5-10 jobs); FFSP multi-start replica p is expected to visit the machines of a stage in the order of the "
                   "p-th lexicographic permutation (IndexTables.machine_table)",
                   "mask-vs-dispatcher differences that only hide a feasible action, and clock differences, are "
                   "reported under their own monitors (mask_hides, clock) because they belong to the mechanisms "
                   "the property names, although a hidden action alone does not make a schedule invalid"]
    required_probes = ["row_padded", "unequal_finish", "padded_ops", "unequal_ops_in_batch", "wait_taken",
                       "clock_advanced_twice_in_one_step", "snapshot_restored", "env_restarted",
                       "alternate_done", "file_instances", "listdir_shuffled", "ffsp_slot_skipped",
                       "ffsp_multistart", "mask_no_ops_on", "mask_no_ops_off", "final_only_run"]
    excluded = [{"what": "FFSPEnv.select_start_nodes",
                 "why": "calls IndexTables.augment_machine_tables, which does not exist (AttributeError); the "
                        "multi-start protocol actually used by MultiStageFFSPPolicy (batchify + env.pre_step) "
                        "is exercised instead"},
                {"what": "FJSP check_mask option; the dense per-step values under stepwise_reward=True", "why": "not part of the property (with stepwise_reward=True, 15% of FJSP/JSSP runs, the reward reported for the complete action sequence is still checked against the makespan)"}]
    CANARIES = {}

    # ---------------------------------------------------------------------------------------------
    @staticmethod
    def make_plan(run_seed: int, tier: str) -> dict:
        st = Streams(run_seed)
        rc = st.get("config")
        pool = [(n, w) for n, w in ENV_WEIGHTS if n in E.only_filter([n for n, _ in ENV_WEIGHTS])]
        tot = sum(w for _, w in pool)
        x = rc.randrange(tot)
        name = pool[-1][0]
        for n, w in pool:
            if x < w:
                name = n
                break
            x -= w
        small = True if tier != "thorough" else rc.random() < 0.75
        cfg = _vary(E.sample_cfg(name, rc, tier, small=small), rc)
        env = E.make_env(cfg)
        B = rc.choice([1, 2, 2, 3, 3, 4, 5])
        rows = E.gen_rows(env, cfg, B, st.torch_seed("instances"))
        source = "generator"
        if name == "smtwtp" and rc.random() < 0.4:
            rows, source = E.hand_format(name, rows, rc)
        strategies = [rc.choice(STRATEGIES) for _ in range(B)]
        rf = st.get("fractional")
        will_file = None
        if name in JOBSHOP and rf.random() < 0.15:
            # processing times on a quarter / half unit grid (`proc_times` is a float field; the text files hold
            # integers, so these instances never take the file path): dyadic values keep the clock arithmetic
            # exact, and "finished by now" can no longer be confused with "finishes within one unit from now"
            f = rf.choice([0.25, 0.5])
            for r in rows:
                r["proc_times"] = r["proc_times"] * f
            source, will_file = f"hand:fractional_x{f}", False
        plan = {"cfg": cfg, "instances": [E.enc_row(r) for r in rows], "strategies": strategies,
                "source": source, "perturb": [],
                # one run in five leaves the tick oracle off so that a state the dispatcher would stop at
                # is driven on to its final schedule and judged by the validator alone
                "tick_oracle": rc.random() < 0.8}
        if name == "ffsp" and cfg["gen"]["num_machine"] >= 2 and rc.random() < 0.3:
            # multi-start: the batch is replicated k times after reset, replica p visits the machines of
            # every stage in the order of the p-th permutation (MultiStageFFSPPolicy.pre_forward protocol)
            k = rc.randint(2, min(math.factorial(cfg["gen"]["num_machine"]), max(2, 12 // B)))
            plan["multistart"] = k
            plan["strategies"] = [rc.choice(STRATEGIES) for _ in range(B * k)]
        if name in JOBSHOP and rc.random() < 0.25 and will_file is None:
            plan["source"] = "file"
            plan["listdir_seed"] = rc.randrange(1 << 30) if rc.random() < 0.6 else None
        if rc.random() < 0.6:
            kinds = ["snapshot", "env-restart", "alternate"]
            for kind in rc.sample(kinds, rc.randint(1, 2)):
                p = {"kind": kind, "at": rc.randint(0, 7), "seed": rc.randrange(1 << 30)}
                if kind == "alternate":
                    b = rc.randint(1, 3)
                    if name in JOBSHOP:
                        acfg = _vary(E.sample_cfg(name, rc, tier), rc)
                        aenv = E.make_env(acfg)
                    else:
                        acfg, aenv = cfg, env
                    arows = E.gen_rows(aenv, acfg, b, st.torch_seed("alternate"))
                    p["cfg"] = acfg
                    p["instances"] = [E.enc_row(r) for r in arows]
                plan["perturb"].append(p)
        return plan

    # ---------------------------------------------------------------------------------------------
    @staticmethod
    def sample(run):
        p = run.plan
        return {"env": p["cfg"], "B": len(p["instances"]), "strategies": p["strategies"],
                "source": p["source"], "perturb": [{k: v for k, v in q.items() if k not in ("instances",)}
                                                   for q in p["perturb"]],
                "instance0": p["instances"][0], "episode": getattr(run, "episode_summary", None)}

    @staticmethod
    def shrink(plan):
        for pi in range(len(plan["perturb"])):
            p = copy.deepcopy(plan)
            del p["perturb"][pi]
            yield p
        if plan.get("source") == "file":
            p = copy.deepcopy(plan)
            p["source"] = "generator"
            yield p
        if plan.get("multistart"):
            p = copy.deepcopy(plan)
            del p["multistart"]
            p["strategies"] = p["strategies"][: len(p["instances"])]
            yield p
        elif len(plan["instances"]) > 1:
            for ri in range(len(plan["instances"])):
                p = copy.deepcopy(plan)
                del p["instances"][ri]
                del p["strategies"][ri]
                yield p
        for ri, s in enumerate(plan["strategies"]):
            if s != "lowest":
                p = copy.deepcopy(plan)
                p["strategies"][ri] = "lowest"
                yield p

    # ---------------------------------------------------------------------------------------------
    @staticmethod
    def execute(run):
        plan = run.plan
        cfg = plan["cfg"]
        name = cfg["env"]
        rows = [E.dec_row(r) for r in plan["instances"]]
        run.stats["env:" + name] += 1
        tmp = None
        try:
            with run.guard(name, "construct env"):
                env = E.make_env(cfg)
            if plan.get("source") == "file" and name in JOBSHOP:
                tmp = tempfile.mkdtemp(prefix="rlsim-c07-", dir="/tmp")
                env, rows = _through_files(run, env, cfg, rows, plan, tmp)
            for p in plan["perturb"]:
                if p["kind"] == "alternate":
                    _alternate(run, env, cfg, p)
            _episode(run, env, cfg, rows, plan)
        finally:
            if tmp is not None:
                shutil.rmtree(tmp, ignore_errors=True)


def _vary(cfg, rc):
    """C07-specific widening of envs.sample_cfg: degenerate shapes (one job, one machine), restricted
    eligibility, tiny processing-time ranges (many simultaneous releases)."""
    name, g = cfg["env"], cfg["gen"]
    if name in JOBSHOP:
        x = rc.random()
        if x < 0.08:
            g["num_jobs"] = 1
        elif x < 0.16:
            g["num_machines"] = 1
        if rc.random() < 0.2:
            g["max_processing_time"] = rc.choice([2, 3])
        if name == "fjsp" and rc.random() < 0.3:
            g["max_eligible_ma_per_op"] = rc.randint(1, g["num_machines"])
    elif name == "ffsp":
        if rc.random() < 0.1:
            g["num_job"] = 1
        if rc.random() < 0.15:
            g["min_time"], g["max_time"] = 1, 2  # all durations 1
    return cfg


# ------------------------------------------------------------------------------------------------
# instance files
# ------------------------------------------------------------------------------------------------
def _canon(name, row, cfg):
    r = R.make_ref(name, row, cfg)
    return tuple(tuple(tuple((m, r.p[m][o]) for m in r.eligible(o)) for o in ops) for ops in r.jobs)


def _write_jssp(where, rows, cfg):
    """JSSP text format as documented in rl4co.envs.scheduling.jssp.parser: first line `jobs machines`,
    then one line per job with `<machine (1-based)> <duration>` pairs."""
    for i, row in enumerate(rows):
        r = R.make_ref("jssp", row, cfg)
        lines = [f"{r.J}\t{r.M}"]
        for ops in r.jobs:
            parts = []
            for o in ops:
                m = r.eligible(o)[0]
                parts += [str(m + 1), str(int(r.p[m][o]))]
            lines.append(" ".join(parts))
        with open(os.path.join(where, f"{str(i + 1).rjust(4, '0')}_{r.J}j_{r.M}m.txt"), "w") as fh:
            fh.write("\n".join(lines))


@contextlib.contextmanager
def _listdir_seam(tmp, seed):
    """os.listdir of the run's temp dir returns a seeded permutation (or, seed None, the sorted
    listing: the raw order of a real file system is not reproducible)."""
    real = os.listdir

    def listing(path="."):
        names = real(path)
        try:
            same = os.path.abspath(os.fspath(path)) == os.path.abspath(tmp)
        except TypeError:
            same = False
        if not same:
            return names
        names = sorted(names)
        if seed is not None:
            random.Random(seed).shuffle(names)
        return names

    os.listdir = listing
    try:
        yield
    finally:
        os.listdir = real


def _through_files(run, env, cfg, rows, plan, tmp):
    name = cfg["env"]
    if name == "fjsp":
        from rl4co.envs.scheduling.fjsp import parser as fparser
        from rl4co.envs.scheduling.fjsp.env import FJSPEnv as EnvCls
        from rl4co.envs.scheduling.fjsp.generator import FJSPFileGenerator as GenCls

        with run.guard(name, "reset for fjsp.parser.write", phase="file"):
            td0 = E.reset(env, cfg, rows)
        with run.guard(name, "fjsp.parser.write", phase="file"):
            fparser.write(tmp, td0)
    else:
        from rl4co.envs.scheduling.jssp.env import JSSPEnv as EnvCls
        from rl4co.envs.scheduling.jssp.generator import JSSPFileGenerator as GenCls

        _write_jssp(tmp, rows, cfg)
    seed = plan.get("listdir_seed")
    with _listdir_seam(tmp, seed):
        with run.guard(name, "file generator construction", phase="file"):
            gen = GenCls(tmp)
        with run.guard(name, "file generator call", phase="file"):
            tdf = gen(batch_size=[len(rows)])
    if seed is not None:
        run.fault("listdir-shuffle", [os.path.basename(f) for f in gen.files])
        run.probe("listdir_shuffled")
        run.nontrivial = True
    new_rows = E.td_rows(tdf)
    run.probe("file_instances", len(new_rows))
    if sorted(_canon(name, r, cfg) for r in rows) == sorted(_canon(name, r, cfg) for r in new_rows):
        run.probe("file_roundtrip_equal")
    else:
        run.probe("file_roundtrip_differs")  # C19's business; the episode below runs on what was read
    with run.guard(name, "construct env on file generator", phase="file"):
        env2 = EnvCls(generator=gen, mask_no_ops=bool(cfg.get("kw", {}).get("mask_no_ops", True)))
    run.log.add("files", [os.path.basename(f) for f in gen.files])
    return env2, new_rows


# ------------------------------------------------------------------------------------------------
# alternate episode
# ------------------------------------------------------------------------------------------------
def _alternate(run, env, cfg, p):
    """A complete other episode (other batch size, FJSP/JSSP: other jobs/machines/ops) on the same env
    object before the episode under test: exposes state parked on the environment object."""
    name = cfg["env"]
    acfg = p["cfg"]
    arows = [E.dec_row(r) for r in p["instances"]]
    with run.guard(name, "alternate episode reset", phase="alternate"):
        td = E.reset(env, acfg, arows)
    cap = D.step_bound_generic(acfg, td) * 4
    t = 0
    while not bool(E.done_vec(td).all()) and t < cap:
        acts = []
        for r in range(len(arows)):
            opts = D.admitted(td["action_mask"][r])
            if not opts:
                run.probe("alternate_dead_end")
                return
            acts.append(D.choose(run, "uniform", td, r, opts))
        with run.guard(name, "alternate episode step", phase="alternate"):
            td = E.step(env, td, torch.tensor(acts))
        t += 1
    run.fault("alternate", len(arows), acfg.get("gen"))
    run.probe("alternate_done")
    run.nontrivial = True


# ------------------------------------------------------------------------------------------------
# tick oracle
# ------------------------------------------------------------------------------------------------
def _bits(row_mask):
    return [bool(b) for b in row_mask.tolist()]


def _fail(run, name, monitor, msg, constraint, **detail):
    run.violate(name, monitor, msg, constraint=constraint, **detail)
    raise StopRun()


def _obs(run, name, monitor, msg, constraint, **detail):
    """A mismatch with the reference dispatcher that C07's statement does not cover (clock / slot /
    a feasible action being hidden / finishing late / a valid but different schedule): counted as an
    observation, and the tick oracle is switched off for the rest of the run (the reference has lost
    synchrony); the independent validator still judges the final schedule."""
    run.probe("obs:" + monitor)
    run.log.add("observation", monitor, constraint)
    run._tick_off = True


def _check_tick(run, name, cfg, td, refs, t, phase):
    if getattr(run, "_tick_off", False):
        return
    done_env = E.done_vec(td).tolist()
    B = len(refs)
    common = {"tick": t, "B": B, "phase": phase, "cfg": cfg}
    for i, ref in enumerate(refs):
        ref_done = ref.done() == "must"
        if bool(done_env[i]) != ref_done:
            (_fail if done_env[i] else _obs)(
                run, name, "done", f"row {i} tick {t}: env done={bool(done_env[i])} but the reference "
                f"dispatcher says {'finished' if ref_done else 'operations remain'}",
                "done_early" if done_env[i] else "done_late", row=i, **common)
            return
        bits = _bits(td["action_mask"][i])
        adm = ref.admissible()
        if name in JOBSHOP:
            clk = float(td["time"][i])
            if clk != ref.time:
                _obs(run, name, "clock", f"row {i} tick {t}: env clock {clk} != reference clock {ref.time} "
                      f"(next machine release rule)", "time_advance", row=i, env_time=clk,
                      ref_time=ref.time, busy_until=ref.busy_until, **common)
                return
            if len(bits) != ref.n_actions():
                _fail(run, name, "mask", f"row {i}: mask width {len(bits)} != {ref.n_actions()}",
                      "mask_width", row=i, **common)
            for a, b in enumerate(bits):
                if b and a not in adm:
                    why = ref.why.get(a, "")
                    if why.startswith("pruned:"):
                        run.probe("pruned_action_offered")  # feasible by the problem: not a C07 matter
                        continue
                    _fail(run, name, "mask", f"row {i} tick {t}: action {a} {_describe(ref, a)} is offered "
                          f"but infeasible ({why})", "offered_infeasible:" + why, row=i, action=a,
                          mask="".join("1" if x else "0" for x in bits), clock=clk, **common)
                if (not b) and a in adm:
                    _obs(run, name, "mask_hides", f"row {i} tick {t}: action {a} {_describe(ref, a)} is "
                         f"feasible at clock {clk} but hidden", "hidden_feasible", row=i, action=a,
                         mask="".join("1" if x else "0" for x in bits), clock=clk, **common)
        elif name == "ffsp":
            if ref_done:
                continue
            tm, mi = int(td["time_idx"][i]), int(td["machine_idx"][i])
            if tm != ref.time or mi != ref.machine():
                _obs(run, name, "slot", f"row {i} tick {t}: env at (time {tm}, machine {mi}) but the next slot "
                      f"with a free machine and a ready job is (time {ref.time}, machine {ref.machine()})",
                      "slot_iteration", row=i, env_slot=[tm, mi], ref_slot=[ref.time, ref.machine()],
                      **common)
                return
            if len(bits) != ref.J + 1:
                _fail(run, name, "mask", f"row {i}: mask width {len(bits)} != {ref.J + 1}", "mask_width",
                      row=i, **common)
            for j in range(ref.J):
                if bits[j] and j not in adm:
                    _fail(run, name, "mask", f"row {i} tick {t}: job {j} offered on machine {mi} at time {tm} "
                          f"but {ref.why.get(j)}", "offered_infeasible:" + ref.why.get(j, ""), row=i,
                          action=j, **common)
                if (not bits[j]) and j in adm:
                    _obs(run, name, "mask_hides", f"row {i} tick {t}: ready job {j} is not offered on machine "
                         f"{mi} at time {tm}", "ready_job_not_offered", row=i, action=j, **common)
        else:  # smtwtp
            if ref_done:
                continue
            if len(bits) != ref.n + 1:
                _fail(run, name, "mask", f"row {i}: mask width {len(bits)} != {ref.n + 1}", "mask_width",
                      row=i, **common)
            if bits[0]:
                _fail(run, name, "permutation", f"row {i} tick {t}: the dummy start node 0 is offered",
                      "dummy_offered", row=i, **common)
            for j in range(1, ref.n + 1):
                if bits[j] and j not in adm:
                    _fail(run, name, "permutation", f"row {i} tick {t}: job {j} offered again", "job_twice",
                          row=i, action=j, **common)
                if (not bits[j]) and j in adm:
                    _obs(run, name, "mask_hides", f"row {i} tick {t}: unprocessed job {j} hidden",
                         "hidden_feasible", row=i, action=j, **common)


def _describe(ref, a):
    if a == 0:
        return "(wait)"
    j, m = ref.decode(a)
    return f"(job {j} on machine {m})"


def _abstract(name, ref):
    if name in JOBSHOP:
        return (ref.time, tuple(ref.nxt), tuple(x is not None for x in ref.running), tuple(ref.job_done))
    if name == "ffsp":
        return (ref.time, ref.k, tuple(ref.loc))
    return (tuple(sorted(ref.order)),)


# ------------------------------------------------------------------------------------------------
# the episode under test
# ------------------------------------------------------------------------------------------------
SCHED_KEYS = {"fjsp": ("start_times", "finish_times", "ma_assignment", "time"),
              "jssp": ("start_times", "finish_times", "ma_assignment", "time"),
              "ffsp": ("schedule", "time_idx"), "smtwtp": ("current_time",)}


def _fingerprint(td):
    out = {}
    for k in sorted(td.keys()):
        v = td[k]
        if isinstance(v, torch.Tensor):
            out[k] = H(str(v.dtype), list(v.shape), v.tolist())
    return out


def _episode(run, env, cfg, rows, plan):
    name = cfg["env"]
    B = len(rows)
    strategies = plan["strategies"]
    refs = [R.make_ref(name, row, cfg) for row in rows]
    if name in JOBSHOP:
        bad = [w for r in refs for w in r.wellformed()]
        if bad and plan.get("source") == "file":
            # the instance was WRITTEN well-formed and came back from rl4co's reader with a padding mask that
            # does not match its job ranges: judge the episode against what the file holds (padding = every
            # operation slot after the last job's last operation), the environment runs on what was read
            fixed = []
            for row in rows:
                r2 = {k: v.clone() for k, v in row.items()}
                last = int(r2["end_op_per_job"].max())
                r2["pad_mask"] = torch.arange(r2["pad_mask"].shape[-1]) > last
                fixed.append(r2)
            refs = [R.make_ref(name, r2, cfg) for r2 in fixed]
            bad = [w for r in refs for w in r.wellformed()]
            run.probe("file_instance_pad_mask_repaired_for_reference")
        if bad:
            run.probe("malformed_instance")  # C18's business (documented-format rule)
            run.log.add("malformed", bad[:2])
            return
        n_ops = [len(r.real_ops()) for r in refs]
        if any(any(r.pad) for r in refs):
            run.probe("padded_ops")
        if len(set(n_ops)) > 1:
            run.probe("unequal_ops_in_batch")
        run.probe("mask_no_ops_on" if refs[0].mask_no_ops else "mask_no_ops_off")
    with run.guard(name, "reset", phase="episode", B=B):
        td = E.reset(env, cfg, rows)
    k = int(plan.get("multistart") or 0) if name == "ffsp" else 0
    if k > 1:
        import itertools

        from rl4co.utils.ops import batchify

        with run.guard(name, "batchify + pre_step (multi-start)", phase="episode", B=B, starts=k):
            td = batchify(td, k)
            td = env.pre_step(td)
        perms = list(itertools.permutations(range(refs[0].M)))
        refs = [R.make_ref(name, rows[r % B], dict(cfg, machine_perm=list(perms[r // B])))
                for r in range(B * k)]
        run.fault("replicate", k)
        run.probe("ffsp_multistart")
        run.nontrivial = True
        B = B * k
    pad_init = None
    if name in JOBSHOP:
        pad_init = (td["start_times"].tolist(), td["finish_times"].tolist())
    cap = 2 * max(r.step_bound() for r in refs) + 8
    tick_oracle = bool(plan.get("tick_oracle", True))
    run.probe("tick_oracle_on" if tick_oracle else "final_only_run")
    perturbs = [dict(p) for p in plan["perturb"] if p["kind"] != "alternate"]
    hist = []
    snap = None
    finish_tick = [None] * B
    t = 0
    while True:
        done = E.done_vec(td).tolist()
        for i in range(B):
            if done[i] and finish_tick[i] is None:
                finish_tick[i] = t
        # ---- perturbations scheduled before tick t ------------------------------------------------
        if not all(done):
            for p in perturbs:
                if p["at"] > t or p.get("fired"):
                    continue
                if p["kind"] == "snapshot":
                    snap = {"t": t, "td": td.clone()}
                    snap["fp"] = _fingerprint(snap["td"])
                    p["fired"] = True
                    run.fault("snapshot", t)
                    run.nontrivial = True
                elif p["kind"] == "env-restart":
                    how = "pickle" if p["seed"] % 2 == 0 else "deepcopy"
                    try:
                        env = pickle.loads(pickle.dumps(env)) if how == "pickle" else copy.deepcopy(env)
                    except Exception as e:  # noqa: BLE001  persistence itself is C19's claim
                        run.probe("env_restart_failed")
                        run.log.add("env_restart_failed", how, type(e).__name__)
                        p["fired"] = True
                        continue
                    p["fired"] = True
                    run.fault("env-restart", how, t)
                    run.probe("env_restarted")
                    run.nontrivial = True
        # ---- tick oracle --------------------------------------------------------------------------
        if tick_oracle:
            _check_tick(run, name, cfg, td, refs, t, "episode")
        if all(done):
            break
        if t > cap:
            run.probe("step_cap_exceeded")  # progress is C02's claim
            run.log.add("step_cap", t)
            return
        # ---- actions ------------------------------------------------------------------------------
        acts = []
        for i in range(B):
            opts = D.admitted(td["action_mask"][i])
            if not opts:
                run.probe("dead_end")  # C02's claim
                run.log.add("dead_end", t, i)
                return
            if done[i]:
                a = D.choose(run, "uniform", td, i, opts)
                run.probe("row_padded")
                run.fault("stall")
                run.nontrivial = True
            else:
                a = D.choose(run, strategies[i], td, i, opts)
                if (name in JOBSHOP and a == 0) or (name == "ffsp" and a == refs[i].J):
                    run.probe("wait_taken")
            acts.append(a)
        run.log.add("tick", t, acts, [D.mask_bits(td["action_mask"][i]) for i in range(B)],
                    [r.time for r in refs] if (tick_oracle and not getattr(run, "_tick_off", False)) else None)
        for i, r in enumerate(refs if (tick_oracle and not getattr(run, "_tick_off", False)) else []):
            before = getattr(r, "advances", None)
            skipped = getattr(r, "slots_skipped", None)
            try:
                r.apply(acts[i])
            except R.RefError as e:
                raise HarnessError(f"reference cannot follow an action it admitted: {e}") from e
            if before is not None and r.advances - before >= 2:
                run.probe("clock_advanced_twice_in_one_step")
            if skipped is not None and r.slots_skipped > skipped:
                run.probe("ffsp_slot_skipped")
            run.state(name, _abstract(name, r))
        hist.append(acts)
        with run.guard(name, "step", phase="episode", B=B, tick=t):
            td = E.step(env, td, torch.tensor(acts))
        run.tick()
        t += 1
    if len({x for x in finish_tick}) > 1:
        run.probe("unequal_finish")
        run.nontrivial = True
    rewards = _final_checks(run, env, cfg, td, refs, hist, pad_init, "episode",
                           ledger=tick_oracle and not getattr(run, "_tick_off", False))
    run.episode_summary = {"T": t, "finish_tick": finish_tick, "rewards": rewards,
                           "actions": [[h[i] for h in hist] for i in range(B)][:2]}
    if name in JOBSHOP or name == "ffsp":
        for x in rewards:  # validated above: -reward is the latest completion time of the row
            run.stats["time_units"] += int(-x)
    # ---- snapshot: restore and re-drive the same suffix --------------------------------------------
    if snap is not None:
        if _fingerprint(snap["td"]) != snap["fp"]:
            _fail(run, name, "snapshot", "a td.clone() taken mid-episode changed while the episode went on",
                  "snapshot_mutated", tick=snap["t"], cfg=cfg)
        td2 = snap["td"].clone()
        for k, acts in enumerate(hist[snap["t"]:]):
            with run.guard(name, "step after snapshot restore", phase="restore", tick=snap["t"] + k):
                td2 = E.step(env, td2, torch.tensor(acts))
        run.probe("snapshot_restored")
        for key in SCHED_KEYS[name]:
            if not torch.equal(td2[key], td[key]):
                rows_diff = [i for i in range(B) if not torch.equal(td2[key][i], td[key][i])]
                _fail(run, name, "snapshot", f"final {key} after restoring the tick-{snap['t']} snapshot and "
                      f"re-driving the same actions differs from the first pass (rows {rows_diff})",
                      "snapshot_redrive", key=key, rows=rows_diff, tick=snap["t"], cfg=cfg)
        rewards2 = _final_checks(run, env, cfg, td2, refs, hist, pad_init, "restore",
                                ledger=tick_oracle and not getattr(run, "_tick_off", False))
        if rewards2 != rewards:
            _fail(run, name, "snapshot", f"rewards after restore {rewards2} != first pass {rewards}",
                  "snapshot_reward", tick=snap["t"], cfg=cfg)


def _final_checks(run, env, cfg, td, refs, hist, pad_init, phase, ledger=True):
    name = cfg["env"]
    B = len(refs)
    T = len(hist)
    actions = torch.tensor(hist, dtype=torch.long).reshape(T, B).t().contiguous()
    with run.guard(name, f"get_reward ({phase})", phase=phase, B=B):
        rew = env.get_reward(td, actions)
    rew = torch.as_tensor(rew).flatten()
    if rew.numel() != B:
        _fail(run, name, "reward_shape", f"get_reward returned {rew.numel()} values for batch {B}", "shape",
              B=B, cfg=cfg, phase=phase)
    rewards = [float(x) for x in rew.tolist()]
    common = {"B": B, "phase": phase, "cfg": cfg}
    for i, ref in enumerate(refs):
        if name in JOBSHOP:
            S, F, A = td["start_times"][i].tolist(), td["finish_times"][i].tolist(), td["ma_assignment"][i].tolist()
            pi = (pad_init[0][i], pad_init[1][i]) if pad_init is not None else None
            probs = ref.validate(S, F, A, rewards[i], pad_init=pi)
            if probs:
                c, d = probs[0]
                mon = "makespan" if c == "makespan" else "validator"
                _fail(run, name, mon, f"row {i}: final schedule breaks `{c}`: {d}", c, row=i,
                      problems=[[x, y] for x, y in probs[:6]], n_padded=sum(ref.pad),
                      start_times=S, finish_times=F, **common)
            led = ref.compare_schedule(S, F, A) if ledger else []
            if led:
                _obs(run, name, "ledger", f"row {i}: final schedule differs from the dispatcher's ledger of the "
                      f"same actions: {led[0][1]}", "ledger", row=i, problems=[[x, y] for x, y in led[:6]],
                      **common)
        elif name == "ffsp":
            X = td["schedule"][i].tolist()
            probs = ref.validate(X, rewards[i])
            if probs:
                c, d = probs[0]
                mon = "makespan" if c == "makespan" else "validator"
                _fail(run, name, mon, f"row {i}: final schedule breaks `{c}`: {d}", c, row=i,
                      problems=[[x, y] for x, y in probs[:6]], schedule=X, **common)
            led = ref.compare_schedule(X) if ledger else []
            if led:
                _obs(run, name, "ledger", f"row {i}: final schedule differs from the reference ledger: "
                      f"{led[0][1]}", "ledger", row=i, problems=[[x, y] for x, y in led[:6]], **common)
        else:
            acts = [h[i] for h in hist]
            probs = ref.violations(acts)
            if probs:
                c, d = probs[0]
                _fail(run, name, "permutation", f"row {i}: episode breaks `{c}`: {d}", c, row=i, **common)
            want = ref.objective(acts)
            if not abs(rewards[i] - want) <= _tol(want, len(acts)):
                _fail(run, name, "tardiness", f"row {i}: reward {rewards[i]!r} != -sum w*max(0,C-d) = {want!r}",
                      "weighted_tardiness", row=i, got=rewards[i], ref=want, **common)
    if ledger and name != "smtwtp":
        # self-check of the reference API other checks import: objective() re-simulates from the action
        # list alone and must agree with the schedule just validated
        for i, ref in enumerate(refs):
            obj = ref.objective([h[i] for h in hist])
            if obj != rewards[i]:
                raise HarnessError(f"reference objective {obj} != validated reward {rewards[i]} (row {i})")
    run.log.add("rewards", phase, [x.hex() if x == x else "nan" for x in rewards])
    return rewards


# ------------------------------------------------------------------------------------------------
# canary mutants (sensitivity self-test; in-memory only, never applied to /repo)
# ------------------------------------------------------------------------------------------------
@contextlib.contextmanager
def _swap(cls, attr, new):
    old = cls.__dict__[attr]
    setattr(cls, attr, new)
    try:
        yield
    finally:
        setattr(cls, attr, old)


def _canary_fjsp_zero_duration():
    """FJSP _make_step books finish_times = time (the processing time is forgotten in the schedule)."""
    from rl4co.envs.scheduling.fjsp.env import FJSPEnv

    orig = FJSPEnv._make_step

    def mutant(self, td):
        bidx = torch.arange(td.size(0))
        _, op, _ = self._translate_action(td)
        td = orig(self, td)
        td["finish_times"][bidx, op] = td["time"]
        return td

    return _swap(FJSPEnv, "_make_step", mutant)


def _canary_fjsp_transit_max():
    """_transit_to_next_time jumps to the LAST machine release instead of the next one."""
    from rl4co.envs.scheduling.fjsp.env import FJSPEnv

    def mutant(self, step_complete, td):
        # copy of the original body with `.max` for `.min`
        busy = td["busy_until"]
        end_op_per_job = td["end_op_per_job"]
        available_time = torch.where(busy > td["time"][:, None], busy, -torch.inf).max(1).values
        assert not torch.any(available_time[step_complete].isinf())
        td["time"] = torch.where(step_complete, available_time, td["time"])
        curr_ops_end = td["finish_times"].gather(1, td["next_op"])
        op_finished = td["job_in_process"] & (curr_ops_end <= td["time"][:, None])
        job_finished = op_finished & (td["next_op"] == end_op_per_job)
        td["next_op"] = torch.where(op_finished & ~job_finished, td["next_op"] + 1, td["next_op"])
        td["job_in_process"][op_finished] = False
        td["job_done"] = td["job_done"] + job_finished
        td["done"] = td["job_done"].all(1, keepdim=True)
        return td, td["done"].squeeze(1)

    return _swap(FJSPEnv, "_transit_to_next_time", mutant)


def _canary_fjsp_early_release():
    """A job is released (and moves to its next operation) at any clock move, finished or not."""
    from rl4co.envs.scheduling.fjsp.env import FJSPEnv

    orig = FJSPEnv._transit_to_next_time

    def mutant(self, step_complete, td):
        ft = td["finish_times"]
        cur = ft.gather(1, td["next_op"])
        running = td["job_in_process"] & step_complete[:, None]
        td["finish_times"] = ft.scatter(1, td["next_op"], torch.where(running, torch.zeros_like(cur), cur))
        td, dones = orig(self, step_complete, td)
        td["finish_times"] = ft
        return td, dones

    return _swap(FJSPEnv, "_transit_to_next_time", mutant)


def _canary_fjsp_reward_from_start():
    """Makespan taken from start_times."""
    from rl4co.envs.scheduling.fjsp.env import FJSPEnv

    def mutant(self, td, actions=None):
        return -td["start_times"].masked_fill(td["pad_mask"], -torch.inf).max(1).values

    return _swap(FJSPEnv, "_get_reward", mutant)


def _canary_fjsp_reward_ignores_pad():
    """Makespan over all operation slots, padded ones (INIT_FINISH) included."""
    from rl4co.envs.scheduling.fjsp.env import FJSPEnv

    def mutant(self, td, actions=None):
        return -td["finish_times"].max(1).values

    return _swap(FJSPEnv, "_get_reward", mutant)


def _canary_fjsp_busy_until_not_set():
    """The selected machine is not marked busy (for machine index > 0)."""
    from rl4co.envs.scheduling.fjsp.env import FJSPEnv

    orig = FJSPEnv._make_step

    def mutant(self, td):
        bidx = torch.arange(td.size(0))
        _, _, ma = self._translate_action(td)
        old = td["busy_until"][bidx, ma].clone()
        td = orig(self, td)
        keep = ma > 0
        td["busy_until"][bidx[keep], ma[keep]] = old[keep]
        return td

    return _swap(FJSPEnv, "_make_step", mutant)


def _canary_jssp_wrong_machine():
    """JSSP books the operation on the neighbouring machine."""
    from rl4co.envs.scheduling.jssp.env import JSSPEnv

    orig = JSSPEnv._translate_action

    def mutant(self, td):
        job, op, ma = orig(self, td)
        return job, op, (ma + 1) % self.num_mas

    return _swap(JSSPEnv, "_translate_action", mutant)


def _ffsp_step_mutant(skip_job_wait=False, skip_machine_wait=False, reward_from_start=False):
    from rl4co.envs.scheduling.ffsp.env import FFSPEnv

    def mutant(self, td):
        self.step_cnt += 1
        batch_idx = torch.arange(*td.batch_size, dtype=torch.long, device=td.device)
        job_idx = td["action"]
        time_idx = td["time_idx"]
        machine_idx = td["machine_idx"]
        td["job_location"][batch_idx, job_idx] += 1
        td["schedule"][batch_idx, machine_idx, job_idx] = time_idx
        job_length = td["job_duration"][batch_idx, job_idx, machine_idx]
        if not skip_machine_wait:
            td["machine_wait_step"][batch_idx, machine_idx] = job_length
        if not skip_job_wait:
            td["job_wait_step"][batch_idx, job_idx] = job_length
        td["done"] = (td["job_location"][:, : self.num_job] == self.num_stage).all(dim=-1)
        if not td["done"].all():
            td = self._move_to_next_machine(td)
            td = self._update_step_state(td)
        if td["done"].all():
            end_schedule = td["schedule"] + (0 if reward_from_start else td["job_duration"].permute(0, 2, 1))
            end_time_max, _ = end_schedule[:, :, : self.num_job].max(dim=-1)
            end_time_max, _ = end_time_max.max(dim=-1)
            td.set("reward", -end_time_max.to(torch.float32))
        return td

    return _swap(FFSPEnv, "_step", mutant)


def _canary_ffsp_job_wait_not_set():
    """FFSP forgets job_wait_step: a job may start its next stage while the previous one is running."""
    return _ffsp_step_mutant(skip_job_wait=True)


def _canary_ffsp_machine_wait_not_set():
    """FFSP forgets machine_wait_step: a busy machine takes another job."""
    return _ffsp_step_mutant(skip_machine_wait=True)


def _canary_ffsp_reward_from_start():
    """FFSP makespan from start times (durations not added)."""
    return _ffsp_step_mutant(reward_from_start=True)


def _canary_ffsp_tables_bs_off_by_one():
    """IndexTables.bs one too large: multi-start replicas read the wrong machine permutation."""
    from rl4co.envs.scheduling.ffsp.env import IndexTables

    def mutant(self, bs):
        self.bs = bs + 1

    return _swap(IndexTables, "set_bs", mutant)


def _canary_smtwtp_dummy_offered():
    """SMTWTP reset leaves the dummy start node selectable."""
    from rl4co.envs.scheduling.smtwtp.env import SMTWTPEnv

    orig = SMTWTPEnv._reset

    def mutant(self, td=None, batch_size=None):
        out = orig(self, td, batch_size)
        out["action_mask"][:, 0] = True
        return out

    return _swap(SMTWTPEnv, "_reset", mutant)


def _canary_smtwtp_tardiness_unclamped():
    """SMTWTP tardiness not clamped at zero (early jobs earn a bonus)."""
    from rl4co.envs.scheduling.smtwtp.env import SMTWTPEnv

    def mutant(self, td, actions):
        bidx = torch.arange(actions.shape[0]).unsqueeze(1)
        c = torch.cumsum(td["job_process_time"][bidx, actions], dim=1)
        return -(td["job_weight"][bidx, actions] * (c - td["job_due_time"][bidx, actions])).sum(-1)

    return _swap(SMTWTPEnv, "_get_reward", mutant)


# Two further mutants (fjsp_transit_max: clock jumps to the LAST release; ffsp_tables_bs_off_by_one:
# other machine permutation for some rows) still yield valid schedules with the right makespan: under
# C07's statement they are equivalent mutants (they are visible only to the observation monitors
# clock / slot, and to C04), so they are not registered as canaries.
C07.CANARIES = {
    "fjsp_zero_duration": _canary_fjsp_zero_duration,
    "fjsp_early_release": _canary_fjsp_early_release,
    "fjsp_reward_from_start": _canary_fjsp_reward_from_start,
    "fjsp_reward_ignores_pad": _canary_fjsp_reward_ignores_pad,
    "fjsp_busy_until_not_set": _canary_fjsp_busy_until_not_set,
    "jssp_wrong_machine": _canary_jssp_wrong_machine,
    "ffsp_job_wait_not_set": _canary_ffsp_job_wait_not_set,
    "ffsp_machine_wait_not_set": _canary_ffsp_machine_wait_not_set,
    "ffsp_reward_from_start": _canary_ffsp_reward_from_start,
    "smtwtp_dummy_offered": _canary_smtwtp_dummy_offered,
    "smtwtp_tardiness_unclamped": _canary_smtwtp_tardiness_unclamped,
}
