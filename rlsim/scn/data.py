"""C17 — datasets, collation and baseline wrapping preserve instance identity and order.

Two kinds of runs, both operation sequences against a reference list of instance fingerprints
(rlsim/ref/data.py):

* ``generic``: scheduled instances with mixed dtypes (float32/64/16, int64/32, uint8, bool) and field shapes are
  wrapped into one of the bundled dataset classes; a chooser-scheduled sequence of operations follows:
  read through a ``DataLoader`` with the data set's ``collate_fn`` (unshuffled, shuffled with a seeded
  generator, shuffled from the global RNG, explicit sampler order) or through the Lightning module's
  ``_dataloader`` / ``_dataloader_single`` with a scheduled batch size for several epochs; ``add_key``;
  re-read of the un-wrapped data set.
* ``baseline``: a real ``REINFORCE`` module with a tiny deterministic attention policy (wrapped in a
  ``PolicyTap``) runs ``setup`` -> per epoch ``train_dataloader`` -> (stand-in for training: seeded
  parameter noise) -> ``on_train_epoch_end`` (``epoch_callback`` that may replace the baseline policy,
  regeneration, re-wrapping).  The environment's generator is replaced by one that serves scheduled
  instances from the plan.  The ``extra`` travelling with an instance must equal the baseline
  policy's solo greedy reward on that instance.
"""
from __future__ import annotations

import copy
import math
import types

import torch

from .. import envs as E
from .. import persist_util as PU
from .. import policies as P
from ..kernel import HarnessError, StopRun, Streams, patched
from ..ref import data as R

CLASSES = ["TensorDictDataset", "FastTdDataset", "TensorDictDatasetFastGeneration"]
LOAD_MODES = ["seq", "shuffle_gen", "shuffle_global", "sampler", "sampler", "lit_single", "lit", "lit_dict"]
BASE_ENVS = ["tsp", "cvrp", "sdvrp", "op", "pctsp"]
BASELINES = ["rollout_only", "rollout", "rollout", "warmup2"]
_DT = {"float32": torch.float32, "int64": torch.int64, "bool": torch.bool, "float64": torch.float64,
       "float16": torch.float16, "int32": torch.int32, "uint8": torch.uint8}


def _cls(name):
    import rl4co.data.dataset as D

    return getattr(D, name)


def _tol(ref: float) -> float:
    return 1e-5 * max(1.0, abs(ref))


# ------------------------------------------------------------------------------------------------
# seams
# ------------------------------------------------------------------------------------------------
class PolicyTap(torch.nn.Module):
    """Thin wrapper recording every forward call (row identities in, rewards out).  A deep copy (the
    rollout baseline copies the policy) gets an empty record list of its own."""

    def __init__(self, inner, ident):
        super().__init__()
        self.inner = inner
        self._ident = ident
        self.records = []

    @property
    def encoder(self):  # create_critic_from_actor looks for it
        return self.inner.encoder

    def forward(self, td, env=None, **kw):
        ids = self._ident(td)
        out = self.inner(td, env, **kw)
        r = out["reward"].detach()
        if r.dim() > 1:  # MDAM: [batch, paths]; its baseline value for an instance is the best path
            r = r.max(1).values
        self.records.append({"ids": ids, "reward": [float(x) for x in r.flatten().tolist()],
                             "decode_type": kw.get("decode_type"), "B": len(ids)})
        return out

    def __deepcopy__(self, memo):
        return PolicyTap(copy.deepcopy(self.inner, memo), self._ident)


class PoolGenerator:
    """Stands in for the environment's generator: serves scheduled instances from the plan (round
    robin over the pool) and remembers every draw."""

    def __init__(self, proto, rows, cfg):
        self.rows = rows
        self.cfg = cfg
        self.ptr = 0
        self.draws = []
        for k, v in vars(proto).items():  # environments read sizes / constants from their generator
            setattr(self, k, v)

    def __call__(self, batch_size):
        if isinstance(batch_size, int):
            batch_size = [batch_size]
        k = int(math.prod(batch_size)) if len(batch_size) else 1
        rows = [self.rows[(self.ptr + j) % len(self.rows)] for j in range(k)]
        self.ptr += k
        self.draws.append(rows)
        return E.batch_of(self.cfg, [{n: t.clone() for n, t in r.items()} for r in rows])


def _ident_fn(env_name):
    """identity of a row inside the policy: fingerprint of the customer coordinates (the reset state
    carries the depot in front for the depot environments)."""
    if env_name == "tsp":
        return lambda td: [R.fp_tensor(x) for x in td["locs"]]
    return lambda td: [R.fp_tensor(x[1:]) for x in td["locs"]]


def _batch_dict(batch):
    return {k: batch[k] for k in batch.keys()}


# ------------------------------------------------------------------------------------------------
class C17:
    prop = "C17"
    level = "exploration"
    chunk = 8
    rule = ("run = one operation sequence against a reference list of instance fingerprints.  generic "
            "runs (about 60%): 1-13 scheduled instances with 2-5 fields of mixed dtype (float16/32/64, int32/64, uint8, "
            "bool) and shape, one of the three bundled dataset classes (ExtraKeyDataset arises from "
            "add_key), 3-7 chooser-scheduled operations out of {read through a loader in one of 7 modes "
            "with a scheduled batch size (1, dividing, not dividing, >= N) for 1-3 epochs, add_key with "
            "a scheduled name/dtype/shape, re-read of the un-wrapped data set}.  baseline runs: {REINFORCE, MDAM "
            "(tsp/cvrp, 3 decoder paths, baseline value = best path)} x {rollout_only, warm-up(1), warm-up(2)} x "
            "{baseline by name, WarmupBaseline object, 'warmup' + inner baseline object} x 5 environments x 3 dataset classes x scheduled "
            "train/eval batch sizes x shuffle on/off, 2-3 epochs of train_dataloader / noise on the "
            "parameters / on_train_epoch_end.  Non-trivial = a shuffled or sampler-ordered read, a final "
            "partial batch, or an extra key travelled; distinct = distinct event-log digest.")
    components_real = ["rl4co.data.dataset (TensorDictDataset, FastTdDataset, TensorDictDatasetFastGeneration, "
                       "ExtraKeyDataset, collate_fn, add_key)", "torch.utils.data.DataLoader (num_workers=0)",
                       "RL4COLitModule.setup/_dataloader/_dataloader_single/train_dataloader/on_train_epoch_end",
                       "REINFORCE.wrap_dataset/post_setup_hook/on_train_epoch_end",
                       "RolloutBaseline.setup/rollout/wrap_dataset/epoch_callback, WarmupBaseline",
                       "MDAM.__init__ (baseline rollout override) + MDAMPolicy (embed 32, 2 layers, 3 paths)",
                       "RL4COEnvBase.dataset", "AttentionModelPolicy (embed 32, 1 layer), environments tsp/cvrp/"
                       "sdvrp/op/pctsp"]
    components_stub = ["environment generator (serves the plan's instances)", "training steps (seeded noise on the "
                       "policy parameters instead of optimiser steps)", "Trainer (an object with max_epochs / "
                       "current_epoch)"]
    assumptions = ["num_workers=0 only (worker processes are outside the simulator's control)", "CPU",
                   "the policy is deterministic and per-instance (C14); a solo/batched reward difference that the "
                   "policy tap attributes to the policy itself is counted as indeterminate, not reported",
                   "at most one extra key name is live at a time (the property speaks of 'an extra per-instance key')"]
    required_probes = ["partial_batch", "shuffled_read", "sampler_read", "extra_travelled", "bs_ge_n",
                       "baseline_replaced", "rewrapped", "multi_epoch"]
    excluded = ["shared/mean/exponential/critic baselines: wrap_dataset is the identity there (nothing travels)",
                "two different extra key names on one data set (outside the statement; ExtraKeyDataset keeps only "
                "the newest key unless items were read through the inner wrapper before)"]
    CANARIES = {}

    @staticmethod
    def prepare():
        # import the heavy modules once, before the workers fork
        import lightning  # noqa: F401
        import rl4co.data.dataset  # noqa: F401
        import rl4co.envs  # noqa: F401
        import rl4co.models  # noqa: F401
        import rl4co.models.rl  # noqa: F401

    # ---------------------------------------------------------------------------------------------
    @staticmethod
    def make_plan(run_seed: int, tier: str) -> dict:
        st = Streams(run_seed)
        rc = st.get("config")
        ri = st.get("instance")
        if rc.random() < 0.6:
            n = rc.choice([1, 2, 3, 4, 5, 6, 7, 8, 9, 10, 12, 13]) if tier == "quick" else rc.randint(1, 40)
            k = rc.randint(2, 5)
            fields = []
            for j in range(k):
                dt = rc.choice(["float32", "float32", "int64", "bool", "float64", "float64", "float16", "int32", "uint8"])
                shape = rc.choice([[], [1], [3], [4, 2], [2, 3], [5]])
                fields.append({"name": f"f{j}_{dt}", "dtype": dt, "shape": shape})
            if rc.random() < 0.8:  # a unique id so that no two instances coincide
                fields.append({"name": "uid", "dtype": "int64", "shape": []})
            rows = []
            for i in range(n):
                row = {}
                for f in fields:
                    cnt = int(math.prod(f["shape"])) if f["shape"] else 1
                    if f["name"] == "uid":
                        vals = [1000 + i]
                    elif f["dtype"] == "float32":
                        vals = [ri.choice([ri.random(), ri.uniform(-1e3, 1e3), 0.0, -0.0, 1e-30]) for _ in range(cnt)]
                    elif f["dtype"] == "int64":
                        vals = [ri.choice([ri.randint(-5, 5), ri.randint(-2**40, 2**40), 2**53 + 1]) for _ in range(cnt)]
                    elif f["dtype"] == "float64":  # values a float32 cannot hold: a silent down-cast changes them
                        vals = [ri.choice([ri.random(), 1.0 + 2.0 ** -40, 1e300, -1e-300, 0.1]) for _ in range(cnt)]
                    elif f["dtype"] == "float16":
                        vals = [ri.choice([0.5, -2.0, 1024.0, 0.0999755859375, 0.0]) for _ in range(cnt)]
                    elif f["dtype"] == "int32":
                        vals = [ri.choice([ri.randint(-5, 5), 2**31 - 1, -2**31]) for _ in range(cnt)]
                    elif f["dtype"] == "uint8":
                        vals = [ri.randint(0, 255) for _ in range(cnt)]
                    else:
                        vals = [ri.random() < 0.5 for _ in range(cnt)]
                    row[f["name"]] = torch.tensor(vals, dtype=_DT[f["dtype"]]).reshape(f["shape"])
                rows.append(row)
            if n > 2 and rc.random() < 0.15:  # identical instances are legal
                rows[-1] = {k_: v.clone() for k_, v in rows[0].items()}
            return {"mode": "generic", "cls": rc.choice(CLASSES), "fields": fields,
                    "instances": [E.enc_row(r) for r in rows], "n_ops": rc.randint(3, 7),
                    "policy_seed": rc.randrange(1 << 30)}
        name = rc.choice(E.only_filter(BASE_ENVS))
        n = rc.randint(4, 7)
        cfg = {"env": name, "n": n, "kw": {}, "gen": {"num_loc": n}}
        if name == "op":
            cfg["gen"].update(prize_type="dist", max_length=2.0)
            cfg["kw"] = {"prize_type": "dist"}
        env = E.make_env(cfg)
        pool = E.gen_rows(env, cfg, rc.randint(14, 26), st.torch_seed("instances"))
        N = rc.choice([1, 2, 3, 4, 5, 6, 7, 8, 9, 11])
        plan = {"mode": "baseline", "cfg": cfg, "pool": [E.enc_row(r) for r in pool],
                "policy_seed": rc.randrange(1 << 30), "baseline": rc.choice(BASELINES),
                "bl_alpha": rc.choice([0.05, 0.5, 1.0, 1.0]), "dataset_cls": rc.choice(CLASSES),
                "train_size": N, "val_size": rc.choice([3, 4, 5, 6]),
                "batch_size": rc.choice([1, 2, 3, 4, N, N + 2]), "eval_bs": rc.choice([1, 2, 3, 4, 5, N, 64]),
                "shuffle": rc.random() < 0.5, "epochs": rc.randint(2, 3),
                "noise": [rc.randrange(1 << 30) for _ in range(3)], "noise_scale": rc.choice([0.0, 0.3, 1.0, 1.0])}
        # the documented ways of handing the same baseline over: by name, as an object, as the inner baseline of
        # 'warmup'; and MDAM (REINFORCE subclass whose baseline value is the best of its decoder paths)
        plan["bl_form"] = rc.choice(["default", "default", "warmup_obj", "warmup_kw"])
        plan["model"] = "mdam" if name in ("tsp", "cvrp") and rc.random() < 0.4 else "reinforce"
        return plan

    @staticmethod
    def sample(run):
        p = dict(run.plan)
        if p["mode"] == "generic":
            p["instances"] = p["instances"][:2]
        else:
            p["pool"] = p["pool"][:1]
        return {"plan": p, "ops": getattr(run, "ops_done", [])[:12], "choices": run.chooser.trace[:40]}

    @staticmethod
    def shrink(plan):
        if plan["mode"] == "generic":
            if len(plan["instances"]) > 1:
                p = copy.deepcopy(plan)
                p["instances"] = p["instances"][:-1]
                yield p
            if plan["n_ops"] > 1:
                p = copy.deepcopy(plan)
                p["n_ops"] -= 1
                yield p
            if len(plan["fields"]) > 1:
                for j in range(len(plan["fields"])):
                    p = copy.deepcopy(plan)
                    nm = p["fields"][j]["name"]
                    del p["fields"][j]
                    for r in p["instances"]:
                        r.pop(nm, None)
                    yield p
        else:
            if plan["epochs"] > 1:
                p = copy.deepcopy(plan)
                p["epochs"] -= 1
                yield p
            if plan["train_size"] > 1:
                p = copy.deepcopy(plan)
                p["train_size"] -= 1
                yield p
            if plan["shuffle"]:
                p = copy.deepcopy(plan)
                p["shuffle"] = False
                yield p

    # ---------------------------------------------------------------------------------------------
    @staticmethod
    def execute(run):
        run.ops_done = []
        if run.plan["mode"] == "generic":
            _generic(run)
        else:
            _baseline(run)


# ------------------------------------------------------------------------------------------------
# generic runs
# ------------------------------------------------------------------------------------------------
def _fail(run, scope, monitor, bad, **detail):
    d = dict(bad)
    msg = d.pop("message")
    c = d.pop("constraint")
    run.violate(scope, monitor, msg, constraint=c, **d, **detail)
    raise StopRun()


def _batch_size_options(n):
    opts = {1, 2, 3, max(1, n - 1), n, n + 1, 2 * n + 1}
    for d in (2, 3, 4):
        if n % d == 0 and n // d >= 1:
            opts.add(n // d)
    return sorted(opts)


def _read(run, scope, ds, ref, model_box, step, ignore_extras=False, allow_more_keys=False, what="read"):
    """One scheduled read of `ds` through a loader; checks every epoch against the reference list."""
    from torch.utils.data import DataLoader

    n = len(ref)
    opts = _batch_size_options(n)
    bs = opts[run.chooser.pick(len(opts))]
    mode = LOAD_MODES[run.chooser.pick(len(LOAD_MODES))]
    epochs = 1 + run.chooser.pick(3)
    order = list(range(n))
    seed = run.streams.torch_seed(f"loader-{step}")
    if mode == "sampler":
        # explicit delivery order chosen by the scheduler: a permutation, sometimes with repeats
        order = []
        m = n if run.chooser.pick(4) else n + 1 + run.chooser.pick(3)
        pool = list(range(n))
        for _ in range(m):
            if not pool:
                pool = list(range(n))
            order.append(pool.pop(run.chooser.pick(len(pool))))
    with run.guard(scope, f"build loader ({mode})", mode=mode, batch_size=bs, n=n):
        if mode == "seq":
            dl = DataLoader(ds, batch_size=bs, shuffle=False, collate_fn=ds.collate_fn)
        elif mode == "shuffle_gen":
            dl = DataLoader(ds, batch_size=bs, shuffle=True, collate_fn=ds.collate_fn,
                            generator=torch.Generator().manual_seed(seed))
        elif mode == "shuffle_global":
            dl = DataLoader(ds, batch_size=bs, shuffle=True, collate_fn=ds.collate_fn)
        elif mode == "sampler":
            dl = DataLoader(ds, batch_size=bs, sampler=list(order), collate_fn=ds.collate_fn)
        else:
            model = model_box()
            shuffle = bool(run.chooser.pick(2))
            if mode == "lit_single":
                dl = model._dataloader_single(ds, bs, shuffle)
            elif mode == "lit":
                dl = model._dataloader(ds, bs, shuffle)
            else:
                # dict of data sets with one batch size each -> list of loaders in the dict's order
                bs2 = opts[run.chooser.pick(len(opts))]
                which = run.chooser.pick(2)
                dls = model._dataloader({"x": ds, "y": ds}, [bs, bs2], shuffle)
                if not isinstance(dls, list) or len(dls) != 2 or model.dataloader_names != ["x", "y"]:
                    run.violate(scope, "loader_identity", "_dataloader(dict of 2 data sets) did not return two "
                                "named loaders", constraint="count", mode=mode)
                    raise StopRun()
                dl = dls[which]
                bs = [bs, bs2][which]
                try:  # the docstring also promises lists of data sets; observed, not judged here
                    model._dataloader([ds, ds], [bs, bs2], shuffle)
                    run.probe("obs_dataloader_list_ok")
                except AttributeError:
                    run.probe("obs_dataloader_list_of_datasets_crash")
            if shuffle:
                mode += "+shuffle"
    shuffled = mode in ("shuffle_gen", "shuffle_global") or mode.endswith("+shuffle")
    for ep in range(epochs):
        torch.manual_seed(seed + ep)
        with run.guard(scope, f"iterate loader ({mode})", mode=mode, batch_size=bs, n=n, epoch=ep):
            raw = list(dl)
        batches = []
        for b in raw:
            d = _batch_dict(b)
            bsz = getattr(b, "batch_size", None)
            if bsz is not None and (len(bsz) != 1 or int(bsz[0]) != R.batch_len(d)):
                run.violate(scope, "loader_batch", f"collated TensorDict reports batch_size {tuple(bsz)} "
                            f"for {R.batch_len(d)} rows", constraint="shape", mode=mode, batch_size=bs, n=n)
                raise StopRun()
            batches.append(d)
        run.tick(len(batches))
        bad = ref.check_epoch(batches, bs, None if shuffled else order, ignore_extras=ignore_extras,
                              allow_more_keys=allow_more_keys)
        if bad is not None:
            _fail(run, scope, "loader_identity", bad, mode=mode, batch_size=bs, n=n, epoch=ep, what=what,
                  dataset=type(ds).__name__)
        # event log: which instance sat where
        look = ref.by_fp()
        seq = [look[R.fp_instance({k: r[k] for k in ref.keys})][0].index for b in batches for r in R.rows_of(b)]
        run.log.add("epoch", step, mode, bs, ep, seq)
        run.state(type(ds).__name__, mode, bs, n, tuple(seq[:6]))
        if any(k not in ref.keys for b in batches for k in b.keys()) and ignore_extras:
            run.probe("obs_unwrapped_dataset_gained_key")
    if len(order) % bs:
        run.probe("partial_batch")
        run.nontrivial = True
    if bs >= n:
        run.probe("bs_ge_n")
    if bs == 1:
        run.probe("bs_1")
    if shuffled:
        run.probe("shuffled_read")
        run.nontrivial = True
    if mode == "sampler":
        run.probe("sampler_read")
        run.nontrivial = True
    if mode.startswith("lit"):
        run.probe("lit_loader")
    if epochs > 1:
        run.probe("multi_epoch")
    if ref.extra_keys() and not ignore_extras:
        run.probe("extra_travelled")
        run.nontrivial = True
    run.ops_done.append({"op": what, "mode": mode, "bs": bs, "epochs": epochs, "n": len(order)})


def _generic(run):
    plan = run.plan
    rows = [E.dec_row(r) for r in plan["instances"]]
    n = len(rows)
    cls_name = plan["cls"]
    scope = cls_name
    ref = R.RefList(rows)
    base_ref = R.RefList(rows)
    td = E.stack_rows([{k: v.clone() for k, v in r.items()} for r in rows])
    with run.guard(scope, "construct data set", n=n):
        ds = _cls(cls_name)(td)
    with run.guard(scope, "len(data set)"):
        ln = len(ds)
    if ln != n:
        run.violate(scope, "dataset_len", f"len(data set) = {ln} for {n} instances", constraint="count", n=n)
        raise StopRun()
    base = ds
    box = {}

    def model_box():
        if "m" not in box:
            env = E.make_env({"env": "tsp", "n": 5, "kw": {}, "gen": {"num_loc": 5}})
            box["m"] = PU.tiny_reinforce(env, PU.tiny_policy("tsp", plan["policy_seed"]), "no")
        return box["m"]

    for step in range(plan["n_ops"]):
        op = ["read", "read", "read", "add_key", "reread_base"][run.chooser.pick(5)]
        if op == "read":
            _read(run, type(ds).__name__, ds, ref, model_box, step)
        elif op == "add_key":
            key = ["extra", "extra", "bl_val"][run.chooser.pick(3)]
            live = ref.extra_keys()
            if live and key not in live:
                key = live[0]  # a single extra key name at a time
            kind = run.chooser.pick(5)
            g = torch.Generator().manual_seed(run.streams.torch_seed(f"extra-{step}"))
            if kind == 0:
                val = torch.randn(n, generator=g)
            elif kind == 1:
                val = torch.randn(n, 2, generator=g)
            elif kind == 2:
                val = torch.randint(-9, 9, (n,), generator=g)
            elif kind == 4:
                val = torch.randn(n, generator=g, dtype=torch.float64) * 1e3 + 2.0 ** -40
            else:
                val = torch.arange(n, dtype=torch.float32) * 0.5 - 1.0
            with run.guard(type(ds).__name__, f"add_key('{key}')", n=n, key=key):
                ds = ds.add_key(key, val.clone())
            ref.attach(key, [val[i] for i in range(n)])
            if ds is base:  # TensorDictDatasetFastGeneration adds in place
                base_ref = ref
            run.probe("add_key")
            run.log.add("add_key", step, key, list(val.shape), str(val.dtype))
            run.ops_done.append({"op": "add_key", "key": key, "shape": list(val.shape), "dtype": str(val.dtype),
                                 "result": type(ds).__name__})
        else:
            if base is ds:
                _read(run, type(base).__name__, base, ref, model_box, step, what="reread")
            else:
                # the data set that add_key was called on: its instances must be intact; keys it has
                # gained through the wrapper are counted as an observation only
                _read(run, type(base).__name__, base, base_ref, model_box, step, ignore_extras=True,
                      allow_more_keys=True, what="reread_unwrapped")
                run.probe("reread_unwrapped")


# ------------------------------------------------------------------------------------------------
# baseline runs
# ------------------------------------------------------------------------------------------------
def _per_instance(rewards, n):
    """PU.greedy flattens the reward: one value per instance, or [n, paths] for a multi-path policy (MDAM),
    whose value for an instance is its best path."""
    if len(rewards) == n:
        return list(rewards)
    k = len(rewards) // n
    if k * n != len(rewards):
        raise HarnessError("reward layout")
    return [max(rewards[i * k:(i + 1) * k]) for i in range(n)]


def _same_params(a, b) -> bool:
    """the same module, or a copy with identical parameters and buffers (setup() may re-copy the same policy)"""
    if a is b:
        return True
    if a is None or b is None:
        return False
    sa, sb = a.state_dict(), b.state_dict()
    return list(sa.keys()) == list(sb.keys()) and all(torch.equal(sa[k], sb[k]) for k in sa)


def _rollout_baseline(model):
    from rl4co.models.rl.reinforce.baselines import RolloutBaseline, WarmupBaseline

    b = model.baseline
    if isinstance(b, WarmupBaseline):
        return b, b.baseline
    if isinstance(b, RolloutBaseline):
        return None, b
    raise HarnessError("unexpected baseline")


def _baseline(run):
    from rl4co.models.rl.reinforce.baselines import RolloutBaseline, WarmupBaseline

    plan = run.plan
    cfg = plan["cfg"]
    name = cfg["env"]
    mdam = plan.get("model") == "mdam"
    form = plan.get("bl_form", "default") if plan["baseline"] != "rollout_only" else "default"
    scope = f"{'MDAM' if mdam else 'REINFORCE'}[{plan['baseline']}" + ("" if form == "default" else f",{form}") + "]"
    pool = [E.dec_row(r) for r in plan["pool"]]
    N, M = plan["train_size"], plan["val_size"]
    bs, ebs = plan["batch_size"], plan["eval_bs"]
    with run.guard(name, "construct env"):
        env = E.make_env(cfg)
    env.dataset_cls = _cls(plan["dataset_cls"])
    gen = PoolGenerator(env.generator, pool, cfg)
    env.generator = gen
    if mdam:
        with run.guard(scope, "construct MDAMPolicy"):
            inner = P.make_policy("mdam", name, plan["policy_seed"])
    else:
        inner = PU.tiny_policy(name, plan["policy_seed"])
    policy = PolicyTap(inner, _ident_fn(name))
    n_warm = 2 if plan["baseline"] == "warmup2" else 1
    if plan["baseline"] == "rollout_only":
        baseline, kw = RolloutBaseline(bl_alpha=plan["bl_alpha"]), {}
    elif form == "warmup_obj":
        baseline, kw = WarmupBaseline(RolloutBaseline(bl_alpha=plan["bl_alpha"]), n_epochs=n_warm), {}
        run.probe("baseline_given_as_object")
    elif form == "warmup_kw":
        baseline = "warmup"
        kw = {"baseline_kwargs": {"baseline": RolloutBaseline(bl_alpha=plan["bl_alpha"]), "n_epochs": n_warm}}
        run.probe("baseline_given_as_object")
    else:
        baseline = "rollout"
        kw = {"baseline_kwargs": {"n_epochs": n_warm, "bl_alpha": plan["bl_alpha"]}}
    with run.guard(scope, "construct the model"):
        if mdam:
            from rl4co.models.zoo.mdam.model import MDAM

            model = MDAM(env, policy, baseline, batch_size=bs, val_batch_size=ebs, train_data_size=N,
                         val_data_size=M, test_data_size=1, shuffle_train_dataloader=plan["shuffle"],
                         optimizer_kwargs={"lr": 1e-2}, **kw)
            run.probe("mdam_model")
        else:
            model = PU.tiny_reinforce(env, policy, baseline, batch_size=bs, val_batch_size=ebs, train_data_size=N,
                                      val_data_size=M, test_data_size=1, shuffle_train_dataloader=plan["shuffle"],
                                      **kw)
    stub = types.SimpleNamespace(max_epochs=plan["epochs"], current_epoch=0, loggers=[], logger=None)
    model._trainer = stub
    warm, rb = _rollout_baseline(model)

    # seam: remember which generator draw fed which wrap_dataset call, and what the baseline was then
    wraps = []
    orig_wrap = model.wrap_dataset

    def wrap(dataset):
        rows = gen.draws[-1]
        active = hasattr(rb, "policy") and (warm is None or warm.alpha > 0)
        mark = len(rb.policy.records) if hasattr(rb, "policy") else 0
        out = orig_wrap(dataset)
        calls = rb.policy.records[mark:] if hasattr(rb, "policy") else []
        wraps.append({"rows": rows, "active": active, "policy": getattr(rb, "policy", None), "calls": calls})
        return out

    model.wrap_dataset = wrap
    keep = []          # keeps every baseline policy alive so that id() is never reused
    solo_cache = {}

    def solo(pol, row):
        key = (id(pol), R.fp_instance(row))
        if key not in solo_cache:
            with run.guard(scope, "solo greedy rollout of the baseline policy", promise=False):
                _a, r = PU.greedy(pol.inner, env, E.batch_of(cfg, [row]))
            solo_cache[key] = _per_instance(r, 1)[0]
        return solo_cache[key]

    torch.manual_seed(run.streams.torch_seed("setup"))
    if plan["baseline"] == "rollout_only":
        # REINFORCE.setup wraps the training set before the baseline has a policy (observation, see report);
        # users call baseline.setup themselves first
        try:
            model.setup("fit")
            run.probe("rollout_only_setup_ok")
        except AttributeError as e:
            if "'RolloutBaseline' object has no attribute 'policy'" not in str(e):
                raise
            run.probe("obs_rollout_only_setup_crash")
            gen.ptr = 0
            gen.draws.clear()
            wraps.clear()
            with run.guard(scope, "RolloutBaseline.setup"):
                rb.setup(policy, env, batch_size=ebs, device="cpu", dataset_size=M)
            with run.guard(scope, "REINFORCE.setup"):
                model.setup("fit")
    else:
        with run.guard(scope, "REINFORCE.setup"):
            model.setup("fit")

    for ep in range(plan["epochs"]):
        stub.current_epoch = ep
        w = wraps[-1]
        ref = R.RefList(w["rows"])
        if w["policy"] is not None:
            keep.append(w["policy"])
        # the values read during this epoch have to come from the baseline policy that is in force during this
        # epoch: a training set wrapped before the baseline was challenged (and replaced) carries stale values
        if w["active"] and not _same_params(getattr(rb, "policy", None), w["policy"]):
            run.violate(scope, "extra_is_baseline_reward",
                        f"epoch {ep}: the training set was wrapped with a baseline policy that has been replaced since; "
                        f"the attached values are not the rewards of the baseline policy in force",
                        constraint="extra_from_replaced_baseline", epoch=ep, n=N, env=name,
                        baseline=plan["baseline"])
            raise StopRun()
        with run.guard(scope, "train_dataloader", epoch=ep):
            dl = model.train_dataloader()
        noised = False
        passes = 1 + run.chooser.pick(2)
        for ps in range(passes):
            torch.manual_seed(run.streams.torch_seed(f"train-{ep}-{ps}"))
            with run.guard(scope, "iterate train_dataloader", epoch=ep, batch_size=bs, n=N):
                batches = [_batch_dict(b) for b in dl]
            run.tick(len(batches))
            if not noised and plan["noise_scale"] > 0:
                # stand-in for the epoch's optimiser steps on the live policy: the values attached to the training
                # set stay those of the *frozen* baseline policy (checked below, after the steps)
                PU.perturb_policy(policy.inner, plan["noise"][ep % len(plan["noise"])], plan["noise_scale"])
                noised = True
            has_extra = [("extra" in b) for b in batches]
            if w["active"] and not all(has_extra):
                run.violate(scope, "extra_missing", f"epoch {ep}: the rollout baseline is active but "
                            f"{has_extra.count(False)} batch(es) carry no 'extra'", constraint="keys", epoch=ep,
                            dataset=plan["dataset_cls"], n=N, batch_size=bs)
                raise StopRun()
            inst_batches = [{k: v for k, v in b.items() if k != "extra"} for b in batches]
            bad = ref.check_epoch(inst_batches, bs, None if plan["shuffle"] else list(range(N)))
            if bad is not None:
                _fail(run, scope, "loader_identity", bad, epoch=ep, batch_size=bs, n=N, shuffle=plan["shuffle"],
                      dataset=plan["dataset_cls"], env=name)
            look = ref.by_fp()
            seq = []
            for bi, b in enumerate(batches):
                for ri, row in enumerate(R.rows_of(b)):
                    inst = {k: row[k] for k in ref.keys}
                    it = look[R.fp_instance(inst)][0]
                    seq.append(it.index)
                    if "extra" not in row:
                        continue
                    if not w["active"]:
                        run.probe("obs_extra_while_warmup_alpha_0")
                        continue
                    if row["extra"].numel() != 1:
                        run.violate(scope, "extra_is_baseline_reward",
                                    f"epoch {ep} batch {bi} row {ri}: the value attached to instance {it.index} has shape "
                                    f"{list(row['extra'].shape)}; the baseline value of an instance is one number (the "
                                    f"baseline policy's reward on it" + (", for MDAM the best of its decoder paths)"
                                                                         if mdam else ")"),
                                    constraint="extra_shape", epoch=ep, shape=list(row["extra"].shape),
                                    instance=it.index, eval_bs=ebs, n=N, env=name, baseline=plan["baseline"],
                                    form=form)
                        raise StopRun()
                    got = float(row["extra"])
                    want = solo(w["policy"], it.row)
                    if abs(got - want) <= _tol(want):
                        continue
                    # what did the baseline policy itself return for this instance inside its batch?
                    ident = _ident_fn(name)(env.reset(E.batch_of(cfg, [it.row])))[0]
                    seen = [c["reward"][c["ids"].index(ident)] for c in w["calls"] if ident in c["ids"]]
                    if seen and abs(seen[-1] - got) <= _tol(want) and abs(seen[-1] - want) > _tol(want):
                        # the baseline policy itself scored this instance differently inside its evaluation batch.
                        # A greedy near-tie flipping between two batch layouts is C14's ground; but the value must at
                        # least be what the *frozen, inference-mode* baseline policy gives on that very batch: replay
                        # the batch in eval mode -- a value that only a training-mode forward produces (batch
                        # statistics, dropout) is not "the baseline policy's reward on instance i"
                        call = [c for c in w["calls"] if ident in c["ids"]][-1]
                        id2row = {}
                        for o in ref.items:
                            id2row[_ident_fn(name)(env.reset(E.batch_of(cfg, [o.row])))[0]] = o.row
                        if all(i in id2row for i in call["ids"]):
                            with run.guard(scope, "eval-mode replay of the baseline's evaluation batch", promise=False):
                                _a, r_eval = PU.greedy(w["policy"].inner, env,
                                                       E.batch_of(cfg, [id2row[i] for i in call["ids"]]))
                            r_eval = _per_instance(r_eval, len(call["ids"]))
                            if abs(r_eval[call["ids"].index(ident)] - got) > _tol(want):
                                run.violate(scope, "extra_is_baseline_reward",
                                            f"epoch {ep} batch {bi} row {ri}: extra {got!r} for instance {it.index} is neither "
                                            f"the baseline policy's reward on it alone ({want!r}) nor what the policy gives in "
                                            f"inference mode on its evaluation batch ({r_eval[call['ids'].index(ident)]!r}): "
                                            f"the value depends on the module's training mode / batch-mates",
                                            constraint="extra_mode_dependent", epoch=ep, got=got, want=want,
                                            instance=it.index, eval_bs=ebs, n=N, env=name, baseline=plan["baseline"])
                                raise StopRun()
                        run.probe("indeterminate_policy_batch_dependence")
                        continue
                    owner = [o.index for o in ref.items if abs(solo(w["policy"], o.row) - got) <= _tol(got)]
                    live = " [the baseline policy is the live policy object, not a frozen copy]" \
                        if w["policy"] is policy else ""
                    run.violate(scope, "extra_is_baseline_reward",
                                f"epoch {ep} batch {bi} row {ri}: extra {got!r} travels with instance {it.index} "
                                f"whose baseline-policy greedy reward is {want!r}"
                                + (f" (it is the reward of instance {owner[0]})" if owner else "") + live,
                                constraint="extra", epoch=ep, got=got, want=want, instance=it.index,
                                belongs_to=owner[:3], batch_size=bs, eval_bs=ebs, n=N, shuffle=plan["shuffle"],
                                dataset=plan["dataset_cls"], env=name, baseline=plan["baseline"])
                    raise StopRun()
            run.log.add("train_epoch", ep, ps, bs, seq,
                        [float(r["extra"].flatten()[0]).hex() for b in batches for r in R.rows_of(b) if "extra" in r][:16])
            run.state(plan["dataset_cls"], name, bs, ebs, N, tuple(seq[:6]))
            if all(has_extra) and batches:
                run.probe("extra_travelled")
                run.nontrivial = True
        if N % bs:
            run.probe("partial_batch")
            run.nontrivial = True
        if bs >= N:
            run.probe("bs_ge_n")
        if plan["shuffle"]:
            run.probe("shuffled_read")
            run.nontrivial = True
        if passes > 1:
            run.probe("multi_epoch")
        if w["calls"]:
            sizes = [c["B"] for c in w["calls"]]
            run.log.add("baseline_eval", ep, sizes)
            if sizes != ref.expected_batch_sizes(ebs):
                run.probe("obs_eval_batching_unexpected")
            if N % ebs and ebs < N:
                run.probe("eval_partial_batch")
        # ---- (the stand-in for the epoch's optimiser steps ran after the first read) then the real epoch-end hook
        # perturbation: a validation pass between epochs the way hand-written loops (and older Lightning) do it:
        # model.eval() ... model.train().  Both propagate to every sub-module, the frozen baseline policy included;
        # the values attached at the next wrap are still the baseline policy's inference-mode rewards
        if run.chooser.pick(2, lambda: run.chooser.rng.randrange(2)) == 1:
            model.eval()
            model.train()
            run.fault("mode_flip_between_epochs")
            run.probe("mode_flip_between_epochs")
        before = getattr(rb, "policy", None)
        torch.manual_seed(run.streams.torch_seed(f"epoch-end-{ep}"))
        n_wraps = len(wraps)
        with run.guard(scope, "on_train_epoch_end", epoch=ep):
            try:
                model.on_train_epoch_end()
            except AssertionError as e:
                # RolloutBaseline.epoch_callback asserts t < 0 whenever the float32 means say "candidate better";
                # for a candidate that ties with the baseline up to rounding the t statistic can be >= 0.  This is
                # about the baseline's update rule, not about instance identity: counted, the run ends here.
                if "T-statistic should be negative" not in str(e):
                    raise
                run.probe("obs_epoch_callback_tstat_assert")
                run.log.add("obs", "epoch_callback_tstat_assert", ep)
                raise StopRun()
        after = getattr(rb, "policy", None)
        if after is not before:
            run.probe("baseline_replaced")
            run.nontrivial = True
        if len(wraps) > n_wraps:
            run.probe("rewrapped")
        run.log.add("epoch_end", ep, after is not before, len(wraps) > n_wraps,
                    None if warm is None else warm.alpha)
        run.ops_done.append({"epoch": ep, "replaced": after is not before, "alpha": None if warm is None else warm.alpha,
                             "active": w["active"]})


# ------------------------------------------------------------------------------------------------
# canary mutants (in-memory regressions of the anchors; never applied to /repo)
# ------------------------------------------------------------------------------------------------
def _canary_extra_idx_minus_1():
    """ExtraKeyDataset.__getitem__ reads extra[idx-1]: every instance gets its neighbour's baseline."""
    from rl4co.data.dataset import ExtraKeyDataset

    def getitem(self, idx):
        data = self.data[idx]
        data[self.key_name] = self.extra[idx - 1]
        return data

    return patched(ExtraKeyDataset, "__getitem__", getitem)


def _canary_collate_reversed():
    """TensorDictDataset.collate_fn stacks reversed(batch)."""
    from tensordict import TensorDict

    from rl4co.data.dataset import TensorDictDataset

    def collate_fn(batch):
        batch = list(reversed(batch))
        return TensorDict({key: torch.stack([b[key] for b in batch]) for key in batch[0].keys()},
                          batch_size=torch.Size([len(batch)]))

    import contextlib

    @contextlib.contextmanager
    def cm():
        old = TensorDictDataset.__dict__["collate_fn"]
        TensorDictDataset.collate_fn = staticmethod(collate_fn)
        try:
            yield
        finally:
            TensorDictDataset.collate_fn = old

    return cm()


def _canary_rollout_drops_partial():
    """RolloutBaseline.wrap_dataset evaluates with drop_last and fills the tail with the mean."""
    from rl4co.models.rl.reinforce.baselines import RolloutBaseline

    orig = RolloutBaseline.rollout

    def wrap_dataset(self, dataset, env, batch_size=64, device="cpu", **kw):
        n = len(dataset)
        rewards = orig(self, self.policy, env, batch_size, device, dataset=dataset).detach().cpu()
        keep = (n // batch_size) * batch_size
        if 0 < keep < n:
            rewards = torch.cat([rewards[:keep], rewards[:keep].mean().expand(n - keep)])
        return dataset.add_key("extra", rewards)

    return patched(RolloutBaseline, "wrap_dataset", wrap_dataset)


def _canary_fasttd_sorts_indices():
    """FastTdDataset.__getitems__ sorts the requested indices (faster gather, wrong order)."""
    from rl4co.data.dataset import FastTdDataset

    def getitems(self, idx):
        return self.data[sorted(idx)]

    return patched(FastTdDataset, "__getitems__", getitems)


def _canary_dataloader_drop_last():
    """RL4COLitModule._dataloader_single builds its loader with drop_last=True."""
    import rl4co.models.rl.common.base as B

    real = B.DataLoader

    def loader(*a, **k):
        k["drop_last"] = True
        return real(*a, **k)

    return patched(B, "DataLoader", loader)


def _canary_rollout_shuffled():
    """RolloutBaseline.rollout iterates a shuffled loader: rewards are attached in another order than the
    instances they belong to ('extra attached before shuffling')."""
    import rl4co.models.rl.reinforce.baselines as BL

    real = BL.DataLoader

    def loader(*a, **k):
        k["shuffle"] = True
        return real(*a, **k)

    return patched(BL, "DataLoader", loader)


def _canary_fastgen_last_index():
    """TensorDictDatasetFastGeneration.__getitems__ replaces the last index of a batch by its predecessor."""
    from tensordict import TensorDict

    from rl4co.data.dataset import TensorDictDatasetFastGeneration

    def getitems(self, index):
        index = list(index)
        if len(index) > 1:
            index[-1] = index[-2]
        return TensorDict({key: item[index] for key, item in self.data.items()},
                          batch_size=torch.Size([len(index)]))

    return patched(TensorDictDatasetFastGeneration, "__getitems__", getitems)


def _canary_mdam_generic_rollout():
    """MDAM leaves the generic RolloutBaseline.rollout in place: a [paths] vector per instance is attached."""
    import rl4co.models.zoo.mdam.model as M
    from rl4co.models.rl.reinforce.baselines import RolloutBaseline

    def _canary_rollout(self, *a, **k):
        return RolloutBaseline.rollout(self, *a, **k)

    return patched(M, "rollout", _canary_rollout)


def _canary_mdam_rollout_first_path():
    """MDAM's baseline rollout takes the first decoder path instead of the best one."""
    import rl4co.models.zoo.mdam.model as M
    from torch.utils.data import DataLoader

    def _canary_rollout(self, model, env, batch_size=64, device="cpu", dataset=None):
        dataset = self.dataset if dataset is None else dataset
        model.eval()

        def _canary_eval(batch):
            with torch.inference_mode():
                return model(env.reset(batch.to(device)), env, decode_type="greedy")["reward"][:, 0]

        dl = DataLoader(dataset, batch_size=batch_size, collate_fn=dataset.collate_fn)
        return torch.cat([_canary_eval(b) for b in dl], 0)

    return patched(M, "rollout", _canary_rollout)


C17.CANARIES = {
    "extra_idx_minus_1": _canary_extra_idx_minus_1,
    "collate_reversed": _canary_collate_reversed,
    "rollout_drops_partial": _canary_rollout_drops_partial,
    "fasttd_sorts_indices": _canary_fasttd_sorts_indices,
    "dataloader_drop_last": _canary_dataloader_drop_last,
    "rollout_shuffled": _canary_rollout_shuffled,
    "fastgen_last_index": _canary_fastgen_last_index,
    "mdam_generic_rollout": _canary_mdam_generic_rollout,
    "mdam_rollout_first_path": _canary_mdam_rollout_first_path,
}
