"""C05 — the mask never hides a feasible solution: the optimum stays reachable.

Refinement model [= impl, decided by model-driven schedules: for a tiny instance the *reference*
enumerates its own complete feasible solution set (all of it when <= LIMIT sequences, a seeded sample of
DFS paths otherwise; the brute-force optimum always), each solution is translated to the environment's
action encoding and the real environment is driven along it (rows of one batch = different solutions
of the same instance, finished rows padded).  Every action must be admitted by the advertised mask,
the environment must be done exactly when the solution is complete, and the reward of the optimum must
equal the brute-force optimum.  Along the way every state visited is also compared set-wise: each
`must` action of the reference that is not a documented pruning has to be offered.
Boundary-builder instances (dyadic demands / prizes meeting the constraint with equality in exact
float32 arithmetic) carry the equality obligations."""
from __future__ import annotations

import copy
import random

import torch

from .. import drive as D
from .. import envs as E
from ..kernel import HarnessError, StopRun, Streams
from ..ref import routing as RR
from . import canaries_env as CE
from .episodes import get_ref, reward_tol

LIMIT = {"quick": 400, "thorough": 2000}
ENVS = E.ROUTING + ["smtwtp", "fjsp", "jssp", "flp", "mcp"]


def tiny_cfg(name, rc):
    cfg = E.sample_cfg(name, rc, "quick")
    g = cfg["gen"]
    n = rc.randint(3, 5)
    if name in ("tsp", "atsp", "mtsp"):
        g["num_loc"] = rc.randint(3, 6)
        if name == "mtsp":
            g["max_num_agents"] = rc.randint(1, 3)
    elif name in ("pdp", "mdcpdp"):
        g["num_loc"] = rc.choice([2, 4, 4, 6])
    elif name == "smtwtp":
        g["num_job"] = rc.randint(2, 6)
    elif name == "fjsp":
        g.update(num_jobs=rc.randint(2, 3), num_machines=2, min_ops_per_job=1, max_ops_per_job=2)
    elif name == "jssp":
        g.update(num_jobs=rc.randint(2, 3), num_machines=2, one2one_ma_map=True)
        g.pop("min_ops_per_job", None)
        g.pop("max_ops_per_job", None)
    elif name == "flp":
        g.update(num_loc=rc.randint(3, 7))
        g["to_choose"] = rc.randint(1, min(3, g["num_loc"] - 1))
    elif name == "mcp":
        g.update(num_sets=rc.randint(3, 7), num_items=rc.randint(4, 8), min_size=1, max_size=3)
        g["n_sets_to_choose"] = rc.randint(1, min(3, g["num_sets"] - 1))
    elif "num_loc" in g:
        g["num_loc"] = n
    cfg["n"] = g.get("num_loc", n)
    return cfg


def dyadic_parts(rc, total_eighths, k):
    """k positive integers (in 1/8 units) summing to total_eighths"""
    cuts = sorted(rc.sample(range(1, total_eighths), k - 1)) if k > 1 else []
    parts = [b - a for a, b in zip([0] + cuts, cuts + [total_eighths])]
    return parts


def make_boundary(name, row, rc):
    """Rewrite demands / prizes so that a constraint is met with equality in exact arithmetic."""
    row = {k: v.clone() for k, v in row.items()}
    if name in ("cvrp", "sdvrp", "cvrptw"):
        n = row["demand"].shape[0]
        k = rc.randint(2, min(n, 4))
        parts = dyadic_parts(rc, 8, k) if k <= 8 else [1] * k
        rest = [rc.randint(1, 8) for _ in range(n - k)]
        vals = parts + rest
        rc.shuffle(vals)
        row["demand"] = torch.tensor([v / 8.0 for v in vals], dtype=torch.float32)
        return row
    if name in ("pctsp", "spctsp"):
        n = row["deterministic_prize"].shape[0]
        k = rc.randint(2, min(n, 4))
        parts = dyadic_parts(rc, 16, k)
        rest = [rc.randint(1, 8) for _ in range(n - k)]
        vals = parts + rest
        rc.shuffle(vals)
        pr = torch.tensor([v / 16.0 for v in vals], dtype=torch.float32)
        row["deterministic_prize"] = pr
        row["stochastic_prize"] = pr.clone()
        return row
    if name == "mtvrp":
        n1 = row["demand_linehaul"].shape[0]
        lh = row["demand_linehaul"].clone()
        bh = row["demand_backhaul"].clone()
        for j in range(1, n1):
            v = rc.choice([1, 2, 2, 4, 4, 3]) / 8.0
            if float(bh[j]) > 0:
                bh[j] = v
            else:
                lh[j] = v
        row["demand_linehaul"] = lh
        row["demand_backhaul"] = bh
        row["vehicle_capacity"] = torch.ones_like(row["vehicle_capacity"])
        return row
    return None


BOUNDARY_ENVS = ["cvrp", "sdvrp", "cvrptw", "pctsp", "spctsp", "mtvrp"]


def enumerate_solutions(ref0, limit, rng):
    """All complete action sequences of the reference (must-actions only, documented prunings skipped)
    when there are at most `limit`; otherwise `limit` seeded random DFS paths.  -> (solutions, exhaustive)"""
    out = []
    stack = [(ref0.clone(), [])]
    nodes = 0
    exhaustive = True
    while stack:
        ref, acts = stack.pop()
        nodes += 1
        if nodes > 40 * limit:
            exhaustive = False
            break
        if ref.done() == "must":
            out.append(acts)
            if len(out) > limit:
                exhaustive = False
                break
            continue
        if len(acts) > ref.step_bound() + 1:
            continue
        adm = ref.admissible()
        pr = getattr(ref, "pruned", lambda a: False)
        for a in sorted(adm, reverse=True):
            if adm[a] != "must" or pr(a):
                continue
            r2 = ref.clone()
            r2.apply(a)
            stack.append((r2, acts + [a]))
    if exhaustive:
        return out, True
    # seeded sample of root-to-leaf paths
    out = []
    tries = 0
    while len(out) < limit and tries < 3 * limit:
        tries += 1
        ref, acts = ref0.clone(), []
        ok = True
        while ref.done() != "must":
            adm = ref.admissible()
            pr = getattr(ref, "pruned", lambda a: False)
            opts = [a for a in sorted(adm) if adm[a] == "must" and not pr(a)]
            if not opts or len(acts) > ref.step_bound() + 1:
                ok = False
                break
            a = rng.choice(opts)
            ref.apply(a)
            acts.append(a)
        if ok:
            out.append(acts)
    return out, False


class C05:
    prop = "C05"
    level = "exploration"
    chunk = 2
    rule = ("run = one tiny instance (routing <= 6 nodes, scheduling <= 3 jobs x 2 machines, selection <= 7 items; "
            "generator or boundary-builder with dyadic demands/prizes meeting the constraint with equality) of one "
            "environment; the reference enumerates its complete feasible solutions (exhaustively when <= LIMIT, "
            "seeded sample otherwise, optimum always) and the real environment is driven along each in batches. "
            "Non-trivial = at least 2 distinct solutions driven; distinct = distinct event-log digest.")
    components_real = ["rl4co.envs.* (_reset/_step/get_action_mask/get_reward)", "rl4co generators"]
    components_stub = ["action chooser = model-trace schedules produced by the reference models"]
    assumptions = ["exhaustive over the reference's solution set per instance, sampled over instances",
                   "documented prunings (depot->depot while servable, last technician/agent may not return, no waiting "
                   "while dispatchable under mask_no_ops, full-vehicle visits) are not required to be offered",
                   "OP/length and time-window equalities are observations only (DESIGN 4); capacity and prize "
                   "equalities are obligations on boundary instances",
                   "FFSP only through C07's per-tick 'ready job offered' clause"]
    required_probes = ["solutions_driven", "optimum_checked", "boundary_equality_taken"]
    CANARIES = CE.C05_CANARIES if hasattr(CE, "C05_CANARIES") else {}

    @staticmethod
    def make_plan(run_seed, tier):
        st = Streams(run_seed)
        rc = st.get("config")
        pool = E.only_filter(ENVS + ["ffsp"])
        name = pool[rc.randrange(len(pool))]
        if name == "ffsp":
            # weak form (DESIGN 5/C05): no enumeration; along seeded episodes every ready job and the documented
            # wait must be offered at every decision slot
            cfg = E.sample_cfg("ffsp", rc, "quick")
            env = E.make_env(cfg)
            B = rc.choice([1, 2, 3])
            rows = E.gen_rows(env, cfg, B, st.torch_seed("instances"))
            return {"cfg": cfg, "instance": E.enc_row(rows[0]), "ffsp_rows": [E.enc_row(r) for r in rows],
                    "stranger": None, "source": "generator", "limit": LIMIT[tier],
                    "strategies": [rc.choice(["uniform", "wait_eager", "wait_eager", "lowest"]) for _ in range(B)],
                    "sample_seed": rc.randrange(1 << 30)}
        cfg = tiny_cfg(name, rc)
        env = E.make_env(cfg)
        two = E.gen_rows(env, cfg, 2, st.torch_seed("instances"))
        row = two[0]
        source = "generator"
        if name in BOUNDARY_ENVS and rc.random() < 0.5:
            b = make_boundary(name, row, rc)
            if b is not None:
                row, source = b, "boundary"
        elif rc.random() < 0.5:
            hrows, tag = E.hand_format(name, [row], rc)
            if tag != "generator":
                row, source = hrows[0], tag
        rdup = st.get("flp_colocated")
        if name == "flp" and source == "generator" and rdup.random() < 0.4:
            # two candidate sites at the same place (legal data: duplicated coordinates, zero off-diagonal cost):
            # a selection holding both is a feasible solution like any other and has to stay reachable
            n_ = row["locs"].shape[0]
            i_, j_ = rdup.sample(range(n_), 2)
            row = {k: v.clone() for k, v in row.items()}
            row["locs"][j_] = row["locs"][i_]
            D = row["orig_distances"]
            D[j_, :] = D[i_, :]
            D[:, j_] = D[:, i_]
            D[i_, j_] = D[j_, i_] = D[j_, j_] = 0.0
            source = "hand:flp_colocated"
        # a stranger (another instance, other agent count / variant / demands) stepped at batch row 0 next to
        # the solutions under test: what is offered to an instance must not depend on its batch-mates
        stranger = E.enc_row(two[1]) if rc.random() < 0.5 else None
        return {"cfg": cfg, "instance": E.enc_row(row), "stranger": stranger, "source": source, "limit": LIMIT[tier],
                "sample_seed": rc.randrange(1 << 30)}

    @staticmethod
    def sample(run):
        p = run.plan
        return {"env": p["cfg"], "source": p["source"], "instance": p["instance"],
                "summary": getattr(run, "summary", None)}

    @staticmethod
    def execute(run):
        p = run.plan
        cfg = p["cfg"]
        name = cfg["env"]
        row = E.dec_row(p["instance"])
        if name == "ffsp":
            return _ffsp_weak(run, cfg, [E.dec_row(r) for r in p["ffsp_rows"]], p["strategies"])
        RR.EXACT = p["source"] == "boundary"
        # generator demands are k/Q: whether a load fills the vehicle exactly is decided in integers, and the
        # property names exactly that case ("load exactly filling the vehicle ... is offered")
        RR.INTEGER_CAPACITY = "verdict" if name in ("cvrp", "cvrptw", "mtvrp") else False
        try:
            _execute(run, name, cfg, row, p)
        finally:
            RR.EXACT = False
            RR.INTEGER_CAPACITY = False


def _execute(run, name, cfg, row, p):
    ref0 = get_ref(name, row, cfg)
    if ref0 is None:
        run.probe("no_reference_for_env")
        return
    sols, exhaustive = enumerate_solutions(ref0, p["limit"], random.Random(p["sample_seed"]))
    if not sols:
        run.probe("no_solution_enumerated")
        return
    objs = [ref0.objective(s) for s in sols]
    have_obj = objs[0] is not None
    best = max(range(len(sols)), key=lambda i: objs[i]) if have_obj else 0
    run.summary = {"n_solutions": len(sols), "exhaustive": exhaustive,
                   "optimum": objs[best] if have_obj else None, "optimal_actions": sols[best]}
    run.log.add("enumerated", len(sols), exhaustive, float(objs[best]).hex() if have_obj else None)
    if len(sols) >= 2:
        run.nontrivial = True
    if exhaustive:
        run.probe("exhaustive_instances")
    with run.guard(name, "construct env"):
        env = E.make_env(cfg)
    CH = 48
    for lo in range(0, len(sols), CH):
        chunk = sols[lo:lo + CH]
        _drive_chunk(run, env, cfg, row, ref0, chunk, [lo + i == best for i in range(len(chunk))],
                     objs[lo:lo + CH] if have_obj else None)


def _drive_chunk(run, env, cfg, row, ref0, chunk, is_best, objs):
    name = cfg["env"]
    strg = E.dec_row(run.plan["stranger"]) if run.plan.get("stranger") else None
    off = 1 if strg is not None else 0
    if strg is not None:
        # row 0 = stranger driven along its lowest admitted action; rows 1.. = the solutions under test
        chunk = [None] + list(chunk)
        is_best = [False] + list(is_best)
        objs = ([None] + list(objs)) if objs is not None else None
        run.fault("stranger_at_row0")
    B = len(chunk)
    with run.guard(name, "reset", B=B):
        td = E.reset(env, cfg, ([strg] if strg is not None else []) + [row] * (B - off))
    refs = [ref0.clone() for _ in range(B)]
    hist = [[] for _ in range(B)]
    residue_rows = set()
    T = max(len(s) for s in chunk if s is not None)
    t = 0
    while True:
        done = E.done_vec(td)
        if bool(done.all()) and t >= T:
            break
        mask = td["action_mask"]
        acts = []
        for r in range(B):
            if chunk[r] is None:  # the stranger
                opts = D.admitted(mask[r])
                if not opts:
                    return
                acts.append(opts[0])
                hist[r].append(opts[0])
                continue
            sol = chunk[r]
            if t < len(sol):
                if bool(done[r]):
                    run.violate(name, "done_before_solution_complete", f"environment reports done after {t} of "
                                f"{len(sol)} actions of a feasible solution", constraint="early_done", solution=sol,
                                cfg=cfg, instance=E.enc_row(row), source=run.plan["source"])
                    raise StopRun()
                # (a) set comparison at this state
                adm = refs[r].admissible()
                pr = getattr(refs[r], "pruned", lambda a: False)
                for a in sorted(adm):
                    if adm[a] == "must" and not pr(a) and not bool(mask[r, a]):
                        run.violate(name, "feasible_action_hidden", f"after {hist[r]} the mask hides action {a}, which "
                                    f"the problem allows (next in a feasible solution: {a == sol[t]})",
                                    constraint=_kind(name, refs[r], a), prefix=list(hist[r]), action=a, cfg=cfg,
                                    instance=E.enc_row(row), source=run.plan["source"])
                        raise StopRun()
                a = sol[t]
                if run.plan["source"] == "boundary" and _is_equality(name, refs[r], a):
                    run.probe("boundary_equality_taken")
                refs[r].apply(a)
                run.state(name, tuple(hist[r]), a)
            else:
                if not bool(done[r]) and name == "sdvrp" and float(td["demand_with_depot"][r].max()) <= RR.tau(1.0):
                    # float32 residue of a capacity-capped delivery (DESIGN 4): the environment asks for one
                    # more visit to deliver ~3e-8; inside the band, so indeterminate - keep padding
                    run.probe("sdvrp_float_residue")
                    residue_rows.add(r)
                elif not bool(done[r]):
                    run.violate(name, "complete_solution_not_done", f"feasible complete solution {sol} leaves the "
                                "environment unfinished", constraint="not_done", solution=sol, cfg=cfg,
                                instance=E.enc_row(row), source=run.plan["source"])
                    raise StopRun()
                opts = D.admitted(mask[r])
                if not opts:
                    return  # C02's business
                a = opts[0]
            acts.append(a)
            hist[r].append(a)
        with run.guard(name, "step", tick=t):
            td = E.step(env, td, torch.tensor(acts))
        run.tick()
        t += 1
        if t > T + 6 + (D.step_bound_generic(cfg, td) if strg is not None else 0):
            if strg is not None:
                return  # the stranger did not finish under the lowest-action policy: C02's business
            raise HarnessError("chunk did not finish")
    run.probe("solutions_driven", B - off)
    if objs is not None and any(is_best):
        actions = torch.tensor(hist, dtype=torch.long)
        with run.guard(name, "get_reward"):
            rew = torch.as_tensor(env.get_reward(td, actions)).reshape(-1)
        for r in range(B):
            if is_best[r] and r not in residue_rows:
                got, want = float(rew[r]), objs[r]
                if not abs(got - want) <= reward_tol(want, len(chunk[r])):
                    run.violate(name, "optimum_reward", f"brute-force optimum {want!r} is reported as {got!r}",
                                constraint="optimum", solution=chunk[r], cfg=cfg, instance=E.enc_row(row),
                                source=run.plan["source"])
                    raise StopRun()
                run.probe("optimum_checked")


def _kind(name, ref, a):
    """coarse label of the hidden action, for stable violation classes"""
    if a == 0 and name not in ("tsp", "atsp", "flp", "mcp", "smtwtp"):
        return "depot_or_wait_hidden"
    return "customer_hidden"


def _is_equality(name, ref, a):
    try:
        if name in ("cvrp", "cvrptw") and a != 0:
            return ref.load + ref.demand[a] == ref.cap
        if name == "sdvrp" and a != 0:
            return ref.load + ref.rem[a] == ref.cap
        if name in ("pctsp", "spctsp") and a == 0:
            return ref.collected == ref.required
        if name == "mtvrp" and a != 0:
            return (ref.load_lh + ref.lh[a] == ref.cap) or (ref.load_bh + ref.bh[a] == ref.cap)
    except Exception:  # noqa: BLE001
        return False
    return False


# ----------------------------------------------------------------------------------------------------
# FFSP, weak form: at every decision slot of seeded episodes the mask offers every ready job of the slot's stage
# and the wait action wherever the environment documents it (a job still upstream of this stage, or being
# processed on its way to it).  Hiding the wait there hides every schedule that idles the machine for the
# arriving job -- on unrelated machines that includes optima.
# ----------------------------------------------------------------------------------------------------
def _ffsp_weak(run, cfg, rows, strategies):
    from ..ref import scheduling as SR

    name = "ffsp"
    B = len(rows)
    with run.guard(name, "construct env"):
        env = E.make_env(cfg)
    with run.guard(name, "reset", B=B):
        td = E.reset(env, cfg, rows)
    refs = [SR.make_ref(name, r, cfg) for r in rows]
    cap = 6 * max(r.step_bound() for r in refs) + 20
    t = 0
    checked = 0
    while t < cap:
        done = E.done_vec(td).tolist()
        if all(done):
            break
        acts = []
        for i in range(B):
            bits = [bool(x) for x in td["action_mask"][i].reshape(-1).tolist()]
            opts = D.admitted(td["action_mask"][i])
            if not opts:
                run.probe("ffsp_dead_end")  # C02's claim
                return
            ref = refs[i]
            if not done[i] and ref.done() != "must":
                tm, mi = int(td["time_idx"][i]), int(td["machine_idx"][i])
                if tm != ref.time or mi != ref.machine() or len(bits) != ref.J + 1:
                    run.probe("ffsp_slot_out_of_sync")  # slot iteration is C07's ground
                    return
                adm = ref.admissible()
                for j in range(ref.J):
                    if j in adm and not bits[j]:
                        run.violate(name, "feasible_action_hidden", f"row {i} slot (time {tm}, machine {mi}): ready job "
                                    f"{j} of this stage is not offered", constraint="ready_job_hidden", row=i, job=j,
                                    slot=[tm, mi], cfg=cfg, instance=E.enc_row(rows[i]))
                        raise StopRun()
                if ref._wait_documented() and not bits[ref.J]:
                    run.violate(name, "feasible_action_hidden", f"row {i} slot (time {tm}, machine {mi}): a job is still "
                                f"upstream of / being processed for this stage, but waiting is not offered (job stages "
                                f"{list(ref.loc)}, job free at {list(ref.job_free)})", constraint="documented_wait_hidden",
                                row=i, slot=[tm, mi], cfg=cfg, instance=E.enc_row(rows[i]))
                    raise StopRun()
                if ref._wait_documented() and any(j in adm for j in range(ref.J)):
                    run.probe("ffsp_wait_next_to_ready_job")
                    run.nontrivial = True
                checked += 1
                strat = strategies[i]
                if strat == "wait_eager" and bits[ref.J] and run.chooser.pick(2, lambda: run.chooser.rng.randrange(2)) == 1:
                    a = ref.J
                else:
                    a = D.choose(run, "uniform" if strat == "wait_eager" else strat, td, i, opts)
                try:
                    ref.apply(a)
                except SR.RefError:
                    run.probe("ffsp_reference_lost_sync")
                    return
            else:
                a = D.choose(run, "uniform", td, i, opts)
            acts.append(a)
        run.log.add("ffsp", t, acts, [D.mask_bits(td["action_mask"][i]) for i in range(B)])
        run.state(name, tuple(refs[0].loc), refs[0].time)
        with run.guard(name, "step", B=B, tick=t):
            td = E.step(env, td, torch.tensor(acts))
        run.tick()
        t += 1
    run.probe("ffsp_weak_form_checked", checked)
    run.summary = {"ticks": t, "slots_checked": checked}
