"""C20 — running statistics and stateful baselines are exact for any training history.

A run is one chooser-scheduled operation sequence against one of three stateful objects of rl4co:

* ``RewardScaler(scale)``: interleaved ``__call__`` / ``update`` with batches of scheduled size, shape,
  magnitude and kind (normal, uniform, constant, large offset + small spread).  After every operation
  the running count / mean / sample std must equal the float64 two-pass statistics of *everything
  observed so far*, and the output of ``__call__`` must be the stated transformation of the input.
* ``ExponentialBaseline(beta)`` (also reached through ``MeanBaseline`` and the registry): ``eval``
  sequences; the returned value must follow v_0 = mean(R_0), v_t = beta v_{t-1} + (1-beta) mean(R_t),
  with loss 0 and no gradient.
* ``WarmupBaseline(stub inner, n_epochs, warmup_exp_beta)``: scheduled ``epoch_callback(epoch=e)``
  (consecutive, repeated, restarted and skipped epoch numbers) and ``eval`` calls; alpha must follow
  (e+1)/n for e < n and the value must be alpha*inner + (1-alpha)*EMA.

Checkpoint / restore is not part of this property."""
from __future__ import annotations

import contextlib
import math

import torch

from ..kernel import HarnessError, StopRun, Streams
from ..ref import training as R

SIZES = [1, 2, 3, 4, 5, 7, 8, 12, 16, 31, 32, 64]
MAGS = [1e-3, 1e-2, 1e-1, 1.0, 1e1, 1e2, 1e3]
KINDS = ["normal", "uniform", "constant", "offset", "negative"]
BETAS = [0.0, 0.3, 0.5, 0.8, 0.9, 0.99, 1.0]


def _hex(x: float) -> str:
    x = float(x)
    return x.hex() if x == x and abs(x) != float("inf") else repr(x)


def _values(rd, size, mag, kind):
    if kind == "normal":
        return [rd.gauss(0.0, mag) for _ in range(size)]
    if kind == "uniform":
        return [rd.uniform(0.0, mag) for _ in range(size)]
    if kind == "negative":
        return [-rd.uniform(0.5 * mag, 1.5 * mag) for _ in range(size)]  # tour-length like rewards
    if kind == "constant":
        c = rd.choice([-1.0, 0.0, 0.5, 1.0, 3.0]) * mag
        return [c] * size
    if kind == "offset":
        c = rd.choice([-1.0, 1.0]) * mag
        return [c + rd.gauss(0.0, mag * 1e-2) for _ in range(size)]
    raise HarnessError(kind)


def _shape(size, pick2d):
    if pick2d:
        for a in (4, 3, 2):
            if size % a == 0 and size // a > 1:
                return [size // a, a]
    return [size]


def _batch(run, first_needs_two=False):
    """One scheduled batch: (tensor float32, values as float64 list, description)."""
    ch = run.chooser
    si = ch.pick(len(SIZES))
    size = SIZES[si]
    if first_needs_two and size < 2:
        size = 2
    mag = MAGS[ch.pick(len(MAGS))]
    kind = KINDS[ch.pick(len(KINDS))]
    two_d = ch.pick(3) == 0
    vals = _values(run.streams.get("data"), size, mag, kind)
    x = torch.tensor(vals, dtype=torch.float64 if run.plan.get("dtype") == "float64" else torch.float32) \
        .reshape(_shape(size, two_d))
    return x, [float(v) for v in x.reshape(-1).tolist()], {"size": size, "mag": mag, "kind": kind,
                                                           "shape": list(x.shape)}


def _make_stub():
    """Inner baseline whose eval returns what the schedule says (created lazily: needs rl4co's base
    class)."""
    from rl4co.models.rl.reinforce.baselines import REINFORCEBaseline

    class _Stub(REINFORCEBaseline):
        def __init__(self):
            super().__init__()
            self.next = (0.0, 0.0)
            self.n_eval = 0
            self.n_cb = 0
            self.cb_epochs = []

        def eval(self, td, reward, env=None):
            self.n_eval += 1
            return self.next

        def epoch_callback(self, *a, **kw):
            self.n_cb += 1
            self.cb_epochs.append(kw.get("epoch"))

    return _Stub()


class C20:
    prop = "C20"
    level = "exploration"
    chunk = 32
    rule = ("run = one chooser-scheduled operation sequence (8-40 operations) against RewardScaler "
            "(scale in None/int/'norm'/'scale'; __call__/update interleaved; batch sizes 1-64, 1-D and "
            "2-D, magnitudes 1e-3..1e3, kinds normal/uniform/negative/constant/offset), "
            "ExponentialBaseline (beta in 0..1, also via MeanBaseline and the registry) or "
            "WarmupBaseline(stub inner, n_epochs 1-5, beta) with epoch callbacks whose epoch numbers "
            "advance, repeat, restart or skip.  Every operation is followed by a comparison with the "
            "float64 reference.  Non-trivial = at least 3 state-changing operations and, for the scaler, "
            "batches of at least two different sizes; distinct = distinct event-log digest.")
    components_real = ["rl4co.models.rl.common.utils.RewardScaler (__call__, update)",
                       "rl4co.models.rl.reinforce.baselines.ExponentialBaseline / MeanBaseline / "
                       "WarmupBaseline (eval, epoch_callback), get_reinforce_baseline"]
    components_stub = ["inner baseline of WarmupBaseline (scheduled values; its own correctness is C16's)",
                       "observed batches (seeded synthetic advantages / rewards instead of rollouts)"]
    assumptions = ["CPU float32 tensors (the dtype advantages have in training)",
                   "the sample standard deviation is only consulted once two values have been observed "
                   "(a first __call__ with a single value divides by count-1 = 0; undefined, not scheduled)",
                   "for histories whose sample std is below 1e-3 of the data scale (constant batches) the "
                   "standardised output is dominated by the epsilon guard and only the running statistics "
                   "are compared",
                   "epoch callbacks with epoch >= n_epochs while alpha < 1 (only reachable by skipping epoch "
                   "numbers) are recorded as observations: the docstring does not state what happens"]
    required_probes = ["scaler_call", "scaler_update", "constant_batch", "size_one_batch", "ema_eval",
                       "warmup_mix", "warmup_repeat", "warmup_skip", "warmup_reached_one"]
    excluded = ["RewardScaler first observed batch of one value in 'norm'/'scale' mode (std undefined)",
                "RewardScaler(scale=<float>) (not a stated mode)", "checkpoint/restore of baseline state (C19)"]
    CANARIES = {}

    # ---------------------------------------------------------------------------------------------
    @staticmethod
    def make_plan(run_seed: int, tier: str) -> dict:
        st = Streams(run_seed)
        rc = st.get("config")
        kind = rc.choice(["scaler"] * 5 + ["ema"] * 2 + ["warmup"] * 3)
        n_ops = rc.randint(8, 40 if tier == "quick" else 120)
        plan = {"kind": kind, "n_ops": n_ops}
        if kind == "scaler":
            plan["scale"] = rc.choice([None, 2, 10, 100, "norm", "norm", "norm", "scale", "scale"])
            plan["p_update"] = rc.choice([0.0, 0.2, 0.5])
            plan["dtype"] = "float64" if rc.random() < 0.2 else "float32"
        elif kind == "ema":
            plan["beta"] = rc.choice(BETAS)
            plan["via"] = rc.choice(["class", "class", "registry", "mean"])
            if plan["via"] == "mean":
                plan["beta"] = 0.0
        else:
            plan["n_epochs"] = rc.randint(1, 5)
            plan["beta"] = rc.choice(BETAS)
            plan["p_callback"] = rc.choice([0.15, 0.3, 0.5])
            plan["history"] = rc.choice(["consecutive", "consecutive", "any"])
            # how the object is obtained: the class, the registry's "warmup" entry around a given inner
            # baseline, or the default "rollout" entry (warm-up around the greedy-rollout baseline, configured
            # with n_epochs / exp_beta); the inner baseline is the scheduled stub in all three
            plan["via"] = rc.choice(["class", "class", "registry_warmup", "factory_rollout"])
        return plan

    @staticmethod
    def sample(run):
        return {"plan": run.plan, "ops": getattr(run, "ops_summary", [])[:12]}

    @staticmethod
    def shrink(plan):
        n = plan["n_ops"]
        for m in (n // 2, n - 1):
            if 1 <= m < n:
                p = dict(plan)
                p["n_ops"] = m
                yield p

    # ---------------------------------------------------------------------------------------------
    @staticmethod
    def execute(run):
        run.ops_summary = []
        kind = run.plan["kind"]
        if kind == "scaler":
            _run_scaler(run)
        elif kind == "ema":
            _run_ema(run)
        elif kind == "warmup":
            _run_warmup(run)
        else:
            raise HarnessError(kind)


# ------------------------------------------------------------------------------------------------
# RewardScaler
# ------------------------------------------------------------------------------------------------
# relative tolerance / epsilon of the run's tensor dtype: float32 histories (what training feeds) and, in a fifth
# of the scaler runs, float64 histories (precision=64 training), where the accumulators must keep float64
_NUM = {"rel": 1e-5, "eps": R.F32_EPS}


def _stat_tol(scale: float, n_updates: int) -> float:
    """accumulator error proportional to the data scale (DESIGN section 4 with the data scale in place of
    |ref|, which may be ~0 for centred data)."""
    return _NUM["rel"] * max(scale, 1e-30) * math.sqrt(max(n_updates, 1))


def _var_tol(scale: float, n_updates: int) -> float:
    return _NUM["rel"] * max(scale * scale, 1e-60) * math.sqrt(max(n_updates, 1))


def _run_scaler(run):
    from rl4co.models.rl.common.utils import RewardScaler

    plan = run.plan
    mode = plan["scale"]
    scope = "RewardScaler"
    with run.guard(scope, "construct"):
        rs = RewardScaler(mode)
    f64 = plan.get("dtype") == "float64"
    _NUM["rel"], _NUM["eps"] = (1e-11, 2.220446049250313e-16) if f64 else (1e-5, R.F32_EPS)
    if f64:
        run.probe("scaler_float64_history")
    ref = R.RunningStats()
    stat_mode = mode in ("norm", "scale")
    n_upd = 0
    sizes_seen = set()
    for t in range(plan["n_ops"]):
        p_upd = plan["p_update"]
        op = run.chooser.pick(2, lambda: 1 if run.chooser.rng.random() < p_upd else 0)
        is_update = op == 1
        need_two = stat_mode and (not is_update) and ref.count == 0
        x, vals, desc = _batch(run, first_needs_two=need_two)
        if stat_mode and not is_update and ref.count + len(vals) < 2:
            # a __call__ that would consult the std of a single value: not scheduled
            is_update = True
        desc["op"] = "update" if is_update else "call"
        run.ops_summary.append(desc)
        run.tick()
        if desc["kind"] == "constant":
            run.probe("constant_batch")
        if desc["size"] == 1:
            run.probe("size_one_batch")
        sizes_seen.add(desc["size"])
        x_in = x.clone()
        if is_update:
            run.probe("scaler_update")
            with run.guard(scope, "update", op=t):
                rs.update(x)
            out = None
            observed = True
        else:
            run.probe("scaler_call")
            with run.guard(scope, "__call__", op=t):
                out = rs(x)
            observed = stat_mode  # None / int modes do not look at the batch
        if observed:
            ref.observe(vals)
            n_upd += 1
        run.log.add("op", t, desc["op"], desc["size"], desc["kind"], _hex(desc["mag"]))
        # ---- running statistics ---------------------------------------------------------------
        if ref.count:
            cnt = int(rs.count)
            if cnt != ref.count:
                run.violate(scope, "count", f"op {t}: count {cnt} after observing {ref.count} values",
                            constraint="count", op=t, got=cnt, ref=ref.count, mode=str(mode))
                raise StopRun()
            m_ref, s_ref = ref.mean_std()
            scale = ref.scale()
            tol = _stat_tol(scale, n_upd)
            m_got = float(rs.mean)
            run.log.add("mean", t, _hex(m_got))
            if not (abs(m_got - m_ref) <= tol):
                run.violate(scope, "running_mean", f"op {t}: running mean {m_got!r} vs two-pass mean {m_ref!r} of "
                            f"{ref.count} values (tol {tol:.3g})", constraint="mean", op=t, got=m_got,
                            ref=m_ref, n=ref.count, mode=str(mode), ops=run.ops_summary[-6:])
                raise StopRun()
            if ref.count >= 2:
                m2 = float(rs.M2)
                s_got = math.sqrt(max(m2, 0.0) / (cnt - 1))
                run.log.add("std", t, _hex(s_got))
                # float32 accumulates M2 with an error ~ eps * scale^2, so the comparison is made on the
                # variance (for a constant history the std itself is only good to sqrt(eps) * scale)
                tol_var = _var_tol(scale, n_upd)
                if not (abs(s_got * s_got - s_ref * s_ref) <= tol_var) or m2 < -tol_var * cnt:
                    run.violate(scope, "running_std", f"op {t}: running sample std {s_got!r} vs two-pass {s_ref!r} "
                                f"of {ref.count} values (variance tol {tol_var:.3g})", constraint="std", op=t,
                                got=s_got, ref=s_ref, n=ref.count, mode=str(mode), ops=run.ops_summary[-6:])
                    raise StopRun()
        # ---- output ---------------------------------------------------------------------------
        if out is not None:
            _check_output(run, scope, t, mode, x_in, vals, out, ref, n_upd)
        run.state("scaler", str(mode), desc["op"], desc["size"], desc["kind"])
    if n_upd >= 3 and len(sizes_seen) >= 2:
        run.nontrivial = True


def _check_output(run, scope, t, mode, x_in, vals, out, ref, n_upd):
    if not isinstance(out, torch.Tensor) or tuple(out.shape) != tuple(x_in.shape):
        run.violate(scope, "scaled_output", f"op {t}: output shape {getattr(out, 'shape', None)} for input "
                    f"{tuple(x_in.shape)}", constraint="shape", op=t, mode=str(mode))
        raise StopRun()
    got = [float(v) for v in out.reshape(-1).tolist()]
    if mode is None or isinstance(mode, int):
        want = R.scaler_transform(vals, mode)
        for i, (g, w) in enumerate(zip(got, want)):
            if not (abs(g - w) <= 1e-6 * max(abs(w), 1e-30)):
                run.violate(scope, "scaled_output", f"op {t}: output[{i}] = {g!r}, stated transformation gives {w!r} "
                            f"(scale={mode!r})", constraint="transform", op=t, mode=str(mode), got=g, ref=w)
                raise StopRun()
        return
    m_ref, s_ref = ref.mean_std()
    scale = ref.scale()
    if not (s_ref > 1e-3 * scale):
        run.probe("degenerate_std")
        return
    # the output is float32-accurate whatever the input dtype: RewardScaler takes the square root in float32
    # (`.float().sqrt()`); only the running statistics are held to the history's own precision
    rel_out = 1e-5
    tol_mean = rel_out * max(scale, 1e-30) * math.sqrt(max(n_upd, 1))
    tol_std = rel_out * max(scale * scale, 1e-60) * math.sqrt(max(n_upd, 1)) / s_ref
    want = R.scaler_transform(vals, mode, ref, eps=_NUM["eps"])
    den = s_ref + _NUM["eps"]
    worst = None
    for i, (g, w) in enumerate(zip(got, want)):
        num = abs(vals[i] - m_ref) if mode == "norm" else abs(vals[i])
        # propagated tolerance: statistics within tol_stat, plus float32 evaluation of the formula
        tol = (tol_mean / den if mode == "norm" else 0.0) + num * tol_std / (den * den) \
            + rel_out * max(1.0, abs(w)) + 0.1 * rel_out * scale / den
        if not (abs(g - w) <= tol):
            worst = (i, g, w, tol)
            break
    run.log.add("out", t, [_hex(g) for g in got[:4]])
    if worst is not None:
        i, g, w, tol = worst
        run.violate(scope, "scaled_output", f"op {t}: output[{i}] = {g!r}, stated transformation "
                    f"({'(x-mean)/std' if mode == 'norm' else 'x/std'} over {ref.count} observed values) gives "
                    f"{w!r} (tol {tol:.3g})", constraint="transform", op=t, mode=str(mode), got=g, ref=w,
                    x=vals[i], mean=m_ref, std=s_ref, ops=run.ops_summary[-6:])
        raise StopRun()


# ------------------------------------------------------------------------------------------------
# ExponentialBaseline
# ------------------------------------------------------------------------------------------------
def _run_ema(run):
    from rl4co.models.rl.reinforce import baselines as BL

    plan = run.plan
    beta = plan["beta"]
    scope = "ExponentialBaseline"
    with run.guard(scope, "construct"):
        if plan["via"] == "mean":
            bl = BL.MeanBaseline()
        elif plan["via"] == "registry":
            bl = BL.get_reinforce_baseline("exponential", beta=beta) if beta != 0.0 \
                else BL.get_reinforce_baseline("mean")
        else:
            bl = BL.ExponentialBaseline(beta=beta)
    ref = R.EMA(beta)
    scale = 0.0
    for t in range(plan["n_ops"]):
        x, vals, desc = _batch(run)
        with_grad = run.chooser.pick(4) == 0
        if with_grad:
            x.requires_grad_(True)
        run.ops_summary.append(desc)
        run.tick()
        run.probe("ema_eval")
        with run.guard(scope, "eval", op=t):
            v, loss = bl.eval(None, x, None)
        want = ref.update(vals)
        scale = max(scale, max(abs(a) for a in vals))
        got = float(v)
        run.log.add("ema", t, desc["size"], _hex(got))
        tol = 1e-5 * max(1.0, scale) * math.sqrt(t + 1)
        if not (abs(got - want) <= tol):
            run.violate(scope, "ema_value", f"eval {t}: returned {got!r}, recurrence v=beta*v+(1-beta)*mean gives "
                        f"{want!r} (beta={beta}, tol {tol:.3g})", constraint="recurrence", op=t, got=got, ref=want,
                        beta=beta, ops=run.ops_summary[-4:])
            raise StopRun()
        if isinstance(loss, torch.Tensor):
            loss_v = float(loss)
        else:
            loss_v = float(loss)
        if loss_v != 0.0:
            run.violate(scope, "ema_loss", f"eval {t}: baseline loss {loss_v!r}, stated 'no loss'", constraint="loss",
                        op=t, got=loss_v)
            raise StopRun()
        if isinstance(v, torch.Tensor) and v.requires_grad:
            run.violate(scope, "ema_detached", f"eval {t}: returned baseline value requires grad", constraint="detach",
                        op=t)
            raise StopRun()
        if with_grad:
            run.probe("ema_reward_with_grad")
        run.state("ema", beta, desc["size"], desc["kind"])
    if plan["n_ops"] >= 3:
        run.nontrivial = True


# ------------------------------------------------------------------------------------------------
# WarmupBaseline
# ------------------------------------------------------------------------------------------------
def _run_warmup(run):
    from rl4co.models.rl.reinforce import baselines as BL

    plan = run.plan
    n, beta = plan["n_epochs"], plan["beta"]
    scope = "WarmupBaseline"
    inner = _make_stub()
    via = plan.get("via", "class")
    with run.guard(scope, f"construct ({via})"):
        if via == "registry_warmup":
            wb = BL.get_reinforce_baseline("warmup", baseline=inner, n_epochs=n, warmup_exp_beta=beta)
        elif via == "factory_rollout":
            wb = BL.get_reinforce_baseline("rollout", n_epochs=n, exp_beta=beta)
            if not isinstance(wb, BL.WarmupBaseline):
                run.violate(scope, "warmup_alpha", f"the 'rollout' registry entry returned {type(wb).__name__}, not a "
                            "warm-up around the rollout baseline", constraint="factory_type")
                raise StopRun()
            wb.baseline = inner  # the greedy-rollout part is C16/C17's; here: the warm-up weight and its EMA
        else:
            wb = BL.WarmupBaseline(inner, n_epochs=n, warmup_exp_beta=beta)
    run.probe("warmup_via_" + via)
    ref = R.Warmup(n, beta)
    rd = run.streams.get("data")
    last_epoch = -1
    scale = 0.0
    n_state = 0
    n_cb = 0
    if float(wb.alpha) != 0.0:
        run.violate(scope, "warmup_alpha", f"alpha starts at {wb.alpha!r}, stated 0", constraint="alpha0")
        raise StopRun()
    for t in range(plan["n_ops"]):
        p_cb = plan["p_callback"]
        op = run.chooser.pick(2, lambda: 1 if run.chooser.rng.random() < p_cb else 0)
        run.tick()
        if op == 1:
            # ---- epoch callback -------------------------------------------------------------
            if plan["history"] == "consecutive":
                how = 0
            else:
                how = run.chooser.pick(5, lambda: run.chooser.rng.choice([0, 0, 0, 1, 2, 3, 4]))
            if how == 0:
                e = last_epoch + 1
            elif how == 1:
                e = max(last_epoch, 0)
                run.probe("warmup_repeat")
            elif how == 2:
                e = 0
                run.probe("warmup_restart")
            else:
                e = last_epoch + how - 1  # skip one or two epochs
                run.probe("warmup_skip")
            alpha_before = ref.alpha
            with run.guard(scope, "epoch_callback", op=t, epoch=e):
                wb.epoch_callback(None, env=None, epoch=e, batch_size=4, device="cpu", dataset_size=4)
            ref.callback(e)
            last_epoch = e
            n_state += 1
            n_cb += 1
            got = float(wb.alpha)
            run.log.add("callback", t, e, _hex(got))
            run.ops_summary.append({"op": "callback", "epoch": e, "alpha": got})
            unstated = e >= n and alpha_before < 1.0
            if unstated:
                # only reachable by skipping epoch numbers: behaviour not stated -> observation
                run.probe("obs_skip_past_warmup_alpha_lt_1")
                run.log.add("observation", "epoch >= n_epochs with alpha < 1", e, n, _hex(got))
            if got != ref.alpha:
                run.violate(scope, "warmup_alpha", f"after epoch_callback(epoch={e}) alpha = {got!r}, stated "
                            f"(epoch+1)/n_epochs = {ref.alpha!r} (n_epochs={n})", constraint="alpha", op=t, epoch=e,
                            n_epochs=n, got=got, ref=ref.alpha)
                raise StopRun()
            if not unstated and got != ref.stated_alpha(e):
                run.violate(scope, "warmup_alpha", f"epoch {e}: alpha = {got!r}, a weight moving from "
                            f"zero to one over {n} epochs gives {ref.stated_alpha(e)!r}", constraint="alpha_schedule",
                            op=t, epoch=e, n_epochs=n, got=got, ref=ref.stated_alpha(e))
                raise StopRun()
            if got == 1.0:
                run.probe("warmup_reached_one")
            if inner.n_cb != n_cb or inner.cb_epochs[-1:] != [e]:
                run.probe("obs_inner_callback_not_forwarded")
            run.state("warmup", "cb", n, e)
            continue
        # ---- eval ---------------------------------------------------------------------------
        x, vals, desc = _batch(run)
        k = len(vals)
        mag = desc["mag"]
        per_row = run.chooser.pick(2) == 1 and len(x.shape) == 1
        if per_row:
            iv = [rd.gauss(0.0, mag) for _ in range(k)]
            inner_t = torch.tensor(iv, dtype=torch.float32)
            iv = [float(a) for a in inner_t.tolist()]
        else:
            iv0 = rd.gauss(0.0, mag)
            inner_t = torch.tensor(iv0, dtype=torch.float32)
            iv = float(inner_t)
        il_kind = run.chooser.pick(3)
        il = 0.0 if il_kind == 0 else abs(rd.gauss(0.0, mag))
        il_obj = torch.tensor(il, dtype=torch.float32) if il_kind == 2 else il
        il = float(il_obj)
        inner.next = (inner_t, il_obj)
        a = ref.alpha
        with run.guard(scope, "eval", op=t, alpha=a):
            v, loss = wb.eval(None, x, None)
        want_v, want_l = ref.value(vals, iv, il)
        scale = max(scale, max(abs(b) for b in vals), max(abs(b) for b in (iv if per_row else [iv])))
        n_state += 1
        if 0 < a < 1:
            run.probe("warmup_mix")
        desc.update({"op": "eval", "alpha": a, "per_row": per_row})
        run.ops_summary.append(desc)
        tol = 1e-5 * max(1.0, scale) * math.sqrt(t + 1)
        got_v = [float(b) for b in torch.as_tensor(v).reshape(-1).tolist()]
        want_list = want_v if isinstance(want_v, list) else [want_v]
        run.log.add("eval", t, _hex(a), [_hex(b) for b in got_v[:4]])
        if len(got_v) != len(want_list):
            run.violate(scope, "warmup_value", f"eval {t}: value has {len(got_v)} entries, expected {len(want_list)} "
                        f"(alpha={a})", constraint="shape", op=t, alpha=a)
            raise StopRun()
        for i, (g, w) in enumerate(zip(got_v, want_list)):
            if not (abs(g - w) <= tol):
                run.violate(scope, "warmup_value", f"eval {t}: value[{i}] = {g!r}, stated alpha*inner+(1-alpha)*EMA = "
                            f"{w!r} (alpha={a}, n_epochs={n}, beta={beta}, tol {tol:.3g})", constraint="convex_mix",
                            op=t, alpha=a, got=g, ref=w, n_epochs=n, beta=beta, ops=run.ops_summary[-5:])
                raise StopRun()
        got_l = float(loss)
        if not (abs(got_l - want_l) <= 1e-5 * max(1.0, abs(want_l))):
            run.violate(scope, "warmup_loss", f"eval {t}: loss {got_l!r}, stated alpha*inner_loss = {want_l!r} "
                        f"(alpha={a})", constraint="convex_mix_loss", op=t, alpha=a, got=got_l, ref=want_l)
            raise StopRun()
        run.state("warmup", "eval", n, _hex(a), desc["size"])
    if n_state >= 3:
        run.nontrivial = True


# ------------------------------------------------------------------------------------------------
# canary mutants (in-memory regressions of the anchors; DESIGN Appendix C row C20)
# ------------------------------------------------------------------------------------------------
@contextlib.contextmanager
def _swap(obj, attr, new):
    old = obj.__dict__[attr] if attr in obj.__dict__ else getattr(obj, attr)
    setattr(obj, attr, new)
    try:
        yield
    finally:
        setattr(obj, attr, old)


def _scaler_call_with(divisor):
    """RewardScaler.__call__ with the variance divisor replaced."""
    def call(self, scores):
        if self.scale is None:
            return scores
        elif isinstance(self.scale, int):
            return scores / self.scale
        self.update(scores)
        kw = dict(dtype=scores.dtype, device=scores.device)
        std = (self.M2 / divisor(self.count)).float().sqrt()
        f = std.to(**kw) + torch.finfo(scores.dtype).eps
        if self.scale == "norm":
            scores = (scores - self.mean.to(**kw)) / f
        elif self.scale == "scale":
            scores /= f
        else:
            raise ValueError("unknown scaling operation requested: %s" % self.scale)
        return scores
    return call


def _canary_welford_population_std():
    """std from M2 / count instead of M2 / (count - 1) (output only; the accumulators stay right)."""
    from rl4co.models.rl.common.utils import RewardScaler

    return _swap(RewardScaler, "__call__", _scaler_call_with(lambda c: c))


def _canary_welford_delta2_old_mean():
    """delta2 computed from the old mean: M2 += delta * delta."""
    from rl4co.models.rl.common.utils import RewardScaler

    @torch.no_grad()
    def update(self, batch):
        batch = batch.reshape(-1)
        self.count += len(batch)
        delta = batch - self.mean
        self.mean += (delta / self.count).sum()
        self.M2 += (delta * delta).sum()

    return _swap(RewardScaler, "update", update)


def _canary_welford_per_batch_count():
    """count incremented by one per batch instead of by the number of values."""
    from rl4co.models.rl.common.utils import RewardScaler

    @torch.no_grad()
    def update(self, batch):
        batch = batch.reshape(-1)
        self.count += 1
        delta = batch - self.mean
        self.mean += (delta / self.count).sum()
        delta2 = batch - self.mean
        self.M2 += (delta * delta2).sum()

    return _swap(RewardScaler, "update", update)


def _canary_norm_forgets_mean():
    """'norm' divides by the std but does not subtract the running mean."""
    from rl4co.models.rl.common.utils import RewardScaler

    def call(self, scores):
        if self.scale is None:
            return scores
        elif isinstance(self.scale, int):
            return scores / self.scale
        self.update(scores)
        kw = dict(dtype=scores.dtype, device=scores.device)
        std = (self.M2 / (self.count - 1)).float().sqrt()
        f = std.to(**kw) + torch.finfo(scores.dtype).eps
        return scores / f

    return _swap(RewardScaler, "__call__", call)


def _canary_ema_beta_swapped():
    """v = (1 - beta) * v + beta * mean."""
    from rl4co.models.rl.reinforce.baselines import ExponentialBaseline

    def ev(self, td, reward, env=None):
        if self.v is None:
            v = reward.mean()
        else:
            v = (1.0 - self.beta) * self.v + self.beta * reward.mean()
        self.v = v.detach()
        return self.v, 0

    return _swap(ExponentialBaseline, "eval", ev)


def _canary_ema_not_detached():
    """the moving average keeps the graph of the rewards."""
    from rl4co.models.rl.reinforce.baselines import ExponentialBaseline

    def ev(self, td, reward, env=None):
        if self.v is None:
            v = reward.mean()
        else:
            v = self.beta * self.v + (1.0 - self.beta) * reward.mean()
        self.v = v
        return self.v, 0

    return _swap(ExponentialBaseline, "eval", ev)


def _canary_warmup_alpha_late():
    """alpha = epoch / n_epochs (one epoch late, never reaches 1 inside the warm-up)."""
    from rl4co.models.rl.reinforce.baselines import WarmupBaseline

    def cb(self, *args, **kw):
        self.baseline.epoch_callback(*args, **kw)
        if kw["epoch"] < self.n_epochs:
            self.alpha = kw["epoch"] / float(self.n_epochs)

    return _swap(WarmupBaseline, "epoch_callback", cb)


def _canary_warmup_weights_swapped():
    """(1 - alpha) * inner + alpha * EMA."""
    from rl4co.models.rl.reinforce.baselines import WarmupBaseline

    def ev(self, td, reward, env=None):
        if self.alpha == 1:
            return self.baseline.eval(td, reward, env)
        if self.alpha == 0:
            return self.warmup_baseline.eval(td, reward, env)
        v_b, l_b = self.baseline.eval(td, reward, env)
        v_wb, l_wb = self.warmup_baseline.eval(td, reward, env)
        return ((1 - self.alpha) * v_b + self.alpha * v_wb, (1 - self.alpha) * l_b + self.alpha * l_wb)

    return _swap(WarmupBaseline, "eval", ev)


C20.CANARIES = {
    "welford_population_std": _canary_welford_population_std,
    "welford_delta2_old_mean": _canary_welford_delta2_old_mean,
    "welford_per_batch_count": _canary_welford_per_batch_count,
    "norm_forgets_mean": _canary_norm_forgets_mean,
    "ema_beta_swapped": _canary_ema_beta_swapped,
    "ema_not_detached": _canary_ema_not_detached,
    "warmup_alpha_late": _canary_warmup_alpha_late,
    "warmup_weights_swapped": _canary_warmup_weights_swapped,
}
