"""C10 -- decoding distributions are proper and confined to feasible actions.

A run = one environment configuration x 1-4 generator instances x one scorer (scripted decoder in one of
its five logit modes, or a tiny real AttentionModelPolicy) x 3-5 real decoding episodes
(``ConstructivePolicy.forward`` with greedy / sampling / multistart_* / multi-sample / evaluate) each
under its own temperature, tanh clipping, top-k and top-p.  Masks evolve as episodes do, so single
feasible actions, fewer feasible actions than k and nuclei falling on masked entries arise by themselves.

Every ``process_logits`` call is tapped and each row of it is checked against the float64 reference
(rlsim/ref/decoding.py) *inside* the library's step, before the selection; the selected actions are
checked after the call.  Sampling episodes may carry a sampler fault (the next j in {1,2,3} multinomial
draws of a scheduled row return a masked, zero-probability index)."""
from __future__ import annotations

import copy

import numpy as np
import torch

from .. import envs as E
from ..kernel import HarnessError, StopRun, Streams
from ..ref import decoding as R
from ..scripted import MODES, ProcessLogitsTap, SamplerFault, StrategyCapture, make_scripted_policy

# environments driven with the scripted decoder / with the tiny real AM (DESIGN Appendix B)
SCRIPTED_ENVS = ["tsp", "atsp", "cvrp", "cvrptw", "sdvrp", "svrp", "op", "pctsp", "spctsp", "pdp", "mtsp",
                 "mtvrp", "mdcpdp", "fjsp", "jssp", "ffsp", "smtwtp", "flp", "mcp"]
AM_ENVS = ["tsp", "cvrp", "cvrptw", "sdvrp", "svrp", "op", "pctsp", "spctsp", "pdp", "mtvrp", "smtwtp"]
MULTISTART_ENVS = ["tsp", "atsp", "cvrp", "cvrptw", "sdvrp", "op", "pctsp", "spctsp", "pdp", "mtsp", "mtvrp",
                   "flp", "mcp"]

# FFSP parks per-episode index tables sized to the reset batch on the env object: batchify after reset is
# not something the environment supports (C04 excludes the `replicate` perturbation for it as well)
NO_REPLICATION = ["ffsp"]

TEMPERATURES = [0.05, 0.2, 0.5, 1.0, 1.0, 2.0, 5.0, 20.0]
TANH = [0, 0, 1, 10]
TOP_K = [0, 0, 1, 2, 3, "n", "n+5"]
TOP_P = [0, 0, 0.1, 0.5, 0.9, 0.99, 1.0]
SHIFTS = [0.5, -2.0, 8.0, -0.25, 64.0]
DECODE = ["greedy", "sampling", "sampling", "multistart_greedy", "multistart_sampling", "multisample"]


def tiny_am(env_name: str, seed: int):
    from rl4co.models import AttentionModelPolicy

    torch.manual_seed(seed)
    return AttentionModelPolicy(env_name=env_name, embed_dim=32, num_encoder_layers=1, num_heads=2,
                                feedforward_hidden=64).eval()


class C10:
    prop = "C10"
    level = "exploration"
    chunk = 4
    rule = ("run = one environment (seeded choice over 19 constructive envs) x 1-4 generator instances x one "
            "scorer (scripted decoder in mode gaussian/ties/huge/flat/one_dominant, or a tiny real "
            "AttentionModelPolicy) x 3-5 real decoding episodes, each with its own decode type (greedy, "
            "sampling, multistart_greedy, multistart_sampling, multi-sample, and an evaluate replay of the "
            "episode's own actions), temperature in {0.05..20}, tanh clipping in {0,1,10}, top_k in "
            "{0,1,2,3,n,n+5}, top_p in {0,.1,.5,.9,.99,1}; sampling episodes carry a sampler fault (j in "
            "{1,2,3} zero-probability draws on a scheduled row at a scheduled call) with probability 1/2. "
            "Non-trivial = a filter actually removed a feasible action, a single-feasible-action step was "
            "seen or a fault fired; distinct = distinct event-log digest.")
    components_real = ["rl4co.utils.decoding.process_logits / modify_logits_for_top_k_filtering / "
                       "modify_logits_for_top_p_filtering", "DecodingStrategy.step/greedy/sampling, Greedy, "
                       "Sampling, Evaluate, pre/post decoder hooks", "ConstructivePolicy.forward loop",
                       "rl4co environments (reset/step/masks) and generators",
                       "AttentionModelPolicy (embed 32, 1 layer, random weights, eval mode)"]
    components_stub = ["ScriptedDecoder (per-instance pseudo-random logit tables) instead of a trained "
                       "network in ~75% of runs", "torch.multinomial under SamplerFault (returns a masked "
                       "index for a scheduled row for j calls)"]
    assumptions = ["The property's 'for any logits, any mask' algebra is a pure-function claim; the simulator "
                   "reaches it only through the (logits, mask, knob) triples that flow through simulated "
                   "episodes (five scripted logit modes + a random-weight AttentionModel, masks produced by "
                   "real environments).", "mask_logits=True throughout (the property speaks of masked decoding)",
                   "CPU float32 kernels; reference in float64 from the same float32 logits",
                   "When top-k and top-p are both active the nucleus-mass clause is read against the "
                   "distribution entering the nucleus filter (masked softmax restricted to the reference "
                   "top-k set), because the two clauses contradict each other otherwise (k=1, p=.9, flat).",
                   "Rows whose mask is all False (finished rows of environments that offer no padding action) "
                   "are outside the property's quantifier and skipped (counted as probe all_false_mask_row).",
                   "The injected sampler fault only returns env-masked indices (zero probability AND "
                   "infeasible), which is the fault the library's retry loop targets.",
                   "extreme-draw on the sampler's internal uniform is not injected (torch.multinomial does "
                   "not expose it)."]
    level_note = ("thin for the 'all real logits' algebra: a pure-function claim, reached only through the values "
                  "that flow through simulated episodes and under the sampler fault")
    required_probes = ["single_feasible", "fewer_feasible_than_k", "nucleus_on_masked", "tie_at_kth",
                       "topk_active", "nucleus_active", "sampler_retried", "shift_checked", "evaluate_replay"]
    excluded = ["dpp/mdpp (stub PDN data; decoding is environment-agnostic)",
                "AttentionModelPolicy x {atsp, flp, mcp, mdcpdp, mtsp, fjsp, jssp, ffsp}: no / inconsistent "
                "embeddings or known crashes (DESIGN 7.4, 7.17) - scripted decoder only",
                "multi-start outside the environments that define a start rule (Appendix B)",
                "evaluate replay after multistart_* (passing the forced start through the policy's own "
                "distribution is C11's quirk, DESIGN 5 C11)", "mtsp at batch size 1 (get_reward 0-dim, DESIGN 7)",
                "multi-sample on ffsp (env-global index tables are sized at reset; batchify afterwards is "
                "unsupported by the environment)"]
    CANARIES = {}

    # ---------------------------------------------------------------------------------------------
    @staticmethod
    def make_plan(run_seed: int, tier: str) -> dict:
        st = Streams(run_seed)
        rc = st.get("config")
        if rc.random() < 0.012 and "tsp" in E.only_filter(SCRIPTED_ENVS):
            # wide action space (more than 128 actions, what large instances and the improvement policies'
            # flattened move spaces have) with a flat distribution: the nucleus must still hold mass p of ALL actions
            n = rc.choice([130, 150, 200])
            cfg = {"env": "tsp", "n": n, "kw": {}, "gen": {"num_loc": n}}
            rows = E.gen_rows(E.make_env(cfg), cfg, 1, st.torch_seed("instances"))
            ep = {"decode": "sampling", "temperature": rc.choice([1.0, 5.0, 20.0]), "tanh": rc.choice([0, 10]),
                  "top_k": 0, "top_p": rc.choice([0.5, 0.9, 0.99]), "k": 2, "torch_seed": rc.randrange(1 << 30),
                  "shift": 0.0, "fault": False, "evaluate": False}
            return {"cfg": cfg, "instances": [E.enc_row(r) for r in rows], "episodes": [ep], "wide": True,
                    "scorer": {"kind": "scripted", "mode": rc.choice(["flat", "gaussian"]), "seed": rc.randrange(1 << 30)}}
        use_am = rc.random() < 0.25
        pool = E.only_filter(AM_ENVS if use_am else SCRIPTED_ENVS)
        name = pool[rc.randrange(len(pool))]
        if use_am and name not in AM_ENVS:
            use_am = False
        cfg = E.sample_cfg(name, rc, tier, small=True)
        if cfg["n"] > 12 and tier != "thorough":
            cfg = E.sample_cfg(name, rc, tier, small=True)
        if use_am:
            cfg = E.for_network(cfg)
        env = E.make_env(cfg)
        b = rc.choice([1, 2, 2, 3, 4])
        if name == "mtsp":
            b = max(b, 2)
        rows = E.gen_rows(env, cfg, b, st.torch_seed("instances"))
        scorer = {"kind": "am", "seed": rc.randrange(1 << 30)} if use_am else \
            {"kind": "scripted", "mode": rc.choice(MODES), "seed": rc.randrange(1 << 30)}
        episodes = []
        layout_draw = rc.random()
        for _ in range(rc.randint(3, 5)):
            dt = rc.choice(DECODE)
            if dt.startswith("multistart") and name not in MULTISTART_ENVS:
                dt = "sampling" if "sampling" in dt else "greedy"
            if dt == "multisample" and name in NO_REPLICATION:
                dt = "sampling"
            ep = {"decode": dt, "temperature": rc.choice(TEMPERATURES), "tanh": rc.choice(TANH),
                  "top_k": rc.choice(TOP_K), "top_p": rc.choice(TOP_P), "k": rc.randint(2, 3),
                  "torch_seed": rc.randrange(1 << 30), "shift": rc.choice(SHIFTS),
                  "fault": bool("sampl" in dt and rc.random() < 0.5),
                  "evaluate": bool(dt in ("greedy", "sampling", "multisample") and rc.random() < 0.4
                               and not (use_am and dt == "multisample"))}
            episodes.append(ep)
        if not use_am and layout_draw < 0.25:
            scorer["layout"] = "transposed"  # the decoder hands its scores over as a non-contiguous view
        return {"cfg": cfg, "instances": [E.enc_row(r) for r in rows], "scorer": scorer, "episodes": episodes}

    @staticmethod
    def sample(run):
        p = run.plan
        return {"env": p["cfg"], "B": len(p["instances"]), "scorer": p["scorer"], "episodes": p["episodes"],
                "instance0": p["instances"][0], "outcomes": getattr(run, "outcomes", None)}

    @staticmethod
    def shrink(plan):
        for i in range(len(plan["episodes"])):
            if len(plan["episodes"]) > 1:
                p = copy.deepcopy(plan)
                del p["episodes"][i]
                yield p
        if len(plan["instances"]) > 1 and not (plan["cfg"]["env"] == "mtsp" and len(plan["instances"]) <= 2):
            for i in range(len(plan["instances"])):
                p = copy.deepcopy(plan)
                del p["instances"][i]
                yield p
        for i, ep in enumerate(plan["episodes"]):
            for key, neutral in (("fault", False), ("evaluate", False), ("top_k", 0), ("top_p", 0), ("tanh", 0),
                                 ("temperature", 1.0)):
                if ep[key] != neutral:
                    p = copy.deepcopy(plan)
                    p["episodes"][i][key] = neutral
                    yield p

    # ---------------------------------------------------------------------------------------------
    @staticmethod
    def execute(run):
        plan = run.plan
        cfg = plan["cfg"]
        name = cfg["env"]
        rows = [E.dec_row(r) for r in plan["instances"]]
        with run.guard(name, "construct env"):
            env = E.make_env(cfg)
        sc = plan["scorer"]
        if sc["kind"] == "am":
            with run.guard(name, "construct AttentionModelPolicy", promise=False):
                policy = tiny_am(name, sc["seed"])
            scope = f"am/{name}"
        else:
            policy = make_scripted_policy(name, sc["mode"], sc["seed"])
            scope = f"scripted-{sc['mode']}/{name}"
            if sc.get("layout") == "transposed":
                policy.decoder.mem_layout = "transposed"
                run.probe("noncontiguous_logits")
        run.outcomes = []
        run.stats[f"runs:{scope}"] += 1
        for ei, ep in enumerate(plan["episodes"]):
            _episode(run, env, cfg, rows, policy, scope, ei, ep)


# ------------------------------------------------------------------------------------------------
class _StepMonitor:
    """Checks every tapped process_logits call row by row (invoked from inside the library's step)."""

    def __init__(self, run, scope, ep, tap_holder, fault=None, phase="decode", capture=None, dt="", dk=None):
        self.run, self.scope, self.ep, self.fault, self.phase = run, scope, ep, fault, phase
        self.tap_holder = tap_holder
        self.capture, self.dt, self.dk = capture, dt, dk
        self.prev = None
        self.last_mask = None
        self.calls_at = []       # multinomial calls seen when tap call t started
        self.fired_at = []       # faults fired when tap call t started

    def masked_candidates(self, call_no, row, probs_row):
        if self.last_mask is None:
            return []
        return torch.nonzero(~self.last_mask[row]).flatten().tolist()

    def __call__(self, rec):
        run, scope, ep = self.run, self.scope, self.ep
        if self.prev is not None and self.capture is not None and self.capture.last is not None:
            # the action the strategy selected at the previous step, checked before it can derail the episode
            check_selection(run, scope, self.dt, self.dk, self.prev, self.capture.last.actions[-1], self.fault)
        self.prev = rec
        self.last_mask = rec.mask
        if not bool(rec.mask.any(-1).all()):
            # a row without any admitted action is outside the property's quantifier (C02's business); the
            # library would turn it into NaN probabilities, so the run is abandoned here
            run.probe("all_false_mask_row")
            raise StopRun()
        if self.fault is not None:
            self.calls_at.append(self.fault.calls)
            self.fired_at.append(len(self.fault.fired))
        if rec.mask is None:
            raise HarnessError("process_logits called without a mask although mask_logits=True")
        logits = rec.logits.numpy()
        mask = rec.mask.numpy()
        lp = rec.logprobs.numpy()
        knobs = rec.knobs()
        if self.dk is not None:
            # the distribution must be built with the knobs the caller configured, at every step of the rollout:
            # a filter that is skipped or switched off on the way (for greedy, after a narrow step, ...) hands
            # process_logits other arguments than the configured ones
            for key in ("temperature", "top_p", "top_k", "tanh_clipping"):
                if key in self.dk and float(knobs[key] or 0) != float(self.dk[key] or 0):
                    run.violate(scope, "step_distribution", f"step {rec.n} ({self.phase}, {self.dt}): process_logits is "
                                f"called with {key}={knobs[key]!r}, the caller configured {self.dk[key]!r}",
                                constraint="knob_not_applied:" + key, step=rec.n, configured=self.dk, applied=knobs,
                                decode=self.dt)
                    raise StopRun()
        t = rec.n
        shifted = None
        if not knobs["tanh_clipping"]:
            c = float(ep["shift"])
            shifted = self.tap_holder[0].call(rec.logits + c, rec.mask, **knobs).numpy()
        for r in range(logits.shape[0]):
            if not mask[r].any():
                run.probe("all_false_mask_row")
                continue
            fails, notes = R.check_step(logits[r], mask[r], lp[r], knobs["temperature"], knobs["top_p"],
                                        knobs["top_k"], knobs["tanh_clipping"])
            for nte in sorted(notes):
                run.probe(nte)
            if notes & {"topk_active", "nucleus_active", "single_feasible"}:
                run.nontrivial = True
            run.state(scope, int(mask[r].sum()), int(np.isfinite(lp[r]).sum()), knobs["top_k"], knobs["top_p"])
            if fails:
                cons, msg, det = fails[0]
                run.violate(scope, "step_distribution", f"step {t} row {r} ({self.phase}): {msg}",
                            constraint=cons, step=t, row=r, phase=self.phase, knobs=knobs,
                            logits=[float(x).hex() for x in logits[r]], mask=[bool(x) for x in mask[r]],
                            logprobs=[float(x) for x in lp[r]], decode=ep["decode"], **det)
                raise StopRun()
            if shifted is not None:
                self._shift(rec, r, logits[r], mask[r], lp[r], shifted[r], knobs)

    def _shift(self, rec, r, logits, mask, lp, lps, knobs):
        run, ep = self.run, self.ep
        c = float(ep["shift"])
        run.probe("shift_checked")
        tol = R.shift_tolerance(logits[mask], c, knobs["temperature"])
        fa, fb = np.isfinite(lp), np.isfinite(lps)
        if (fa != fb).any():
            # the filters may cut at a different place when two scores / a cumulative mass are within
            # float32 rounding of the threshold
            if _cut_is_borderline(logits, mask, knobs, tol):
                run.probe("indeterminate_shift_cut")
                return
            run.violate(self.scope, "shift_invariance", f"step {rec.n} row {r}: support changes when {c} is "
                        f"added to all logits", constraint="shift_support", step=rec.n, row=r, shift=c,
                        knobs=knobs, logits=[float(x).hex() for x in logits], mask=[bool(x) for x in mask])
            raise StopRun()
        both = fa & fb
        d = float(np.abs(lp[both] - lps[both]).max()) if both.any() else 0.0
        if d > tol:
            run.violate(self.scope, "shift_invariance", f"step {rec.n} row {r}: log-probabilities move by {d!r} "
                        f"(> {tol!r}) when {c} is added to all logits", constraint="shift_value", step=rec.n,
                        row=r, shift=c, diff=d, knobs=knobs, logits=[float(x).hex() for x in logits],
                        mask=[bool(x) for x in mask])
            raise StopRun()


def check_selection(run, scope, dt, dk, rec, a, fault):
    """greedy returns a maximiser / sampling returns a positive-probability action / nothing masked."""
    sampling = "sampl" in dt
    t = rec.n
    for r in range(rec.mask.shape[0]):
        ar = int(a[r])
        lp = rec.logprobs[r]
        if not bool(rec.mask[r, ar]):
            run.violate(scope, "selected_feasible", f"{dt}: step {t} row {r} selected masked action {ar}",
                        constraint="infeasible_action", step=t, row=r, action=ar, decode=dt, knobs=dk,
                        mask=[bool(x) for x in rec.mask[r]], fault=fault.fired if fault else None)
            raise StopRun()
        if sampling and not (float(lp[ar]) > float("-inf") and float(lp[ar].exp()) > 0.0):
            run.violate(scope, "sampled_positive", f"{dt}: step {t} row {r} sampled action {ar} of probability "
                        f"zero", constraint="zero_probability_action", step=t, row=r, action=ar, decode=dt,
                        knobs=dk, logprobs=[float(x) for x in lp], fault=fault.fired if fault else None)
            raise StopRun()
        if "greedy" in dt and float(lp[ar]) != float(lp.max()):
            run.violate(scope, "greedy_maximiser", f"{dt}: step {t} row {r} chose action {ar} with log-prob "
                        f"{float(lp[ar])!r}, maximum is {float(lp.max())!r}", constraint="not_a_maximiser",
                        step=t, row=r, action=ar, decode=dt, knobs=dk, logprobs=[float(x) for x in lp])
            raise StopRun()


def _cut_is_borderline(logits, mask, knobs, tol) -> bool:
    z = R.scores(logits, mask, knobs["temperature"], knobs["tanh_clipping"])
    fin = np.sort(z[np.isfinite(z)])
    if ((knobs["top_k"] and knobs["top_k"] > 0) or (knobs["top_p"] and 0 < knobs["top_p"] < 1)) and len(fin) > 1:
        # two scores closer than the rounding of the shift can tie or swap: which of them a rank- or
        # mass-based cut keeps is then decided by sort order, not by the distribution
        gaps = np.diff(fin)
        if ((gaps > 0) & (gaps <= 2 * tol + 1e-6)).any():
            return True
    if knobs["top_p"] and 0 < knobs["top_p"] < 1:
        lp = R.log_softmax(z)
        cum = np.cumsum(np.sort(np.exp(lp[np.isfinite(lp)])))
        if (np.abs(cum - (1 - knobs["top_p"])) <= 1e-5 + 4 * tol).any():
            return True
    return False


# ------------------------------------------------------------------------------------------------
def _episode(run, env, cfg, rows, policy, scope, ei, ep):
    from rl4co.utils.ops import batchify

    name = cfg["env"]
    B = len(rows)
    with run.guard(scope, "env.reset", promise=False):
        td = E.reset(env, cfg, rows)
    n_act = int(td["action_mask"].shape[-1])
    top_k = {"n": n_act, "n+5": n_act + 5}.get(ep["top_k"], ep["top_k"])
    dk = {"temperature": ep["temperature"], "tanh_clipping": ep["tanh"], "top_k": top_k, "top_p": ep["top_p"]}
    dt = ep["decode"]
    k = 1
    if dt == "multisample":
        k = ep["k"]
        kw = dict(decode_type="sampling", num_samples=k, **dk)
    elif dt.startswith("multistart"):
        # never ask for more starts than the environment's rule offers (beyond that is C12's ground)
        with run.guard(scope, "env.get_num_starts", promise=False):
            k = min(ep["k"], int(env.get_num_starts(td)))
        if name == "op" and not bool(td["action_mask"][:, 1:k + 1].all()):
            k = 1  # unreachable start nodes: what the start rule does then is C12's clause (DESIGN 7.5)
        if k < 2:
            k, dt = 1, dt.replace("multistart_", "")
            kw = dict(decode_type=dt, **dk)
        else:
            kw = dict(decode_type=dt, num_starts=k, **dk)
    else:
        kw = dict(decode_type=dt, **dk)
    sampling = "sampl" in dt
    fault = None
    if ep["fault"] and sampling:
        # placement goes through the chooser (recorded / replayed / minimisable)
        j = 1 + run.chooser.pick(3)
        frow = run.chooser.pick(B * k)
        skip = run.chooser.pick(max(2, n_act + 2))
        fault = SamplerFault(row=frow, faults=j, skip=skip, pick=run.chooser.pick(4))
    holder = [None]
    cap_ = StrategyCapture()
    mon = _StepMonitor(run, scope, ep, holder, fault, capture=cap_, dt=dt, dk=dk)
    if fault is not None:
        fault.candidates = mon.masked_candidates
    run.log.add("episode", ei, dt, dk, k, bool(fault))
    run.stats[f"episodes:{dt}"] += 1
    torch.manual_seed(ep["torch_seed"])
    cap = 6 * n_act + 60
    with ProcessLogitsTap(keep=True, on_call=mon) as tap, cap_:
        holder[0] = tap
        with (fault if fault is not None else _null()):
            with run.guard(scope, f"policy forward decode_type={dt}", decode=dt, knobs=dk, episode=ei):
                out = policy(td, env, phase="test", max_steps=cap, select_best=False,
                             return_sum_log_likelihood=False, **kw)
    T = len(tap.records)
    run.tick(T)
    actions = out["actions"]
    off = 1 if dt.startswith("multistart") else 0
    if actions.shape[0] != B * k or actions.shape[1] != T + off:
        run.violate(scope, "shape", f"actions {tuple(actions.shape)} for batch {B}x{k} and {T} tapped steps",
                    constraint="actions_shape", decode=dt)
        raise StopRun()
    if T >= cap:
        run.probe("step_cap_reached")  # C02's business
    # ---- selection checks: steps 0..T-2 were checked online, the last one and the alignment here --------
    for t, rec in enumerate(tap.records):
        if t == T - 1:
            check_selection(run, scope, dt, dk, rec, actions[:, t + off], fault)
        elif not torch.equal(cap_.last.actions[t + off], actions[:, t + off]):
            run.violate(scope, "shape", f"returned actions differ from the strategy's step buffer at step {t}",
                        constraint="actions_buffer", decode=dt, step=t)
            raise StopRun()
    # ---- bounded liveness of the sampler under faults ----------------------------------------------------
    if fault is not None:
        calls_at = mon.calls_at + [fault.calls]
        fired_at = mon.fired_at + [len(fault.fired)]
        for t in range(T):
            n_calls = calls_at[t + 1] - calls_at[t]
            n_fired = fired_at[t + 1] - fired_at[t]
            if n_fired:
                run.fault("sampler-fault", t, n_fired)
                run.probe("sampler_retried")
                run.nontrivial = True
            if n_calls != n_fired + 1:
                run.violate(scope, "sampler_liveness", f"{dt}: step {t} used {n_calls} multinomial draws for "
                            f"{n_fired} injected bad draws (expected {n_fired + 1})",
                            constraint="draw_count", step=t, calls=n_calls, fired=n_fired, decode=dt)
                raise StopRun()
        if not fault.fired:
            run.probe("fault_not_fired")
    ll = out["log_likelihood"]
    run.log.add("out", ei, actions.tolist(), [float(x).hex() for x in ll.sum(1).tolist()],
                [float(x).hex() for x in out["reward"].flatten().tolist()])
    run.outcomes.append({"episode": ei, "decode": dt, "steps": T, "rows": B * k,
                         "faults_fired": len(fault.fired) if fault else 0})
    # ---- evaluate replay of the episode's own actions ---------------------------------------------------
    if ep["evaluate"] and not dt.startswith("multistart"):
        td2 = E.reset(env, cfg, rows)
        if k > 1:
            td2 = batchify(td2, k)
        holder2 = [None]
        mon2 = _StepMonitor(run, scope, ep, holder2, None, phase="evaluate")
        dec = getattr(policy, "decoder", None)
        lay = dec.layout(num_replicas=k) if (k > 1 and hasattr(dec, "layout")) else _null()
        with ProcessLogitsTap(keep=True, on_call=mon2) as tap2:
            holder2[0] = tap2
            with lay:
                with run.guard(scope, "policy forward decode_type=evaluate", decode="evaluate", knobs=dk,
                               episode=ei):
                    out2 = policy(td2, env, phase="test", max_steps=cap, decode_type="evaluate",
                                  actions=actions, return_sum_log_likelihood=False, **dk)
        run.probe("evaluate_replay")
        run.tick(len(tap2.records))
        if not torch.equal(out2["actions"], actions):
            run.violate(scope, "evaluate_actions", "evaluate mode did not replay the given actions",
                        constraint="evaluate_actions", decode=dt)
            raise StopRun()
        run.log.add("eval", ei, [float(x).hex() for x in out2["log_likelihood"].sum(1).tolist()])


class _null:
    def __enter__(self):
        return self

    def __exit__(self, *a):
        return False


# ------------------------------------------------------------------------------------------------
# canary mutants (sensitivity self-test; in-memory only, never applied to /repo)
# ------------------------------------------------------------------------------------------------
def _patch_decoding(**attrs):
    import contextlib

    import rl4co.utils.decoding as dec

    @contextlib.contextmanager
    def cm():
        old = {k: getattr(dec, k) for k in attrs}
        for k_, v in attrs.items():
            setattr(dec, k_, v)
        try:
            yield
        finally:
            for k_, v in old.items():
                setattr(dec, k_, v)

    return cm()


def _mutant_process_logits(order="tanh_after_mask"):
    import torch.nn.functional as F

    import rl4co.utils.decoding as dec

    def process_logits(logits, mask=None, temperature=1.0, top_p=0.0, top_k=0, tanh_clipping=0,
                       mask_logits=True):
        thr = None
        if order == "topk_unmasked" and top_k > 0:
            kk = min(top_k, logits.size(-1))
            raw = torch.tanh(logits) * tanh_clipping if tanh_clipping > 0 else logits
            thr = torch.topk(raw / temperature, kk)[0][..., -1, None]
        if order != "tanh_after_mask" and tanh_clipping > 0:
            logits = torch.tanh(logits) * tanh_clipping
        if mask_logits:
            assert mask is not None
            logits[~mask] = float("-inf")
        if order == "tanh_after_mask" and tanh_clipping > 0:
            logits = torch.tanh(logits) * tanh_clipping
        if order == "temperature_multiplied":
            logits = logits * temperature
        else:
            logits = logits / temperature
        if top_k > 0:
            if thr is not None:
                logits = logits.masked_fill(logits < thr, float("-inf"))
            else:
                logits = dec.modify_logits_for_top_k_filtering(logits, min(top_k, logits.size(-1)))
        if top_p > 0:
            assert top_p <= 1.0
            logits = dec.modify_logits_for_top_p_filtering(logits, top_p)
        return F.log_softmax(logits, dim=-1)

    return process_logits


def _canary_tanh_after_mask():
    """tanh clipping applied after masking: tanh(-inf) * C = -C, masked actions become eligible."""
    return _patch_decoding(process_logits=_mutant_process_logits("tanh_after_mask"))


def _canary_topk_unmasked():
    """top-k threshold taken from the unmasked logits: masked high scorers push feasible ones out."""
    return _patch_decoding(process_logits=_mutant_process_logits("topk_unmasked"))


def _canary_temperature_multiplied():
    """logits * temperature instead of logits / temperature."""
    return _patch_decoding(process_logits=_mutant_process_logits("temperature_multiplied"))


def _canary_top_p_strict():
    """nucleus keeps the descending prefix with cumulative mass < p (drops the token that crosses p)."""

    def modify(logits, top_p):
        if top_p <= 0.0 or top_p >= 1.0:
            return logits
        sorted_logits, sorted_indices = torch.sort(logits, descending=True)
        cum = sorted_logits.softmax(dim=-1).cumsum(dim=-1)
        remove_sorted = cum >= top_p
        remove_sorted[..., 0] = False  # keep at least the top token (as most implementations do)
        remove = remove_sorted.scatter(-1, sorted_indices, remove_sorted)
        return logits.masked_fill(remove, float("-inf"))

    return _patch_decoding(modify_logits_for_top_p_filtering=modify)


def _canary_sampling_no_retry():
    """the 'Sampled bad values, resampling!' loop (and its assert) dropped from DecodingStrategy.sampling."""
    import contextlib

    from rl4co.utils.decoding import DecodingStrategy

    orig = DecodingStrategy.__dict__["sampling"]

    def sampling(logprobs, mask=None):
        probs = logprobs.exp()
        return torch.multinomial(probs, 1).squeeze(1)

    @contextlib.contextmanager
    def cm():
        DecodingStrategy.sampling = staticmethod(sampling)
        try:
            yield
        finally:
            DecodingStrategy.sampling = orig

    return cm()


def _canary_sampling_single_retry():
    """`while` turned into `if`: one resample only (and the assert dropped)."""
    import contextlib

    from rl4co.utils.decoding import DecodingStrategy

    orig = DecodingStrategy.__dict__["sampling"]

    def sampling(logprobs, mask=None):
        probs = logprobs.exp()
        selected = torch.multinomial(probs, 1).squeeze(1)
        if mask is not None:
            if (~mask).gather(1, selected.unsqueeze(-1)).data.any():
                selected = probs.multinomial(1).squeeze(1)
        return selected

    @contextlib.contextmanager
    def cm():
        DecodingStrategy.sampling = staticmethod(sampling)
        try:
            yield
        finally:
            DecodingStrategy.sampling = orig

    return cm()


def _canary_greedy_unmasked():
    """greedy takes the argmax of exp(logprobs) rounded through float16 (ties broken differently) -- stands
    for a selection that is not a maximiser of the step distribution."""
    import contextlib

    from rl4co.utils.decoding import DecodingStrategy

    orig = DecodingStrategy.__dict__["greedy"]

    def greedy(logprobs, mask=None):
        return logprobs.exp().half().argmax(dim=-1)

    @contextlib.contextmanager
    def cm():
        DecodingStrategy.greedy = staticmethod(greedy)
        try:
            yield
        finally:
            DecodingStrategy.greedy = orig

    return cm()


C10.CANARIES = {
    "tanh_after_mask": _canary_tanh_after_mask,
    "topk_unmasked": _canary_topk_unmasked,
    "temperature_multiplied": _canary_temperature_multiplied,
    "top_p_strict": _canary_top_p_strict,
    "sampling_no_retry": _canary_sampling_no_retry,
    "sampling_single_retry": _canary_sampling_single_retry,
    "greedy_half_precision": _canary_greedy_unmasked,
}
