"""C15 — augmentation preserves costs; evaluation reports true best-of-k results.

Part A (augmentation): ``StateAugmentation`` (symmetric / dihedral8, 2-16 copies, first_aug_identity on
and off) on scheduled coordinate sets of the unit square (generator draws, corners, dyadic grid, tight
clusters, collinear points).  Monitors: layout (copy a of instance b at row a*B+b, other keys
untouched), float64 pairwise distance matrix of every copy == the original's (1e-5), copy 0 identical,
a scheduled action sequence costs the same on every copy (float64 tour length and the environment's own
get_reward).

Part B (evaluation): ``evaluate_policy`` / the five ``*Eval`` classes on a dataset of scheduled size
with a scheduled loader batch size, a tiny real AttentionModel (eval mode) wrapped in a PolicyTap, the
environment's get_reward tapped.  History check per instance i: reported reward == independent
objective of the reported actions on the ORIGINAL instance i (inter-batch zero padding stripped) == max
over the candidates that were rolled out for instance i; reported actions are one of these candidates;
for greedy and augmentation methods the report is never worse than solo greedy decoding.

Part C (instead of B, 20% of the eligible runs): the POMO / SymNCO modules' own test-phase best-of-k.

Part D (instead of B, ~8% of the runs, tsp / cvrp with 5-7 nodes): the test-time SEARCH methods
``ActiveSearch`` and ``EASEmb`` / ``EASLay`` (sampling x multi-start x augmentation over several iterations
with an incumbent per instance), driven without a Trainer (train_util.shim) under a virtual clock that
replaces the name ``time`` inside the search modules.  Every rollout of every iteration is recorded;
per instance: reported max reward == max over ALL recorded rollouts of all iterations, the stored
(zero-padded) solution is one of the rollouts attaining it, and its objective on the ORIGINAL instance
equals the reported reward.  In ~25% of these runs the clock jumps past ``max_runtime`` at a scheduled
iteration: the search must stop there and still report the maximum over the rollouts made so far."""
from __future__ import annotations

import contextlib
import copy
import importlib
import io
import math

import torch

from .. import envs as E
from .. import infer_util as U
from ..kernel import HarnessError, StopRun, Streams, innermost_project_frame, patched
from ..ref.routing import make_ref

ENVS = ["tsp", "cvrp", "sdvrp", "pdp", "op", "pctsp"]  # not mtsp: tasks/eval.py re-scores on the reset state, which mTSP minmax cannot do (observation, DESIGN 10.3)
METHODS = ["greedy", "sampling", "multistart_greedy", "augment", "augment_dihedral_8",
           "multistart_greedy_augment", "multistart_greedy_augment_dihedral_8"]
COPY0_TOL = 1e-6  # coordinates of the identity copy: equal up to float32 rounding of (x - 0.5) + 0.5
COORD_MODES = ["generator", "generator", "corners", "dyadic", "cluster", "collinear"]
SEARCH_ENVS = ["tsp", "cvrp"]  # part D
SEARCH_ALGOS = ["active_search", "active_search", "active_search", "eas_emb", "eas_lay"]


def _tol(ref: float, n: int) -> float:
    return 1e-5 * max(1.0, abs(ref)) * math.sqrt(max(n, 1))


def _hex(x) -> str:
    x = float(x)
    return x.hex() if x == x else "nan"


class C15:
    prop = "C15"
    level = "exploration"
    level_note = ("the isometry sub-claim is a pure function of its input; it is checked as a monitor on the "
                  "coordinate sets and action sequences that flow through the scheduled runs (no schedule or "
                  "fault enters it)")
    chunk = 2
    rule = ("run = one environment of {tsp, cvrp, sdvrp, pdp, op, pctsp} x a dataset of 1-23 generator "
            "instances whose coordinates follow a scheduled pattern (generator / corners / dyadic grid / tight "
            "cluster / collinear) x (A) one StateAugmentation configuration (family, 2-16 copies, "
            "first_aug_identity on/off) applied to a scheduled batch with a scheduled action sequence, and (B) "
            "one evaluation (method of 7, loader batch size that may not divide the dataset, num_starts, "
            "num_augment, samples, select_best, evaluate_policy or the *Eval class directly, env injected or "
            "default-built by the policy) of a tiny seeded AttentionModel in eval mode; or, instead of (B), (C) "
            "one POMO / SymNCO test step, or (D, ~8% of the runs, tsp / cvrp with 5-7 nodes) one test-time "
            "search: ActiveSearch (batch 1) or EASEmb / EASLay (batch 2) over 1-4 of the instances x max_iters "
            "2-5 x augment_size {1,2,4} symmetric or 8 dihedral x policy in train or eval mode x virtual-clock "
            "step x (25%) a clock jump past max_runtime at a scheduled (batch, iteration).  Non-trivial = the "
            "evaluation produced >= 2 candidates for some instance or >= 2 loader chunks, or the search ran >= 2 "
            "iterations; distinct = distinct event-log digest.")
    components_real = ["rl4co.data.transforms (StateAugmentation, symmetric_augmentation, dihedral_8_augmentation)",
                       "rl4co.tasks.eval (evaluate_policy, EvalBase.__call__, GreedyEval, SamplingEval, "
                       "AugmentationEval, GreedyMultiStartEval, GreedyMultiStartAugmentEval)",
                       "rl4co.utils.ops (batchify, unbatchify, gather_by_index, select_start_nodes)",
                       "rl4co.utils.decoding (multistart / multisample hooks, _select_best)",
                       "AttentionModelPolicy (tiny, eval mode)", "env.dataset_cls + DataLoader + collate_fn",
                       "rl4co.models.zoo.pomo / symnco shared_step(phase='test')",
                       "rl4co.models.zoo.active_search.search.ActiveSearch and rl4co.models.zoo.eas.search.EASEmb / "
                       "EASLay (setup, train_dataloader, on_train_batch_start, training_step, on_train_batch_end, "
                       "on_train_epoch_end; real StateAugmentation, multistart sampling, loss backward, "
                       "configure_optimizers), rl4co.models.zoo.eas.decoder.forward_eas",
                       "rl4co.envs reset/step/get_reward of 6 routing environments"]
    components_stub = ["policy weights: seeded random initialisation instead of a trained checkpoint",
                       "PolicyTap wrapper (records forward calls; hands the evaluation's env to the policy when "
                       "the evaluation class passes none - in 30% of the runs without constructor modes the "
                       "policy builds its default env as in real usage)",
                       "env.get_reward tap (records candidate action sets)",
                       "Trainer: train_util.shim (log / log_dict swallowed, optimizers() = the module's own "
                       "configure_optimizers, manual_backward = loss.backward) and a hand-driven batch loop in place "
                       "of Trainer.fit for the POMO / SymNCO test step and the search modules",
                       "virtual clock: the name `time` inside rl4co.models.zoo.active_search.search / "
                       "rl4co.models.zoo.eas.search is replaced by a harness-owned object whose time() advances by a "
                       "fixed scheduled step per call (and by a scheduled jump past max_runtime); no wall clock",
                       "policy.forward wrapper / forward_eas wrapper (record actions and rewards of every search "
                       "iteration)"]
    assumptions = ["CPU float32", "StateAugmentation is applied to a reset state, as every caller in the library "
                   "does (locs then holds the depot at index 0, so depot and customers undergo the same map)",
                   "SamplingEval(select_best=False) is an explicit opt-out of best-of-k: only the objective "
                   "clause is checked there", "solo-greedy clause is skipped (counted) when the identity "
                   "candidate's greedy rollout differs from the solo one (C14's business)",
                   "search (part D): num_parallel_runs = 1, save_path = None, the search modules read the clock "
                   "only through `time.time()` of their module-level `time` name (any other attribute of the "
                   "virtual clock raises a harness error); augment_dihedral implies augment_size 8 (documented "
                   "constraint of StateAugmentation); EAS with batch_size >= 2, augment_size >= 2 and a dataset "
                   "size divisible by the batch size; ActiveSearch's reported maximum is compared exactly (it is "
                   "an element of the recorded rewards), EAS's within the float32 band used for augmented copies "
                   "(its incumbent is re-scored on every augmented copy)"]
    required_probes = ["aug_rows_checked", "eval_partial_chunk", "eval_padding_stripped", "eval_multi_chunk",
                       "best_not_first_candidate", "solo_greedy_compared", "search_checked",
                       "search_later_iteration_worse", "search_clock_jump_stop"]
    excluded = ["mtsp (AttentionModel x mTSP multi-start always raises, DESIGN 7.17), cvrptw/svrp/mtvrp/spctsp: "
                "not in C15's environment list (reward of spctsp depends on hidden stochastic prizes)",
                "StateAugmentation(normalize=True): min-max normalisation is not an isometry by design",
                "StateAugmentation on un-reset data with feats=['locs','depot'] under 'symmetric': each feature "
                "draws its own rotation (observation only, no caller in the library does this)",
                "auto_batch_size=True (batch sizes of thousands)",
                "search: environments other than tsp / cvrp, num_parallel_runs > 1 (EAS: shape error by "
                "construction), save_path (file output), ActiveSearch batch_size > 1 (asserted by the class)",
                "EAS with an effective batch of one instance (batch_size 1 or a last partial batch) or "
                "augment_size 1: training_step raises IndexError at `reward.max(dim=2)` after the bare "
                "`.squeeze()` of the (batch, aug, start) tensors (rl4co/models/zoo/eas/search.py:217-219, 250) - "
                "a crash before anything is reported, the B=1 squeeze family, not a best-of-k matter"]
    CANARIES = {}

    # ---------------------------------------------------------------------------------------------
    @staticmethod
    def make_plan(run_seed: int, tier: str) -> dict:
        st = Streams(run_seed)
        rc = st.get("config")
        thorough = tier == "thorough"
        pool = E.only_filter(ENVS)
        name = pool[rc.randrange(len(pool))]
        cfg = E.sample_cfg(name, rc, tier)
        while cfg["n"] > (20 if thorough else 8) or cfg["n"] < 4:
            cfg = E.sample_cfg(name, rc, tier)
        env = E.make_env(cfg)
        N = rc.randint(1, 23) if thorough else rc.choice([1, 2, 3, 3, 4, 5, 5, 6, 7, 9])
        rows = E.gen_rows(env, cfg, N, st.torch_seed("instances"))
        mode = rc.choice(COORD_MODES)
        if mode != "generator":
            for r in rows:
                _schedule_coords(r, mode, rc)
        n = cfg["n"]
        # ---- part A
        fam = rc.choice(["symmetric", "dihedral8"])
        aug = {"fn": fam, "num_augment": 8 if fam == "dihedral8" else rc.randint(2, 16),
               "first_aug_identity": rc.random() < 0.7, "B": rc.randint(1, min(N, 4)),
               "seed": rc.randrange(1 << 30), "explicit_feats": rc.random() < 0.3}
        # ---- part B
        method = rc.choice(METHODS)
        kmax = {"pdp": n // 2}.get(name, n)
        ev = {"method": method, "batch_size": rc.randint(1, N + 2),
              "num_starts": rc.randint(2, max(2, min(kmax, 5))),
              "num_augment": rc.choice([2, 3, 4, 8]) if not thorough else rc.randint(2, 16),
              "samples": rc.randint(2, 6), "select_best": rc.random() < 0.8,
              "temperature": rc.choice([1.0, 1.0, 0.5, 2.0]),
              "api": rc.choice(["evaluate_policy", "class"]),
              "inject_env": True if (cfg.get("kw") or method == "sampling") else rc.random() < 0.7,
              "seed": rc.randrange(1 << 30), "solo": sorted(rc.sample(range(N), min(N, 4)))}
        spec = U.sample_policy_spec("am", name, rc)
        spec["kw"]["normalization"] = rc.choice(["instance", "batch", "layer"])
        spec["kw"]["use_graph_context"] = True  # without it PDP's context crashes at B=1 (C14's finding)
        lit = None
        if name in ("tsp", "cvrp", "sdvrp", "op", "pctsp") and rc.random() < 0.2:
            # part C instead of part B: the POMO / SymNCO modules' own test-phase augmentation + best-of-k
            mdl = rc.choice(["pomo", "pomo", "symnco"] + (["polynet", "polynet"] if name in ("tsp", "cvrp") else []))
            fn = rc.choice(["symmetric", "dihedral8"]) if mdl in ("pomo", "polynet") else "symmetric"
            lit = {"model": mdl, "fn": fn, "num_augment": 8 if fn == "dihedral8" else rc.choice([2, 3, 4]),
                   "num_starts": rc.randint(2, max(2, min(n, 4))), "seed": rc.randrange(1 << 30)}
            if mdl == "polynet":
                # PolyNet: k strategy vectors per instance instead of start nodes; augmentation is optional
                lit["num_starts"] = rc.choice([2, 3, 4])
                if rc.random() < 0.4:
                    lit["num_augment"], lit["fn"] = 1, "symmetric"
            rows = rows[: min(len(rows), 4)]
        search = None
        if lit is None and name in SEARCH_ENVS and 5 <= n <= 7 and rc.random() < 0.65:
            # part D instead of part B: test-time search (incumbent over iterations) under a virtual clock
            search = _plan_search(rc, len(rows))
        return {"cfg": cfg, "coords": mode, "instances": [E.enc_row(r) for r in rows], "aug": aug,
                "eval": ev, "policy": spec, "lit": lit, "search": search}

    @staticmethod
    def sample(run):
        p = run.plan
        return {"env": p["cfg"], "coords": p["coords"], "n_instances": len(p["instances"]), "aug": p["aug"],
                "eval": p["eval"], "policy": p["policy"], "instance0": p["instances"][0],
                "lit": p.get("lit"), "search": p.get("search"),
                "reported": getattr(run, "reported", None)}

    @staticmethod
    def shrink(plan):
        N = len(plan["instances"])
        if N > 1:
            for i in range(N):
                p = copy.deepcopy(plan)
                del p["instances"][i]
                p["aug"]["B"] = max(1, min(p["aug"]["B"], N - 1))
                p["eval"]["solo"] = [j for j in range(N - 1)][:4]
                yield p
        if plan["eval"]["batch_size"] > 1:
            p = copy.deepcopy(plan)
            p["eval"]["batch_size"] -= 1
            yield p
        for key, lo in (("num_starts", 2), ("num_augment", 2), ("samples", 2)):
            if plan["eval"][key] > lo and not (key == "num_augment" and "dihedral" in plan["eval"]["method"]):
                p = copy.deepcopy(plan)
                p["eval"][key] -= 1
                yield p
        if plan["aug"]["num_augment"] > 2 and plan["aug"]["fn"] == "symmetric":
            p = copy.deepcopy(plan)
            p["aug"]["num_augment"] -= 1
            yield p
        if plan["aug"]["B"] > 1:
            p = copy.deepcopy(plan)
            p["aug"]["B"] -= 1
            yield p
        sr = plan.get("search")
        if sr:
            floor = (sr["jump"]["iter"] + 2) if sr.get("jump") else 2
            if sr["max_iters"] > floor:
                p = copy.deepcopy(plan)
                p["search"]["max_iters"] -= 1
                yield p
            if sr["N"] > sr["batch_size"]:
                p = copy.deepcopy(plan)
                p["search"]["N"] -= sr["batch_size"]
                if p["search"].get("jump") and p["search"]["jump"]["batch"] * sr["batch_size"] >= p["search"]["N"]:
                    p["search"]["jump"]["batch"] = 0
                yield p
            if sr["augment_size"] in (4, 8):
                p = copy.deepcopy(plan)
                p["search"]["augment_size"] = 2
                p["search"]["augment_dihedral"] = False
                yield p

    # ---------------------------------------------------------------------------------------------
    @staticmethod
    def execute(run):
        plan = run.plan
        cfg = plan["cfg"]
        name = cfg["env"]
        rows = [E.dec_row(r) for r in plan["instances"]]
        with run.guard(name, "construct env"):
            env = E.make_env(cfg)
        run.log.add("plan", name, plan["coords"], len(rows), plan["aug"], plan["eval"]["method"])
        try:
            check_augmentation(run, env, cfg, rows, plan["aug"])
        except StopRun:
            pass  # part B is independent of part A
        if plan.get("lit"):
            check_lit_test_step(run, env, cfg, rows, plan["lit"], plan["policy"])
        elif plan.get("search"):
            check_search(run, env, cfg, rows, plan["search"], plan["policy"])
        else:
            check_evaluation(run, env, cfg, rows, plan["eval"], plan["policy"])


# ------------------------------------------------------------------------------------------------
# part C: the multi-start / augmentation models' own test-phase best-of-k (POMO, SymNCO shared_step)
# ------------------------------------------------------------------------------------------------
def check_lit_test_step(run, env, cfg, rows, lit, spec):
    """POMO / SymNCO `shared_step(batch, 0, "test")`: every candidate rollout is scored on an augmented copy;
    because augmentation is an isometry the score must be the objective of that rollout's actions on the
    ORIGINAL instance, `max_aug_reward` must be the maximum over the instance's own candidates and
    `best_aug_actions` must be worth exactly that on the original instance."""
    from ..ref import routing as RR
    from .. import train_util as TU

    name = cfg["env"]
    scope = f"{lit['model']}:test_step/{name}"
    B = len(rows)
    A, S = lit["num_augment"], lit["num_starts"]
    torch.manual_seed(spec["seed"])
    with run.guard(scope, "construct policy", promise=False):
        policy = U.make_policy(spec) if hasattr(U, "make_policy") else None
    if policy is None:
        raise HarnessError("infer_util.make_policy missing")
    with run.guard(scope, "construct model", promise=False):
        if lit["model"] == "pomo":
            from rl4co.models.zoo.pomo import POMO

            model = POMO(env, policy=policy, num_augment=A, augment_fn=lit["fn"], num_starts=S,
                         batch_size=B, train_data_size=B, val_data_size=B, test_data_size=B)
        elif lit["model"] == "polynet":
            from rl4co.models.zoo.polynet import PolyNet
            from rl4co.models.zoo.polynet.policy import PolyNetPolicy

            torch.manual_seed(spec["seed"])
            policy = PolyNetPolicy(k=S, env_name=name, embed_dim=32, num_encoder_layers=1, num_heads=2,
                                   feedforward_hidden=64, normalization="instance").eval()
            model = PolyNet(env, policy=policy, k=S, val_num_solutions=S, num_augment=A, augment_fn=lit["fn"],
                            batch_size=B, train_data_size=B, val_data_size=B, test_data_size=B)
        else:
            from rl4co.models.zoo.symnco import SymNCO

            model = SymNCO(env, policy=policy, num_augment=A, num_starts=S, batch_size=B, train_data_size=B,
                           val_data_size=B, test_data_size=B)
    TU.shim(model)
    captured = {}

    def log_metrics(out, phase, dataloader_idx=None):
        captured.update(out)
        return {}

    object.__setattr__(model, "log_metrics", log_metrics)
    raw = {}
    orig_forward = policy.forward

    def tapped_forward(*a, **k):
        o = orig_forward(*a, **k)
        for key in ("reward", "actions"):
            if key in o and isinstance(o[key], torch.Tensor):
                raw[key] = o[key].detach().clone()
        return o

    policy.forward = tapped_forward
    model.eval()
    batch = E.batch_of(cfg, [{k: v.clone() for k, v in r.items()} for r in rows])
    torch.manual_seed(lit["seed"])
    with torch.no_grad():
        with run.guard(scope, 'shared_step(batch, 0, "test")', B=B, num_augment=A, num_starts=S):
            model.shared_step(batch, 0, phase="test")
    run.stats["lit_steps:" + lit["model"]] += 1
    run.nontrivial = True
    refs = [RR.make_ref(name, r, cfg) for r in rows]
    if "reward" not in raw or "actions" not in raw:
        raise HarnessError("policy output without reward/actions")
    rew = raw["reward"].detach().double().reshape(-1)      # flat rollouts: row r belongs to instance r mod B
    acts = raw["actions"]
    R = rew.shape[0]
    if R % B != 0 or acts.shape[0] != R:
        run.violate(scope, "rows", f"{R} rollouts for {B} instances", constraint="row_count", cfg=cfg)
        raise StopRun()
    # ---- every scored candidate: reward == objective of its actions on the ORIGINAL instance ----------------
    per_inst = [[] for _ in range(B)]
    for r in range(R):
        b = r % B
        a = [int(x) for x in acts[r].tolist()]
        want = refs[b].objective(_strip_pad(name, a))
        got = float(rew[r])
        per_inst[b].append(got)
        if abs(got - want) > _ltol(want, len(a)):
            run.violate(scope, "candidate_vs_objective",
                        f"instance {b}: rollout {r} is scored {got!r} on its augmented copy but its actions {a} are "
                        f"worth {want!r} on the original instance (augmentation must preserve costs)",
                        constraint="isometry", instance=b, got=got, want=want, num_augment=A, num_starts=S,
                        fn=lit["fn"], cfg=cfg)
            raise StopRun()
    run.probe("lit_candidates_checked", R)
    # ---- reported best-of-k ---------------------------------------------------------------------------------
    best_key = "max_aug_reward" if A > 1 else "max_reward"
    if best_key in captured and captured[best_key].numel() == B:
        mx = captured[best_key].detach().double().reshape(-1)
        for b in range(B):
            top = max(per_inst[b])
            if abs(float(mx[b]) - top) > _ltol(top, 1):
                run.violate(scope, "best_of_k", f"instance {b}: {best_key} {float(mx[b])!r} is not the maximum {top!r} over "
                            f"its own {len(per_inst[b])} candidates", constraint="max", instance=b, num_augment=A,
                            num_starts=S, cfg=cfg)
                raise StopRun()
        run.probe("lit_best_checked")
        ba = captured.get("best_aug_actions") if A > 1 else captured.get("best_multistart_actions")
        if ba is not None and ba.dim() == 2 and ba.shape[0] == B:
            for b in range(B):
                a = [int(x) for x in ba[b].tolist()]
                want = refs[b].objective(_strip_pad(name, a))
                if abs(float(mx[b]) - want) > _ltol(want, len(a)):
                    run.violate(scope, "best_actions_vs_objective", f"instance {b}: reported best reward {float(mx[b])!r} "
                                f"but the reported best actions {a} are worth {want!r} on the original instance",
                                constraint="best_actions", instance=b, num_augment=A, num_starts=S, cfg=cfg)
                    raise StopRun()
            run.probe("lit_best_actions_checked")


def _strip_pad(name, a):
    """drop trailing depot padding of a candidate (depot-based environments)"""
    if name in ("cvrp", "sdvrp", "op", "pctsp", "cvrptw"):
        while len(a) > 1 and a[-1] == 0 and a[-2] == 0:
            a = a[:-1]
    return a


def _ltol(ref, n):
    import math

    return 1e-4 * max(1.0, abs(ref)) * math.sqrt(max(n, 1))


# ------------------------------------------------------------------------------------------------
# part D: test-time search (ActiveSearch, EASEmb / EASLay) - incumbent over iterations, virtual clock
# ------------------------------------------------------------------------------------------------
SEARCH_MODULES = {"active_search": ("rl4co.models.zoo.active_search.search", "ActiveSearch"),
                  "eas_emb": ("rl4co.models.zoo.eas.search", "EASEmb"),
                  "eas_lay": ("rl4co.models.zoo.eas.search", "EASLay")}
CLOCK_EPOCH = 1_700_000_000.0  # where the virtual clock starts (a plausible time.time() value)


def _plan_search(rc, n_rows):
    algo = rc.choice(SEARCH_ALGOS)
    if n_rows < 2:
        algo = "active_search"  # EAS needs a batch of two instances (see `excluded`)
    eas = algo != "active_search"
    bs = 2 if eas else 1
    N = min(n_rows, rc.choice([2, 2, 4]) if eas else rc.randint(1, 3))
    N -= N % bs
    dihedral = rc.random() < 0.2
    A = 8 if dihedral else (rc.choice([2, 4]) if eas else rc.choice([1, 2, 4]))  # dihedral8 needs 8 copies
    max_iters = rc.randint(2, 5)
    jump = None
    if rc.random() < 0.25:  # the clock passes max_runtime during iteration `iter` of batch `batch`
        jump = {"batch": rc.randrange(N // bs), "iter": rc.randrange(max_iters - 1)}
    return {"algo": algo, "N": N, "batch_size": bs, "max_iters": max_iters, "augment_size": A,
            "augment_dihedral": dihedral, "max_runtime": rc.choice([3600, 86400]),
            "clock_step": rc.choice([0.001, 0.5, 2.0]), "jump": jump, "train_mode": rc.random() < 0.5,
            "baseline": rc.choice(["multistart", "symmetric", "full"]), "seed": rc.randrange(1 << 30)}


class _VirtualClock:
    """Stands in for the name `time` inside rl4co's search modules.  `time()` returns a harness-owned
    virtual time that advances by a fixed step per call; `jump()` moves it forward (scheduled overrun of
    max_runtime).  Nothing else of the time module is offered: another use is a harness error."""

    def __init__(self, step):
        self.step = float(step)
        self.now = CLOCK_EPOCH
        self.calls = 0

    def time(self):
        self.calls += 1
        self.now += self.step
        return self.now

    def jump(self, by):
        self.now += float(by)

    def __getattr__(self, name):
        if name.startswith("__"):
            raise AttributeError(name)
        raise HarnessError(f"search module used time.{name}: not virtualised")


class _SearchRecorder:
    """Every rollout of every iteration of the current batch; fires the scheduled clock jump."""

    def __init__(self, run, clock, jump, max_runtime):
        self.run, self.clock, self.jump, self.max_runtime = run, clock, jump, max_runtime
        self.batch = -1
        self.iters = []
        self.jumped = False

    def begin_batch(self, b):
        self.batch, self.iters, self.jumped = b, [], False

    def before_iteration(self):
        k = len(self.iters)
        if self.jump and self.jump["batch"] == self.batch and self.jump["iter"] == k:
            self.clock.jump(self.max_runtime + 1.0)
            self.jumped = True
            self.run.fault("clock_jump", self.batch, k)

    def record(self, actions, reward):
        if not isinstance(actions, torch.Tensor) or not isinstance(reward, torch.Tensor):
            raise HarnessError("search rollout without actions / reward tensors")
        self.iters.append((actions.detach().clone(), reward.detach().clone().reshape(-1)))


def check_search(run, env, cfg, rows, s, spec):
    """ActiveSearch / EAS driven batch by batch without a Trainer.  Per instance, after its batch and again
    on the final report: reported reward == max over all rollouts of all iterations (`search_best_reward`),
    stored solution == one of the rollouts attaining it (`search_best_actions`), objective of the stored
    solution on the ORIGINAL instance == reported reward (`search_objective`)."""
    from ..ref import routing as RR
    from .. import train_util as TU

    name = cfg["env"]
    algo = s["algo"]
    eas = algo != "active_search"
    scope = f"{algo}/{name}"
    bs = s["batch_size"]
    N = min(s["N"], len(rows))
    N -= N % bs
    if N < bs:
        run.probe("search_skipped_too_few_instances")  # shrunk plans only
        return
    rows = rows[:N]
    det = dict(env=name, search=s, cfg=cfg, policy=spec, N=N)
    with run.guard(scope, "construct policy", promise=False):
        policy = U.make_policy(spec)
    td_all = E.batch_of(cfg, [{k: v.clone() for k, v in r.items()} for r in rows])
    with run.guard(scope, "env.dataset_cls(td)", **det):
        ds = env.dataset_cls(td_all)
    modname, clsname = SEARCH_MODULES[algo]
    mod = importlib.import_module(modname)
    kw = dict(batch_size=bs, max_iters=s["max_iters"], augment_size=s["augment_size"],
              augment_dihedral=s["augment_dihedral"], num_parallel_runs=1, max_runtime=s["max_runtime"],
              save_path=None)
    if eas:
        kw.update(baseline=s["baseline"], verbose=False)
    with run.guard(scope, f"construct {clsname}", promise=False):
        model = getattr(mod, clsname)(env, policy, ds, **kw)
    TU.shim(model)
    model.train(bool(s["train_mode"]))
    clock = _VirtualClock(s["clock_step"])
    rec = _SearchRecorder(run, clock, s.get("jump"), float(s["max_runtime"]))
    run.log.add("search", algo, name, N, bs, s["max_iters"], s["augment_size"], s["augment_dihedral"],
                s["clock_step"], s.get("jump"))

    # ---- taps: every rollout of every iteration --------------------------------------------------------------
    stack = contextlib.ExitStack()
    if eas:
        orig_eas = mod.forward_eas

        def tapped_forward_eas(decoder, td, *a, **k):
            rec.before_iteration()
            out = orig_eas(decoder, td, *a, **k)
            rec.record(out[1], out[3])  # (logprobs, actions, td, rewards)
            return out

        stack.enter_context(patched(mod, "forward_eas", tapped_forward_eas))
    else:
        orig_forward = policy.forward

        def tapped_forward(*a, **k):
            rec.before_iteration()
            o = orig_forward(*a, **k)
            rec.record(o.get("actions"), o.get("reward"))
            return o

        policy.forward = tapped_forward
    stack.enter_context(patched(mod, "time", clock))  # TIME SEAM: the module's `time.time()` is ours

    refs = [RR.make_ref(name, r, cfg) for r in rows]
    reported = []
    with stack, torch.enable_grad():
        torch.manual_seed(s["seed"])
        with run.guard(scope, "setup()", **det):
            model.setup()
        P2 = 2 * int(model.problem_size)
        rec.begin_batch(-1)  # (setup only peeks at the first batch; no rollout is expected there)
        with run.guard(scope, "train_dataloader()", **det):
            batches = list(model.train_dataloader())
        if len(batches) != N // bs:
            run.violate(scope, "search_batches", f"{len(batches)} batches for {N} instances at batch size {bs}",
                        constraint="batch_count", **det)
            raise StopRun()
        for i, batch in enumerate(batches):
            gids = list(range(i * bs, (i + 1) * bs))
            if batch.batch_size[0] != bs or any(not torch.equal(batch["locs"][j], rows[g]["locs"])
                                                for j, g in enumerate(gids)):
                run.violate(scope, "search_batches", f"batch {i} does not hold instances {gids} of the dataset",
                            constraint="batch_order", batch=i, **det)
                raise StopRun()
            rec.begin_batch(i)
            calls0 = clock.calls
            torch.manual_seed(s["seed"] + 1 + i)
            with run.guard(scope, "on_train_batch_start / training_step / on_train_batch_end", batch=i, **det):
                model.on_train_batch_start(batch, i)
                out = model.training_step(batch, i)
                model.on_train_batch_end(out, batch, i)
            iters = rec.iters
            n_it = len(iters)
            run.tick(sum(int(a.numel()) for a, _ in iters))
            if clock.calls == calls0:
                raise HarnessError("time seam not reached: the search module did not read the virtual clock")
            if n_it == 0:
                raise HarnessError("no rollout recorded during training_step")
            if n_it >= 2:
                run.nontrivial = True
            # ---- the scheduled overrun of max_runtime stops the search at that iteration -----------------------
            if rec.jumped:
                want_it = s["jump"]["iter"] + 1
                if n_it != want_it:
                    run.violate(scope, "search_runtime_stop",
                                f"batch {i}: the clock passed max_runtime={s['max_runtime']} during iteration "
                                f"{s['jump']['iter']} but the search ran {n_it} iterations (max_iters "
                                f"{s['max_iters']})", constraint="max_runtime", batch=i, iterations=n_it, **det)
                    raise StopRun()
                run.probe("search_clock_jump_stop")
            mr, sol = out["max_reward"], out["best_solutions"]
            if eas:
                rep_r, rep_s = model.instance_rewards[-1], model.instance_solutions[-1]
            else:
                rep_r, rep_s = model.instance_rewards[i], model.instance_solutions[i]
            mr = mr.detach().reshape(-1)
            rep_r, rep_s = rep_r.detach().reshape(-1), rep_s.detach().reshape(-1, P2)
            if mr.numel() != bs or tuple(sol.shape) != (bs, P2) or rep_r.numel() != bs or rep_s.shape[0] != bs:
                run.violate(scope, "search_best_reward", f"batch {i}: max_reward of {mr.numel()} entries / "
                            f"best_solutions {tuple(sol.shape)} for {bs} instances", constraint="shape", batch=i, **det)
                raise StopRun()
            if not torch.equal(rep_r, mr.to(rep_r.dtype)) or not torch.equal(rep_s, sol.detach().to(rep_s.dtype)):
                run.violate(scope, "search_best_reward", f"batch {i}: instance_rewards / instance_solutions after "
                            f"on_train_batch_end ({rep_r.tolist()}, {rep_s.tolist()}) are not the step's max_reward / "
                            f"best_solutions ({mr.tolist()}, {sol.tolist()})", constraint="stored_report", batch=i, **det)
                raise StopRun()
            line = _check_search_batch(run, scope, name, [refs[g] for g in gids], gids, iters, mr, sol.detach(),
                                       exact=not eas, det=det)
            reported.extend(line)
            run.log.add("search_batch", i, n_it, clock.calls - calls0, _hex(clock.now - CLOCK_EPOCH), line)
            run.state(scope, n_it, s["augment_size"], bool(rec.jumped))
        with run.guard(scope, "on_train_epoch_end()", **det):
            model.on_train_epoch_end()
    # ---- the final per-instance report ---------------------------------------------------------------------
    fin_r = torch.as_tensor(model.instance_rewards).detach().reshape(-1)
    fin_s = torch.as_tensor(model.instance_solutions).detach().reshape(-1, P2)
    if fin_r.numel() != N or fin_s.shape[0] != N:
        run.violate(scope, "search_best_reward", f"final report holds {fin_r.numel()} rewards / {fin_s.shape[0]} "
                    f"solutions for {N} instances", constraint="final_shape", **det)
        raise StopRun()
    for g, sol_g, r_hex in reported:
        if _hex(fin_r[g]) != r_hex or [int(x) for x in fin_s[g].tolist()] != sol_g:
            run.violate(scope, "search_best_reward", f"instance {g}: final report ({float(fin_r[g])!r}, "
                        f"{fin_s[g].tolist()}) differs from what its batch reported ({float.fromhex(r_hex)!r}, {sol_g})",
                        constraint="final_report", instance=g, **det)
            raise StopRun()
    run.stats["search_runs:" + algo] += 1
    run.reported = reported[:12]


def _search_key(name, seq, T):
    """Action list without padding.  TSP: exactly T actions (node 0 is a city) - returns None when
    something non-zero follows them; depot environments: trailing depot visits change nothing."""
    seq = [int(x) for x in seq]
    if name == "tsp":
        if any(seq[T:]):
            return None
        return tuple(seq[:T])
    return tuple(_strip(seq, True))


def _check_search_batch(run, scope, name, refs, gids, iters, mr, sol, exact, det):
    """One finished batch of B instances: `iters[k] = (actions [R, T_k], rewards [R])`, row r belongs to
    instance r mod B (runs x augmentations x starts are stacked batch-minor by batchify)."""
    B = len(gids)
    out = []
    for j, g in enumerate(gids):
        ref = refs[j]
        cands, iter_best = [], []
        for k, (acts, rew) in enumerate(iters):
            R = rew.shape[0]
            if R % B != 0 or acts.dim() != 2 or acts.shape[0] != R:
                run.violate(scope, "search_rows", f"iteration {k}: {R} rewards / actions {tuple(acts.shape)} for {B} "
                            f"instances", constraint="row_count", **det)
                raise StopRun()
            al, rl = acts.tolist(), rew.double().tolist()
            best_k = None
            for r in range(j, R, B):
                a, v = al[r], rl[r]
                # a rollout is scored on an augmented copy: by isometry that is its objective on the original
                want = ref.objective(_strip_pad(name, list(a)))
                if not abs(v - want) <= _ltol(want, len(a)):
                    run.violate(scope, "search_objective",
                                f"instance {g}, iteration {k}: rollout row {r} is scored {v!r} but its actions {a} are "
                                f"worth {want!r} on the original instance", constraint="candidate", instance=g,
                                iteration=k, row=r, got=v, want=want, **det)
                    raise StopRun()
                cands.append((k, r, v, a))
                if best_k is None or v > best_k:
                    best_k = v
            if best_k is None or best_k != best_k:
                run.violate(scope, "search_rows", f"instance {g}, iteration {k}: no finite rollout reward",
                            constraint="no_candidate", instance=g, iteration=k, **det)
                raise StopRun()
            iter_best.append(best_k)
        top = max(iter_best)
        got = float(mr[j].double())
        tol = 0.0 if exact else _ltol(top, 1)
        later_worse = any(iter_best[k] < max(iter_best[:k]) for k in range(1, len(iter_best)))
        if later_worse:
            run.probe("search_later_iteration_worse")
        # (1) reported reward = maximum over all rollouts of all iterations ---------------------------------------
        if not abs(got - top) <= tol:
            run.violate(scope, "search_best_reward",
                        f"instance {g}: reported max_reward {got!r} is not the maximum {top!r} over its "
                        f"{len(cands)} rollouts of {len(iters)} iterations (best per iteration {iter_best})",
                        constraint="max", instance=g, reported=got, best=top, iter_best=iter_best,
                        equals_last_iteration=bool(got == iter_best[-1]), later_worse=later_worse, **det)
            raise StopRun()
        # (2) stored solution = the actions of one of the rollouts attaining that maximum ------------------------
        stored = [int(x) for x in sol[j].tolist()]
        T0 = int(iters[0][0].shape[1])
        key = _search_key(name, stored, T0)
        winners = {_search_key(name, a, len(a)) for (_k, _r, v, a) in cands if v >= top - tol}
        if key is None or key not in winners:
            everyone = {_search_key(name, a, len(a)): (k, r, v) for (k, r, v, a) in reversed(cands)}
            stale = [(k, r) for (k, r, v, a) in cands
                     if v >= top - tol and stored[:len(a)] == [int(x) for x in a] and any(stored[len(a):])]
            if key is not None and key in everyone:
                k, r, v = everyone[key]
                constraint = "not_argmax"
                why = f"they are rollout row {r} of iteration {k}, worth {v!r}"
            elif stale:
                k, r = stale[0]
                T = int(iters[k][0].shape[1])
                constraint = "stale_tail"
                why = (f"the first {T} entries are the best rollout (row {r} of iteration {k}, {T} steps) but entries "
                       f"{stored[T:]} behind them are left over from a longer solution stored earlier")
            else:
                constraint = "not_a_rollout"
                why = "they are none of the recorded rollouts" + (" (non-zero padding)" if key is None else "")
            run.violate(scope, "search_best_actions",
                        f"instance {g}: stored solution {stored} does not attain the reported maximum {got!r}: {why}",
                        constraint=constraint, instance=g, stored=stored, reported=got, iter_best=iter_best,
                        lengths=[int(a.shape[1]) for a, _ in iters],
                        stored_objective=ref.objective(_strip_pad(name, _strip(stored, name != "tsp") or [0])),
                        stored_infeasible=[str(x[0]) for x in ref.violations(_strip(stored, name != "tsp"))][:4],
                        **det)
            raise StopRun()
        # (3) its objective on the ORIGINAL instance = the reported reward ----------------------------------------
        want = ref.objective(_strip_pad(name, list(key)))
        if not abs(got - want) <= _ltol(want, len(key)):
            run.violate(scope, "search_objective",
                        f"instance {g}: reported reward {got!r} but the stored solution {list(key)} is worth {want!r} "
                        f"on the original instance", constraint="stored_solution", instance=g, reported=got,
                        objective=want, stored=stored, **det)
            raise StopRun()
        run.probe("search_checked")
        run.probe("search_rollouts", len(cands))
        out.append([g, stored, _hex(mr[j])])
    return out


# ------------------------------------------------------------------------------------------------
# scheduled coordinate sets
# ------------------------------------------------------------------------------------------------
def _schedule_coords(row, mode, rc):
    """Overwrite the coordinates of one instance (all inside the closed unit square)."""
    def pt():
        if mode == "corners":
            return [rc.choice([0.0, 1.0, 0.5, rc.random()]), rc.choice([0.0, 1.0, 0.5, rc.random()])]
        if mode == "dyadic":
            return [rc.randrange(0, 9) / 8.0, rc.randrange(0, 9) / 8.0]
        if mode == "cluster":
            return [min(1.0, max(0.0, c + (rc.random() - 0.5) * 2e-3)) for c in centre]
        if mode == "collinear":
            t = rc.random()
            return [a[0] + t * (b[0] - a[0]), a[1] + t * (b[1] - a[1])]
        raise HarnessError(mode)

    centre = [rc.random(), rc.random()]
    a, b = [rc.random(), rc.random()], [rc.random(), rc.random()]
    n = row["locs"].shape[0]
    row["locs"] = torch.tensor([pt() for _ in range(n)], dtype=torch.float32)
    if "depot" in row:
        row["depot"] = torch.tensor(pt(), dtype=torch.float32)


# ------------------------------------------------------------------------------------------------
# part A: augmentation
# ------------------------------------------------------------------------------------------------
def _dmat(points):
    n = len(points)
    return [[math.hypot(points[i][0] - points[j][0], points[i][1] - points[j][1]) for j in range(n)]
            for i in range(n)]


def _tour_len(points, seq, cyclic):
    """float64 length of the walk seq over points; cyclic: closed at its first node (TSP), else it
    starts and ends at node 0 (depot)."""
    if not seq:
        return 0.0
    idx = list(seq) + [seq[0]] if cyclic else [0] + list(seq) + [0]
    return sum(math.hypot(points[idx[k]][0] - points[idx[k + 1]][0],
                          points[idx[k]][1] - points[idx[k + 1]][1]) for k in range(len(idx) - 1))


def check_augmentation(run, env, cfg, rows, aug):
    from rl4co.data.transforms import StateAugmentation

    name = cfg["env"]
    scope = "StateAugmentation"
    B, A = aug["B"], aug["num_augment"]
    det = dict(env=name, aug=aug, cfg=cfg)
    with run.guard(name, "env.reset before augmentation"):
        td = E.reset(env, cfg, rows[:B])
    td0 = td.clone()
    with run.guard(scope, "construct StateAugmentation", **det):
        sa = StateAugmentation(num_augment=A, augment_fn=aug["fn"],
                               first_aug_identity=aug["first_aug_identity"],
                               feats=["locs"] if aug["explicit_feats"] else None)
    torch.manual_seed(aug["seed"])
    with run.guard(scope, "StateAugmentation(td)", **det):
        ta = sa(td)
    run.fault("augment:" + aug["fn"], A)
    # ---- layout ----------------------------------------------------------------------------------
    if ta.batch_size[0] != A * B:
        run.violate(scope, "layout", f"{A} copies of {B} instances gave a batch of {ta.batch_size[0]}",
                    constraint="batch_size", **det)
        raise StopRun()
    for k in td0.keys():
        if k == "locs":
            continue
        v = ta[k]
        want = td0[k].repeat(A, *([1] * (td0[k].dim() - 1)))
        if v.shape != want.shape or not torch.equal(v, want):
            run.violate(scope, "layout", f"key '{k}' of the augmented state is not the original repeated copy-major "
                        f"(copy a of instance b at row a*B+b)", constraint="other_keys", key=k, **det)
            raise StopRun()
    if "depot" in ta.keys() and ta["locs"].shape[1] == td0["locs"].shape[1]:
        if not torch.equal(ta["depot"], ta["locs"][:, 0]):
            run.probe("obs_stale_depot_key")  # nothing reads it after reset (observation)
    # ---- copy 0 ---------------------------------------------------------------------------------
    d0 = float((ta["locs"][:B] - td0["locs"]).abs().max())
    if d0 > 0:
        run.probe("copy0_rounded")  # (x - 0.5) + 0.5 need not round-trip in float32
    if not d0 <= COPY0_TOL:
        run.violate(scope, "copy0_identity", f"the first copy of the augmented batch is not the original instance "
                    f"(max coordinate difference {d0:.3g})", constraint="copy0", max_abs=d0, **det)
    # ---- isometry -------------------------------------------------------------------------------
    L0 = td0["locs"].double().tolist()
    LA = ta["locs"].double().tolist()
    D0 = [_dmat(p) for p in L0]
    n = len(L0[0])
    cyclic = name == "tsp"
    # scheduled action sequence (same for all copies): a permutation of the customers, with depot
    # visits in between for depot environments
    seqs = []
    for b in range(B):
        pool = list(range(n)) if cyclic else list(range(1, n))
        seq = []
        while pool:
            seq.append(pool.pop(run.chooser.pick(len(pool))))
            if not cyclic and pool and run.chooser.pick(4) == 0:
                seq.append(0)
        seqs.append(seq)
    bad_rows = []
    for r in range(A * B):
        b = r % B
        D = _dmat(LA[r])
        err, at = 0.0, None
        for i in range(n):
            for j in range(n):
                e = abs(D[i][j] - D0[b][i][j])
                if e > err:
                    err, at = e, (i, j)
        run.probe("aug_rows_checked")
        if err > 1e-5:
            nodes = sorted({i for i in range(n) for j in range(n) if abs(D[i][j] - D0[b][i][j]) > 1e-5})
            bad_rows.append({"row": r, "copy": r // B, "instance": b, "err": err, "at": at, "nodes": nodes})
    if bad_rows:
        off_pattern = (not aug["first_aug_identity"] and len(bad_rows) == 1 and bad_rows[0]["row"] == B)
        constraint = "first_aug_identity_off:row_B" if off_pattern else "isometry"
        br = bad_rows[0]
        run.violate(scope, "distance_matrix",
                    f"{aug['fn']} x{A} (first_aug_identity={aug['first_aug_identity']}): pairwise distances of "
                    f"augmented row {br['row']} (copy {br['copy']} of instance {br['instance']}) differ from the "
                    f"original's by {br['err']:.3g} (nodes {br['nodes'][:6]})", constraint=constraint,
                    bad_rows=bad_rows[:4], n_bad=len(bad_rows), **det)
        if not off_pattern:
            raise StopRun()
    bad = {x["row"] for x in bad_rows}
    # ---- same cost on every copy ------------------------------------------------------------------
    for r in range(A * B):
        if r in bad:
            continue
        b = r % B
        c0 = _tour_len(L0[b], seqs[b], cyclic)
        c = _tour_len(LA[r], seqs[b], cyclic)
        if abs(c - c0) > _tol(c0, len(seqs[b]) + 1):
            run.violate(scope, "tour_cost", f"sequence {seqs[b]} costs {c!r} on copy {r // B} of instance {b}, "
                        f"{c0!r} on the original", constraint="cost", row=r, seq=seqs[b], **det)
            raise StopRun()
    run.log.add("aug", aug["fn"], A, B, [_hex(x) for x in ta["locs"].flatten().tolist()[:64]])
    _observe_multifeat(run, env, cfg, rows[:B], aug)
    # ---- the environment's own cost on the augmented state ---------------------------------------------
    if name != "op" and not bad:
        T = max(len(s) for s in seqs)
        acts = torch.tensor([s + [s[-1] if cyclic else 0] * (T - len(s)) for s in seqs], dtype=torch.long)
        if cyclic and any(len(s) != T for s in seqs):
            return
        with run.guard(name, "get_reward on original / augmented state", promise=False):
            r0 = env.get_reward(td0, acts)
            rA = env.get_reward(ta, acts.repeat(A, 1))
            r0 = torch.as_tensor(r0).reshape(-1)
            rA = torch.as_tensor(rA).reshape(-1)
            for r in range(A * B):
                a, o = float(rA[r]), float(r0[r % B])
                if abs(a - o) > _tol(o, T + 1):
                    run.violate(scope, "env_cost", f"{name}.get_reward gives {a!r} on augmented row {r}, {o!r} on the "
                                f"original, same actions", constraint="env_cost", row=r, seq=seqs[r % B], **det)
                    raise StopRun()
        run.probe("aug_env_cost_checked")


def _observe_multifeat(run, env, cfg, rows, aug):
    """Observation only (no caller in the library does this): augmenting an un-reset instance with
    feats=['locs','depot'] - does the depot undergo the same map as the customers?"""
    from rl4co.data.transforms import StateAugmentation

    if "depot" not in rows[0] or aug["seed"] % 4 != 0:
        return
    td = E.batch_of(cfg, [{k: v.clone() for k, v in r.items()} for r in rows])
    torch.manual_seed(aug["seed"])
    try:
        ta = StateAugmentation(num_augment=aug["num_augment"], augment_fn=aug["fn"],
                               feats=["locs", "depot"])(td)
    except Exception:  # noqa: BLE001  depot is [B,2], the transforms want [B,N,2]
        run.probe("obs_multifeat_unsupported")
        return
    B = len(rows)
    same = True
    if tuple(ta["depot"].shape) != (ta.batch_size[0], 2) or ta["locs"].shape[1:] != td["locs"].shape[1:]:
        run.probe("obs_multifeat_unsupported")  # the transforms broadcast a [B,2] feature into something else
        return
    for r in range(ta.batch_size[0]):
        p0 = [td["depot"][r % B].double().tolist()] + td["locs"][r % B].double().tolist()
        p1 = [ta["depot"][r].double().tolist()] + ta["locs"][r].double().tolist()
        d0, d1 = _dmat(p0), _dmat(p1)
        if max(abs(d0[0][j] - d1[0][j]) for j in range(len(p0))) > 1e-5:
            same = False
    run.probe("obs_multifeat_same_map" if same else "obs_multifeat_maps_differ")


# ------------------------------------------------------------------------------------------------
# part B: evaluation
# ------------------------------------------------------------------------------------------------
class _RewardTap:
    """Records every env.get_reward call (actions) into a shared event list."""

    def __init__(self, env, events):
        self.env, self.events = env, events

    def __enter__(self):
        self._had = self.env.__dict__.get("get_reward", None)
        orig = self.env.get_reward
        events = self.events

        def get_reward(td, actions):
            events.append(("reward", actions.detach().clone()))
            return orig(td, actions)

        self.env.get_reward = get_reward
        return self

    def __exit__(self, *exc):
        if self._had is None:
            self.env.__dict__.pop("get_reward", None)
        else:
            self.env.get_reward = self._had
        return False


class _Tap(U.PolicyTap):
    def __init__(self, policy, env, inject_env, events):
        super().__init__(policy, env, inject_env)
        self._events = events

    def forward(self, td, *args, **kw):
        self._events.append(("policy_begin", len(self.calls)))
        out = super().forward(td, *args, **kw)
        self._events.append(("policy_end", len(self.calls) - 1))
        return out


def _eval_call(env, tap, ds, ev, n_loc):
    """Run the scheduled evaluation through the real API; returns evaluate's dict."""
    from torch.utils.data import DataLoader

    from rl4co.tasks import eval as EV

    m, bs = ev["method"], ev["batch_size"]
    extra = {"progress": False}
    if "multistart" in m:
        extra["num_starts"] = ev["num_starts"]
    if m == "sampling":
        extra["select_best"] = ev["select_best"]
        extra["temperature"] = ev["temperature"]
    A = 8 if "dihedral" in m else ev["num_augment"]
    if ev["api"] == "evaluate_policy":
        return EV.evaluate_policy(env, tap, ds, method=m, batch_size=bs, auto_batch_size=False,
                                  samples=ev["samples"], softmax_temp=1.0, num_augment=A,
                                  force_dihedral_8=True, **extra)
    dl = DataLoader(ds, batch_size=bs, shuffle=False, num_workers=0, collate_fn=ds.collate_fn)
    if m == "greedy":
        fn = EV.GreedyEval(env, progress=False)
    elif m == "sampling":
        fn = EV.SamplingEval(env, samples=ev["samples"], softmax_temp=1.0, **extra)
    elif m == "multistart_greedy":
        fn = EV.GreedyMultiStartEval(env, **extra)
    elif m in ("augment", "augment_dihedral_8"):
        fn = EV.AugmentationEval(env, num_augment=A, force_dihedral_8="dihedral" in m, progress=False)
    else:
        fn = EV.GreedyMultiStartAugmentEval(env, num_augment=A, force_dihedral_8="dihedral" in m, **extra)
    return fn(tap, dl)


def check_evaluation(run, env, cfg, rows, ev, spec):
    name = cfg["env"]
    m = ev["method"]
    scope = f"eval:{m}/{name}"
    N = len(rows)
    bs = max(1, ev["batch_size"])
    det = dict(env=name, eval=ev, cfg=cfg, N=N, policy=spec)
    policy = U.make_policy(spec)
    events = []
    tap = _Tap(policy, env, ev["inject_env"], events)
    tap.eval()
    td_all = E.batch_of(cfg, [{k: v.clone() for k, v in r.items()} for r in rows])
    with run.guard(scope, "env.dataset_cls(td)", **det):
        ds = env.dataset_cls(td_all)
    torch.manual_seed(ev["seed"])
    sink = io.StringIO()
    with _RewardTap(env, events), contextlib.redirect_stdout(sink), contextlib.redirect_stderr(sink):
        try:
            ret = _eval_call(env, tap, ds, ev, cfg["n"])
        except (HarnessError, StopRun):
            raise
        except Exception as e:  # noqa: BLE001
            where, f, func, _line = innermost_project_frame(e)
            if where != "repo":
                raise
            if func == "check_solution_validity":
                # the policy built its default env (check_solution=True) and the built-in checker refused a
                # mask-generated rollout: checker vs ground truth is C06's business, not a reporting matter
                run.probe("obs_checker_rejected_rollout:" + name)
                return
            if func == "select_start_nodes" and name == "op":
                # OP instance without any feasible first move: the start-node rule is C12's business
                run.probe("obs_op_no_feasible_start")
                return
            what = f"evaluation ({ev['api']})"
            run.violate(scope, f"exception:{type(e).__name__}@{f}:{func}",
                        f"{what}: {type(e).__name__}: {str(e)[:300]}", what=what, exc_type=type(e).__name__,
                        exc_file=f, exc_func=func, constraint="crash", **det)
            raise StopRun() from e
    run.fault("evaluate:" + m)
    rewards = ret["rewards"].detach().reshape(-1)
    actions = ret["actions"].detach()
    # ---- chunks ----------------------------------------------------------------------------------
    sizes = [min(bs, N - s) for s in range(0, N, bs)]
    if len(tap.calls) != len(sizes):
        run.violate(scope, "chunks", f"{len(tap.calls)} policy calls for {len(sizes)} loader batches",
                    constraint="calls", **det)
        raise StopRun()
    if N % bs:
        run.probe("eval_partial_chunk")
    if len(sizes) > 1:
        run.probe("eval_multi_chunk")
        run.nontrivial = True
    all_rows = m == "sampling" and not ev["select_best"]
    per = [(ev["samples"] if all_rows else 1) * b for b in sizes]
    if rewards.shape[0] != sum(per) or actions.shape[0] != sum(per):
        run.violate(scope, "report_shape", f"{rewards.shape[0]} rewards / {actions.shape[0]} action rows reported "
                    f"for {N} instances (expected {sum(per)})", constraint="shape", **det)
        raise StopRun()
    # events per chunk
    chunks, cur = [], None
    for e in events:
        if e[0] == "policy_begin":
            cur = []
            chunks.append(cur)
        elif e[0] == "reward" and cur is not None:
            cur.append(e[1])
    refs = [make_ref(name, rows[i], cfg) for i in range(N)]
    depot = name != "tsp"
    solo_cache = {}
    reported = []
    Tmax = actions.shape[1]
    g0, row0 = 0, 0
    for c, Bc in enumerate(sizes):
        call = tap.calls[c]
        out_actions = call["out"]["actions"]
        Tc = out_actions.shape[1]
        if Tc < Tmax:
            run.probe("eval_padding_stripped")
        # the state the policy saw: for augmentation methods its first B rows are the original instances
        td_seen = call["td"]
        with torch.inference_mode():
            td_orig = E.reset(env, cfg, rows[g0:g0 + Bc])
        if td_seen.batch_size[0] % Bc != 0:
            run.violate(scope, "candidate_layout", f"policy saw {td_seen.batch_size[0]} rows for a batch of {Bc}",
                        constraint="seen_rows", **det)
            raise StopRun()
        if not float((td_seen["locs"][:Bc] - td_orig["locs"]).abs().max()) <= COPY0_TOL:
            run.violate(scope, "copy0_identity", "the first block of the state handed to the policy is not the "
                        "batch of original instances", constraint="copy0_eval", chunk=c, **det)
            raise StopRun()
        # candidates: every action set whose reward was computed during this chunk + the policy output
        cand_sets = [a for a in chunks[c] if a.shape[0] % Bc == 0] + [out_actions]
        cands = [[] for _ in range(Bc)]
        seen = [set() for _ in range(Bc)]
        for a in cand_sets:
            al = a.tolist()
            for r, seq in enumerate(al):
                key = tuple(_strip(seq, depot))
                if key not in seen[r % Bc]:
                    seen[r % Bc].add(key)
                    cands[r % Bc].append(list(key))
        for j in range(per[c]):
            b = j % Bc
            g = g0 + b
            row = row0 + j
            full = actions[row].tolist()
            if any(x != 0 for x in full[Tc:]):
                run.violate(scope, "padding", f"reported actions of instance {g} are not zero beyond this batch's own "
                            f"length {Tc}: {full}", constraint="padding", instance=g, chunk=c, **det)
                raise StopRun()
            rep = full[:Tc]
            rrep = float(rewards[row])
            obj = refs[g].objective(rep)
            tol = _tol(obj, Tc + 1)
            if abs(rrep - obj) > tol:
                run.violate(scope, "reported_vs_objective",
                            f"instance {g}: reported reward {rrep!r} but the reported actions {rep} are worth {obj!r} "
                            f"on the original instance", constraint="objective", instance=g, chunk=c, B=Bc,
                            reported=rrep, objective=obj, actions=rep, **det)
                raise StopRun()
            key = _strip(rep, depot)
            if key not in cands[b]:
                run.violate(scope, "reported_not_candidate", f"instance {g}: reported actions {rep} are none of the "
                            f"{len(cands[b])} rollouts made for it", constraint="candidate", instance=g, chunk=c,
                            B=Bc, actions=rep, candidates=cands[b][:8], **det)
                raise StopRun()
            if len(cands[b]) > 1:
                run.nontrivial = True
            if not all_rows:
                objs = [refs[g].objective(cnd) for cnd in cands[b]]
                best = max(objs)
                if objs.index(best) != 0 and best - objs[0] > tol:
                    run.probe("best_not_first_candidate")
                if rrep < best - tol:
                    run.violate(scope, "not_best_of_k", f"instance {g}: reported reward {rrep!r} but candidate "
                                f"{cands[b][objs.index(best)]} of the same instance is worth {best!r} "
                                f"({len(cands[b])} candidates)", constraint="best_of_k", instance=g, chunk=c, B=Bc,
                                reported=rrep, best=best, n_candidates=len(cands[b]), **det)
                    raise StopRun()
            run.state(scope, Bc, b, len(cands[b]), Tc)
            reported.append([g, rep, _hex(rrep)])
            # ---- never worse than solo greedy ---------------------------------------------------------
            if (m == "greedy" or m.startswith("augment")) and g in ev["solo"] and j < Bc:
                if g not in solo_cache:
                    solo_cache[g] = _solo_greedy(run, env, cfg, rows[g], policy, scope, det)
                sa, sr = solo_cache[g]
                ident = _strip(out_actions[b].tolist(), depot)
                if ident != _strip(sa, depot):
                    run.probe("solo_greedy_candidate_differs")
                    run.stats["indeterminate_skipped"] += 1
                else:
                    run.probe("solo_greedy_compared")
                    if rrep < sr - _tol(sr, Tc + 1):
                        run.violate(scope, "worse_than_greedy", f"instance {g}: reported reward {rrep!r} is worse than "
                                    f"solo greedy decoding {sr!r}", constraint="greedy_bound", instance=g,
                                    reported=rrep, solo=sr, **det)
                        raise StopRun()
        g0 += Bc
        row0 += per[c]
    run.tick(sum(int(c["out"]["actions"].numel()) for c in tap.calls))
    run.reported = reported[:12]
    run.log.add("eval", m, N, bs, reported)


def _strip(seq, depot=True):
    """Action list without trailing zeros (padding / idle depot visits change nothing); node 0 of a TSP
    is a city, nothing is stripped there."""
    seq = list(seq)
    while depot and seq and seq[-1] == 0:
        seq.pop()
    return seq


def _solo_greedy(run, env, cfg, row, policy, scope, det):
    with torch.inference_mode():
        td = E.reset(env, cfg, [row])
        with run.guard(scope, "solo greedy forward (B=1)", **det):
            out = policy(td, env, phase="test", decode_type="greedy")
    return out["actions"][0].tolist(), float(torch.as_tensor(out["reward"]).reshape(-1)[0])


# ------------------------------------------------------------------------------------------------
# canary mutants (in-memory only)
# ------------------------------------------------------------------------------------------------
def _swap(obj, attr, new):
    @contextlib.contextmanager
    def cm():
        old = obj.__dict__[attr] if attr in obj.__dict__ else getattr(obj, attr)
        setattr(obj, attr, new)
        try:
            yield
        finally:
            setattr(obj, attr, old)

    return cm()


def _canary_symmetric_scale():
    """symmetric_transform scales by 1.01 (not an isometry)."""
    import rl4co.data.transforms as T

    orig = T.symmetric_transform

    def mutant(x, y, phi, offset=0.5):
        return (orig(x, y, phi, offset) - offset) * 1.01 + offset

    return _swap(T, "symmetric_transform", mutant)


def _canary_dihedral_typo():
    """dihedral_8: the sixth map is (1 - y, y) instead of (1 - y, x)."""
    import rl4co.data.transforms as T

    def mutant(xy):
        x, y = xy.split(1, dim=2)
        zs = [(x, y), (1 - x, y), (x, 1 - y), (1 - x, 1 - y), (y, x), (1 - y, y), (y, 1 - x), (1 - y, 1 - x)]
        return torch.cat([torch.cat(z, dim=2) for z in zs], dim=0)

    return _swap(T, "dihedral_8_augmentation", mutant)


def _canary_first_copy_augmented():
    """symmetric_augmentation rotates the first copy too (identity copy lost)."""
    import rl4co.data.transforms as T

    def mutant(xy, num_augment=8, first_augment=False):
        phi = torch.rand(xy.shape[0], device=xy.device) * 4 * math.pi
        x, y = xy[..., [0]], xy[..., [1]]
        return T.symmetric_transform(x, y, phi[:, None, None])

    @contextlib.contextmanager
    def cm():
        old = T.symmetric_augmentation
        T.symmetric_augmentation = mutant
        try:
            yield
        finally:
            T.symmetric_augmentation = old

    return cm()


def _canary_aug_regroup():
    """AugmentationEval regroups rewards/actions instance-major (`view(B, A)`) instead of unbatchify."""
    import rl4co.tasks.eval as EV

    def mutant(x, shape):
        n = shape if isinstance(shape, int) else math.prod(shape)
        return x.view(x.shape[0] // n, n, *x.shape[1:])

    return _swap(EV, "unbatchify", mutant)


def _canary_padding_dropped():
    """EvalBase.__call__ truncates the action rows of all batches to the shortest instead of zero padding."""
    import rl4co.tasks.eval as EV

    def mutant_call(self, policy, dataloader, **kwargs):
        with torch.inference_mode():
            rewards_list, actions_list = [], []
            for batch in dataloader:
                td = batch.to(next(policy.parameters()).device)
                td = self.env.reset(td)
                actions, rewards = self._inner(policy, td, **kwargs)
                rewards_list.append(rewards)
                actions_list.append(actions)
            rewards = torch.cat(rewards_list)
            min_length = min(a.size(-1) for a in actions_list)
            actions = torch.cat([a[..., :min_length] for a in actions_list], 0)
        return {"actions": actions.cpu(), "rewards": rewards.cpu(), "inference_time": 0.0,
                "avg_reward": rewards.cpu().mean()}

    return _swap(EV.EvalBase, "__call__", mutant_call)


def _canary_select_min():
    """best-of-k takes the worst: `.max(dim=1)` replaced by `.min(dim=1)` in the eval classes and
    `_select_best`."""
    import rl4co.tasks.eval as EV
    from rl4co.utils.decoding import DecodingStrategy
    from rl4co.utils.ops import batchify, gather_by_index, unbatchify, unbatchify_and_gather

    def ms_inner(self, policy, td):
        td_init = td.clone()
        out = policy(td.clone(), decode_type="multistart_greedy", num_starts=self.num_starts)
        td = batchify(td_init, self.num_starts)
        rewards = unbatchify(self.env.get_reward(td, out["actions"]), self.num_starts)
        actions = unbatchify(out["actions"], self.num_starts)
        rewards, idxs = rewards.min(dim=1)
        return gather_by_index(actions, idxs, dim=1), rewards

    def aug_inner(self, policy, td, num_augment=None):
        if num_augment is None:
            num_augment = self.augmentation.num_augment
        td_init = td.clone()
        td = self.augmentation(td)
        out = policy(td.clone(), decode_type="greedy", num_starts=0)
        rewards = unbatchify(self.env.get_reward(batchify(td_init, num_augment), out["actions"]), num_augment)
        actions = unbatchify(out["actions"], num_augment)
        rewards, idxs = rewards.min(dim=1)
        return gather_by_index(actions, idxs, dim=1), rewards

    def sel(self, logprobs, actions, td, env):
        rewards = env.get_reward(td, actions)
        _, idxs = unbatchify(rewards, self.num_starts).min(dim=-1)
        return (unbatchify_and_gather(logprobs, idxs, self.num_starts),
                unbatchify_and_gather(actions, idxs, self.num_starts),
                unbatchify_and_gather(td, idxs, self.num_starts), env)

    @contextlib.contextmanager
    def cm():
        with _swap(EV.GreedyMultiStartEval, "_inner", ms_inner), \
                _swap(EV.AugmentationEval, "_inner", aug_inner), \
                _swap(DecodingStrategy, "_select_best", sel):
            yield

    return cm()


def _canary_reward_wrong_rows():
    """GreedyMultiStartEval scores the rollouts against the instances in instance-major order
    (`repeat_interleave`) while the rollouts are start-major."""
    import rl4co.tasks.eval as EV

    def mutant(x, shape):
        n = shape if isinstance(shape, int) else math.prod(shape)
        if isinstance(x, torch.Tensor):
            return x.repeat_interleave(n, 0)
        idx = torch.arange(x.batch_size[0]).repeat_interleave(n)
        return x[idx]

    return _swap(EV, "batchify", mutant)


C15.CANARIES = {"symmetric_scale": _canary_symmetric_scale,
                "dihedral_typo": _canary_dihedral_typo,
                "first_copy_augmented": _canary_first_copy_augmented,
                "aug_regroup": _canary_aug_regroup,
                "padding_dropped": _canary_padding_dropped,
                "select_min": _canary_select_min,
                "reward_wrong_rows": _canary_reward_wrong_rows}


def _as_training_step_mutant(overwrite_incumbent=False, solution_only_first=False):
    """ActiveSearch.training_step with one of two regressions of the incumbent bookkeeping."""
    def training_step(self, batch, batch_idx):
        import rl4co.models.zoo.active_search.search as S  # its `time` name is the (virtual) clock
        from rl4co.utils.ops import batchify, unbatchify

        batch_size = batch.shape[0]
        td_init = self.env.reset(batch)
        n_aug, n_start, n_runs = (self.augmentation.num_augment, self.env.get_num_starts(td_init),
                                  self.hparams.num_parallel_runs)
        td_init = self.augmentation(td_init)
        td_init = batchify(td_init, n_runs)
        max_reward = torch.full((batch_size,), -float("inf"), device=batch.device)
        best_solutions = torch.zeros(batch_size, self.problem_size * 2, device=batch.device, dtype=int)
        t_start = S.time.time()
        for i in range(self.hparams.max_iters):
            out = self.policy(td_init.clone(), env=self.env, decode_type="multistart_sampling", num_starts=n_start)
            max_reward_iter = out["reward"].max()
            if max_reward_iter > max_reward:
                max_reward_idx = out["reward"].argmax()
                best_solution_iter = out["actions"][max_reward_idx]
                max_reward = max_reward_iter
                if i == 0 or not solution_only_first:
                    best_solutions[0, : best_solution_iter.shape[0]] = best_solution_iter
            if overwrite_incumbent:
                max_reward = max_reward_iter
            reward = unbatchify(out["reward"], (n_runs, n_aug, n_start))
            ll = unbatchify(out["log_likelihood"], (n_runs, n_aug, n_start))
            advantage = reward - reward.mean(dim=-1, keepdim=True)
            loss = -(advantage * ll).mean()
            opt = self.optimizers()
            opt.zero_grad()
            self.manual_backward(loss)
            self.log_dict({"loss": loss, "max_reward": max_reward, "step": i, "time": S.time.time() - t_start},
                          on_step=self.log_on_step)
            if S.time.time() - t_start > self.hparams.max_runtime:
                break
        return {"max_reward": max_reward, "best_solutions": best_solutions}

    return training_step


def _canary_search_incumbent_overwritten():
    """ActiveSearch: `max_reward = max_reward_iter` every iteration, not only when it improved (the report
    is the last iteration's best instead of the best of all iterations)."""
    from rl4co.models.zoo.active_search.search import ActiveSearch

    return _swap(ActiveSearch, "training_step", _as_training_step_mutant(overwrite_incumbent=True))


def _canary_search_solution_not_updated():
    """ActiveSearch: best_solutions is written in iteration 0 only; later improvements update the reward
    but keep the first iteration's tour."""
    from rl4co.models.zoo.active_search.search import ActiveSearch

    return _swap(ActiveSearch, "training_step", _as_training_step_mutant(solution_only_first=True))


C15.CANARIES.update({"search_incumbent_overwritten": _canary_search_incumbent_overwritten,
                     "search_solution_not_updated": _canary_search_solution_not_updated})
