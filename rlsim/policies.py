"""Factory for tiny instances of the bundled rl4co policies (allow-list of DESIGN Appendix B).

    POLICY_ENVS                     {kind: [environment names the kind is exercised with]}
    make_policy(kind, env_name, seed, **kw)   -> nn.Module (deterministic init: torch.manual_seed(seed))
    make_env_for(kind, env_name, n, **kw)     -> (env, cfg)   a real environment the policy can drive
    MULTISTART_ENVS                 environments for which get_num_starts / select_start_nodes define a rule
    EXCLUDED                        [(kind, env, reason)] combinations that do not construct / are out of scope

Sizes are small on purpose (embed_dim 32, 1-2 layers, 4 heads): the checks are about bookkeeping around
the network, not about the network.  Nothing here patches rl4co."""
from __future__ import annotations

import torch

from . import envs as E
from .kernel import HarnessError

EMBED = 32
HEADS = 4

AM_ENVS = ["tsp", "cvrp", "cvrptw", "sdvrp", "svrp", "op", "pctsp", "spctsp", "pdp", "mtsp", "mtvrp",
           "smtwtp", "mdcpdp"]

POLICY_ENVS = {
    "am": AM_ENVS,
    "ptrnet": ["tsp"],
    "ham": ["pdp"],
    "mdam": ["tsp", "cvrp"],
    "polynet": ["tsp", "cvrp"],
    "symnco": ["tsp", "cvrp"],
    "matnet": ["atsp"],
    "l2d": ["fjsp", "jssp"],
    # NonAutoregressivePolicy + the real NonAutoregressiveDecoder (heatmap rows as logits, multi-start row
    # index) behind a stub heatmap encoder: the bundled NAR encoders (NARGNN) need torch_geometric
    "nar": ["tsp", "cvrp"],
}

# environments whose get_num_starts / select_start_nodes define a start-node rule (Appendix B)
MULTISTART_ENVS = ["tsp", "atsp", "cvrp", "cvrptw", "sdvrp", "op", "pctsp", "spctsp", "pdp", "mtsp",
                   "mtvrp", "flp", "mcp"]

EXCLUDED = [
    ("matnet", "ffsp", "MatNetPolicy(env_name='ffsp') constructor raises TypeError (out_bias)"),
    ("am", "atsp", "no init embedding for ATSP in AttentionModelPolicy"),
    ("am", "flp", "no consistent embeddings"),
    ("am", "mcp", "no consistent embeddings"),
    ("am", "mdcpdp(D>1)", "generator/embedding disagree on the number of depots (DESIGN 7.11)"),
    ("deepaco", "*", "needs torch_geometric (absent offline)"),
    ("nargnn", "*", "needs torch_geometric (absent offline)"),
]

POLYNET_K = 4
MDAM_PATHS = 3


def make_policy(kind: str, env_name: str, seed: int = 0, **kw):
    """Tiny bundled policy of the given kind for env_name, deterministically initialised."""
    if kind not in POLICY_ENVS:
        raise HarnessError(f"unknown policy kind {kind}")
    if env_name not in POLICY_ENVS[kind]:
        raise HarnessError(f"{kind} x {env_name} is not on the allow-list")
    torch.manual_seed(seed)
    layers = kw.pop("num_encoder_layers", 1)
    if kind == "am":
        from rl4co.models.zoo.am.policy import AttentionModelPolicy

        return AttentionModelPolicy(env_name=env_name, embed_dim=EMBED, num_encoder_layers=layers,
                                    num_heads=HEADS, feedforward_hidden=64, **kw)
    if kind == "ptrnet":
        from rl4co.models.zoo.ptrnet.policy import PointerNetworkPolicy

        return PointerNetworkPolicy(env_name=env_name, embed_dim=EMBED, hidden_dim=EMBED, **kw)
    if kind == "ham":
        from rl4co.models.zoo.ham.policy import HeterogeneousAttentionModelPolicy

        return HeterogeneousAttentionModelPolicy(env_name=env_name, embed_dim=EMBED,
                                                 num_encoder_layers=layers, num_heads=HEADS,
                                                 feedforward_hidden=64, **kw)
    if kind == "mdam":
        from rl4co.models.zoo.mdam.policy import MDAMPolicy

        return MDAMPolicy(env_name=env_name, embed_dim=EMBED, num_encoder_layers=max(layers, 2),
                          num_heads=HEADS, num_paths=kw.pop("num_paths", MDAM_PATHS), **kw)
    if kind == "polynet":
        from rl4co.models.zoo.polynet.policy import PolyNetPolicy

        return PolyNetPolicy(k=kw.pop("k", POLYNET_K), env_name=env_name, embed_dim=EMBED,
                             num_encoder_layers=layers, num_heads=HEADS, feedforward_hidden=64, **kw)
    if kind == "symnco":
        from rl4co.models.zoo.symnco.policy import SymNCOPolicy

        return SymNCOPolicy(env_name=env_name, embed_dim=EMBED, num_encoder_layers=layers,
                            num_heads=HEADS, feedforward_hidden=64, **kw)
    if kind == "matnet":
        from rl4co.models.zoo.matnet.policy import MatNetPolicy

        return MatNetPolicy(env_name=env_name, embed_dim=EMBED, num_encoder_layers=layers,
                            num_heads=HEADS, **kw)
    if kind == "l2d":
        from rl4co.models.zoo.l2d.policy import L2DPolicy

        return L2DPolicy(env_name=env_name, embed_dim=EMBED, num_encoder_layers=layers, **kw)
    if kind == "nar":
        return make_nar_policy(env_name, seed, **kw)
    raise HarnessError(f"unhandled policy kind {kind}")


def make_nar_policy(env_name: str, seed: int, **kw):
    """rl4co's NonAutoregressivePolicy / NonAutoregressiveDecoder driven by a stub heatmap encoder (a seeded
    bilinear form of the coordinates minus the distance matrix): per-instance heatmaps that differ between
    instances, so a row of another instance's heatmap is visible in every log-probability."""
    import torch.nn as nn
    from rl4co.models.common.constructive.nonautoregressive import (NonAutoregressiveEncoder,
                                                                    NonAutoregressivePolicy)

    class HeatmapStub(NonAutoregressiveEncoder):
        def __init__(self, d=8):
            super().__init__()
            self.lin = nn.Linear(2, d)

        def forward(self, td):
            locs = td["locs"]
            h = torch.tanh(self.lin(locs))
            heat = torch.einsum("bie,bje->bij", h, h.flip(-1)) - (locs[:, :, None] - locs[:, None]).norm(dim=-1)
            return heat, h

    torch.manual_seed(seed)
    return NonAutoregressivePolicy(HeatmapStub(), env_name=env_name, **kw)


def env_cfg_for(kind: str, env_name: str, n: int, rng=None) -> dict:
    """Environment configuration (envs.make_env format) the policy kind can embed."""
    import random

    rng = rng or random.Random(0)
    cfg = E.sample_cfg(env_name, rng)
    # pin the size (sample_cfg draws its own) and the modes the embeddings need
    if env_name in ("tsp", "atsp", "mtsp"):
        cfg["gen"]["num_loc"] = max(n, 4)
        if env_name == "mtsp":
            cfg["gen"]["min_num_agents"] = 2
            cfg["gen"]["max_num_agents"] = max(2, min(3, n - 2))
    elif env_name in ("pdp", "mdcpdp"):
        n = max(n + (n % 2), 4)
        cfg["gen"]["num_loc"] = n
        if env_name == "pdp":
            cfg["kw"]["force_start_at_depot"] = False
    elif env_name in ("fjsp", "jssp", "ffsp", "flp", "mcp", "dpp", "mdpp"):
        pass
    elif env_name == "smtwtp":
        cfg["gen"]["num_job"] = max(n, 3)
    else:
        cfg["gen"]["num_loc"] = max(n, 3)
    if env_name == "atsp" and kind == "matnet":
        cfg["gen"]["tmat_class"] = True
    cfg["n"] = n
    return E.for_network(cfg) if kind != "scripted" else cfg


def make_env_for(kind: str, env_name: str, n: int, rng=None, cfg: dict = None):
    """(env, cfg): the real environment for a policy kind; cfg is JSON-able (goes into the plan)."""
    cfg = cfg or env_cfg_for(kind, env_name, n, rng)
    return E.make_env(cfg), cfg
