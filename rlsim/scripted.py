"""Shared decoding seams (DESIGN 2.2 / 2.5).  No per-property logic lives here.

* ``ScriptedDecoder`` / ``make_scripted_policy`` -- an in-process fake scorer that plugs into the REAL
  ``ConstructivePolicy.forward`` loop (``NoEncoder`` + this decoder).  Its logits are a fixed
  pseudo-random table per instance, so an oracle can recompute, for one instance in isolation, what the
  decoding loop was fed.  Everything after the logits (``process_logits``, masking, selection, env
  stepping, buffers, beam back-tracking, best-of-k) is rl4co's own code.
* ``scripted_logits`` -- the pure function (numpy) behind the table.
* ``instance_keys`` / ``state_key`` -- the keys the table is indexed by (from the row's own data).
* ``ProcessLogitsTap`` -- records every ``rl4co.utils.decoding.process_logits`` call.
* ``StrategyCapture`` -- keeps the ``DecodingStrategy`` object a policy call created (per-step buffers,
  ``BeamSearch.beam_path``).
* ``SamplerFault`` -- makes ``torch.multinomial`` / ``Tensor.multinomial`` return a zero-probability
  index for a chosen row for the next j calls (the fault ``DecodingStrategy.sampling``'s retry loop
  was written for).

Keying of the table
-------------------
``key="replica"`` (default): logits of batch row r at decoder call t are
``scripted_logits(instance_key[r], replica(r), t + step_offset, n_actions, mode, seed)`` where
``replica(r) = r // B`` and ``B = batch // max(num_starts, 1)`` (``batchify`` repeats the whole batch:
rows ``[b0, b1, b0, b1]``), t counts decoder calls since ``pre_decoder_hook`` (so for multi-start the
forced first move is *not* counted: t = 0 is the first decision the decoder takes part in).

``key="state"``: logits are ``scripted_logits(instance_key[r], state_key(mask_row, current_node), 0,
...)`` -- a deterministic Markov policy: a function of the row's instance and its current state only,
independent of the slot the row sits in and of the call count.  This is what beam search needs (a
sequence hops between slots when beams are re-indexed) and what an evaluate-mode replay in a different
layout needs.

The instance key is blake2b over the bytes of the row's *static* instance tensors (``locs``,
``cost_matrix``, demands, ...: see ``INSTANCE_FIELDS``) as they appear in the td handed to
``pre_decoder_hook`` (i.e. after ``env.reset``), hence independent of batch position, batch size and
replication.  ``instance_keys(env.reset(batch))`` gives an oracle the same keys.
"""
from __future__ import annotations

import contextlib
import hashlib
import inspect
import struct
import sys

import numpy as np
import torch
import torch.nn as nn

from rl4co.models.common.constructive.autoregressive.policy import AutoregressivePolicy
from rl4co.models.common.constructive.base import ConstructiveDecoder, NoEncoder

MODES = ("gaussian", "ties", "huge", "flat", "one_dominant")

# static (never touched by _step) instance tensors, per environment family; every one that is present in
# the td is hashed, in this order.  Dynamic fields (visited, current_node, used_capacity, membership,
# ...) must not be listed: the key is computed after the forced first move of multi-start decoding.
INSTANCE_FIELDS = (
    "locs", "cost_matrix", "depot", "demand", "demand_linehaul", "demand_backhaul", "prize",
    "penalty", "deterministic_prize", "stochastic_prize", "time_windows", "durations", "service_time",
    "techs", "skills", "max_length", "distance_limit", "open_route", "num_agents", "lateness_weight",
    "run_time", "job_due_time", "job_process_time", "job_weight",
    "orig_distances", "to_choose", "orig_membership", "orig_weights", "n_sets_to_choose",
    "probe", "keepout", "start_op_per_job", "end_op_per_job", "pad_mask",
)
# fields that are static only until the first scheduling decision; used when nothing else
# distinguishes instances (FJSP/JSSP have no multi-start, so the hook always sees the reset state)
INSTANCE_FIELDS_AT_RESET = ("proc_times",)


# ------------------------------------------------------------------------------------------------
# keys and the table
# ------------------------------------------------------------------------------------------------
def _h63(*chunks: bytes) -> int:
    h = hashlib.blake2b(digest_size=8)
    for c in chunks:
        h.update(struct.pack("<q", len(c)))
        h.update(c)
    return int.from_bytes(h.digest(), "big") >> 1


def _tensor_bytes(t: torch.Tensor) -> bytes:
    t = t.detach().cpu().contiguous()
    if t.dtype == torch.bool:
        t = t.to(torch.uint8)
    return str(t.dtype).encode() + str(tuple(t.shape)).encode() + t.numpy().tobytes()


def instance_key_of_row(row, fields=None) -> int:
    """63-bit key of one instance from the bytes of its static tensors.  ``row`` maps field name ->
    tensor WITHOUT batch dimension (a row of the reset td)."""
    names = [f for f in (fields or INSTANCE_FIELDS) if f in row.keys()]
    if fields is None:
        names += [f for f in INSTANCE_FIELDS_AT_RESET if f in row.keys()]
    if not names:
        raise ValueError(f"no instance field among {sorted(row.keys())}")
    chunks = []
    for f in names:
        chunks.append(f.encode())
        chunks.append(_tensor_bytes(row[f]))
    return _h63(*chunks)


def instance_keys(td, fields=None) -> list:
    """Per-row instance keys of a batched (reset) TensorDict; depends on each row's data only."""
    names = [f for f in (fields or INSTANCE_FIELDS) if f in td.keys()]
    if fields is None:
        names += [f for f in INSTANCE_FIELDS_AT_RESET if f in td.keys()]
    if not names:
        raise ValueError(f"no instance field among {sorted(td.keys())}")
    cols = [(f, td[f]) for f in names]
    out = []
    for r in range(td.batch_size[0]):
        chunks = []
        for f, t in cols:
            chunks.append(f.encode())
            chunks.append(_tensor_bytes(t[r]))
        out.append(_h63(*chunks))
    return out


def state_key(mask_row, current_node=None) -> int:
    """Key of a row's decoding state: the advertised action mask and the current node (if any)."""
    bits = bytes(bytearray(int(b) for b in np.asarray(mask_row, dtype=np.uint8).ravel()))
    cur = b"" if current_node is None else str([int(x) for x in np.asarray(current_node).ravel()]).encode()
    return _h63(b"state", bits, cur)


def scripted_logits(instance_key: int, replica: int, step: int, n_actions: int, mode: str = "gaussian",
                    seed: int = 0) -> np.ndarray:
    """The scripted table: float32 logits [n_actions] for one (instance, replica, step).

    Pure function (numpy only, no global RNG).  Modes:
      gaussian      i.i.d. N(0,1)                       (distinct scores with probability one)
      ties          values in {-1, 0, +1}               (many exact ties)
      huge          values in {-1e4, +1e4}              (overflow / underflow of naive softmax)
      flat          all zeros
      one_dominant  0.1*N(0,1) with one entry at +20    (the dominant entry may well be masked)
    """
    if mode not in MODES:
        raise ValueError(f"unknown scripted mode {mode!r}")
    s = _h63(b"scripted", str((int(seed), int(instance_key), int(replica), int(step))).encode())
    rng = np.random.Generator(np.random.PCG64(s))
    n = int(n_actions)
    if mode == "gaussian":
        v = rng.standard_normal(n)
    elif mode == "ties":
        v = rng.integers(0, 3, size=n).astype(np.float64) - 1.0
    elif mode == "huge":
        v = (rng.integers(0, 2, size=n).astype(np.float64) * 2.0 - 1.0) * 1e4
    elif mode == "flat":
        v = np.zeros(n)
    else:  # one_dominant
        v = 0.1 * rng.standard_normal(n)
        v[int(rng.integers(0, n))] = 20.0
    return v.astype(np.float32)


# ------------------------------------------------------------------------------------------------
# decoder and policy
# ------------------------------------------------------------------------------------------------
class ScriptedDecoder(ConstructiveDecoder):
    """Decoder whose logits are the scripted table (see module docstring).

    Args:
        mode: one of ``MODES``.
        seed: table seed.
        key: ``"replica"`` -> table indexed by (instance, replica, decoder call);
             ``"state"``   -> table indexed by (instance, state_key(mask, current_node)).
        key_fields: override of ``INSTANCE_FIELDS`` (names of td entries to hash).
        learnable: multiply the table by a scalar parameter (initialised to 1) so that losses built on
            the policy's log-likelihood have a gradient path.

    Attributes readable by oracles after / during a forward pass: ``keys`` (per-row instance keys),
    ``B`` (number of distinct batch rows), ``calls`` (decoder calls so far), ``trace`` (when
    ``record=True``: per call the list of (instance_key, replica_or_state, step) used per row).

    ``layout(num_replicas=k, step_offset=d)`` is a context manager for replays in another layout
    (e.g. evaluate mode on the k-fold expanded batch *without* ``num_starts``, where the policy loop
    tells the decoder ``num_starts=0`` and the forced first move becomes an ordinary step: use
    ``step_offset=-1``).
    """

    def __init__(self, mode: str = "gaussian", seed: int = 0, key: str = "replica", key_fields=None,
                 learnable: bool = False, record: bool = False):
        super().__init__()
        if mode not in MODES:
            raise ValueError(f"unknown scripted mode {mode!r}")
        if key not in ("replica", "state"):
            raise ValueError(f"unknown key mode {key!r}")
        self.mode, self.seed, self.key, self.key_fields = mode, int(seed), key, key_fields
        self.gain = nn.Parameter(torch.ones(())) if learnable else None
        self.record = record
        self.trace = []
        self.keys, self.B, self.calls = None, None, 0
        self._force_replicas, self._step_offset = None, 0

    @contextlib.contextmanager
    def layout(self, num_replicas=None, step_offset: int = 0):
        old = (self._force_replicas, self._step_offset)
        self._force_replicas, self._step_offset = num_replicas, int(step_offset)
        try:
            yield self
        finally:
            self._force_replicas, self._step_offset = old

    def pre_decoder_hook(self, td, env, hidden=None, num_starts: int = 0):
        n = td.batch_size[0]
        k = self._force_replicas if self._force_replicas else max(int(num_starts or 0), 1)
        if n % k:
            raise ValueError(f"batch {n} is not a multiple of the replication factor {k}")
        self.B = n // k
        self.keys = instance_keys(td, self.key_fields)
        self.calls = 0
        self.trace = []
        return td, env, hidden

    def forward(self, td, hidden=None, num_starts: int = 0):
        mask = td["action_mask"]
        n, a = mask.shape[0], mask.shape[-1]
        if self.keys is None or len(self.keys) != n:
            # called outside ConstructivePolicy.forward (no hook): key the rows now
            self.pre_decoder_hook(td, None, hidden, num_starts)
        step = self.calls + self._step_offset
        rows, used = [], []
        if self.key == "state":
            m = mask.detach().cpu().numpy()
            cur = td["current_node"].detach().cpu().numpy() if "current_node" in td.keys() else None
            for r in range(n):
                sk = state_key(m[r], None if cur is None else cur[r])
                rows.append(scripted_logits(self.keys[r], sk, 0, a, self.mode, self.seed))
                used.append((self.keys[r], sk, 0))
        else:
            for r in range(n):
                rep = r // self.B
                rows.append(scripted_logits(self.keys[r], rep, step, a, self.mode, self.seed))
                used.append((self.keys[r], rep, step))
        if self.record:
            self.trace.append(used)
        table = np.stack(rows, 0)
        if getattr(self, "mem_layout", "contiguous") == "transposed":
            # scores computed node-major ([actions, rows]) and handed over as a transposed view: same values,
            # non-contiguous memory (a flattened view of it does not exist, reshape(-1) copies)
            logits = torch.from_numpy(np.ascontiguousarray(table.T)).to(mask.device).t()
        else:
            logits = torch.from_numpy(table).to(mask.device)
        if self.gain is not None:
            logits = logits * self.gain
        self.calls += 1
        return logits, mask


class ScriptedPolicy(AutoregressivePolicy):
    """Real ``AutoregressivePolicy`` (hence the real ``ConstructivePolicy.forward`` loop) with
    ``NoEncoder`` and a ``ScriptedDecoder``."""

    def __init__(self, env_name: str = "tsp", mode: str = "gaussian", seed: int = 0, key: str = "replica",
                 key_fields=None, learnable: bool = False, record: bool = False, **policy_kwargs):
        super().__init__(
            encoder=NoEncoder(),
            decoder=ScriptedDecoder(mode, seed, key=key, key_fields=key_fields, learnable=learnable,
                                    record=record),
            env_name=env_name,
            **policy_kwargs,
        )


def make_scripted_policy(env_name: str, mode: str = "gaussian", seed: int = 0, **policy_kwargs):
    """A real ConstructivePolicy subclass instance scoring with the scripted table.

    ``policy_kwargs``: ``key`` ("replica" | "state"), ``key_fields``, ``learnable``, ``record`` (go to the
    decoder) and the usual ``ConstructivePolicy`` arguments (``temperature``, ``tanh_clipping``,
    ``mask_logits``, ``train_decode_type`` ...).  The policy is returned in ``eval()`` mode.
    """
    return ScriptedPolicy(env_name, mode, seed, **policy_kwargs).eval()


# ------------------------------------------------------------------------------------------------
# process_logits tap
# ------------------------------------------------------------------------------------------------
class TapRecord:
    """One ``process_logits`` call.  ``logits`` is a clone taken BEFORE the call (the function masks its
    argument in place), ``mask`` a clone (or None), ``logprobs`` the returned tensor (detached clone)."""

    __slots__ = ("n", "logits", "mask", "temperature", "top_p", "top_k", "tanh_clipping", "mask_logits",
                 "logprobs")

    def knobs(self) -> dict:
        return {"temperature": self.temperature, "top_p": self.top_p, "top_k": self.top_k,
                "tanh_clipping": self.tanh_clipping, "mask_logits": self.mask_logits}


class ProcessLogitsTap:
    """Context manager recording every call of ``rl4co.utils.decoding.process_logits``.

    The name is re-bound in ``rl4co.utils.decoding`` (where ``DecodingStrategy.step`` looks it up) and
    in every already-imported module that did ``from rl4co.utils.decoding import process_logits``
    (matnet / l2d / eas decoders).  The function that is wrapped is whatever is bound at ``__enter__``
    (so an in-memory mutant installed earlier is what gets observed).  ``tap.call(...)`` invokes the
    wrapped function WITHOUT recording (for oracles that re-run a recorded step).

    Args:
        keep: store ``TapRecord``s in ``self.records``.
        on_call: optional ``callable(record)`` invoked after each call (still inside the library's
            ``DecodingStrategy.step``, before the selection).
    """

    def __init__(self, keep: bool = True, on_call=None):
        self.keep, self.on_call = keep, on_call
        self.records = []
        self.n = 0
        self._patched = []
        self._orig = None

    def __enter__(self):
        import rl4co.utils.decoding as dec

        orig = dec.process_logits
        self._orig = orig
        sig = inspect.signature(orig)
        tap = self

        def tapped(*args, **kwargs):
            ba = sig.bind(*args, **kwargs)
            ba.apply_defaults()
            a = ba.arguments
            rec = TapRecord()
            rec.n = tap.n
            rec.logits = a["logits"].detach().clone()
            rec.mask = None if a.get("mask") is None else a["mask"].detach().clone()
            rec.temperature = a.get("temperature", 1.0)
            rec.top_p = a.get("top_p", 0.0)
            rec.top_k = a.get("top_k", 0)
            rec.tanh_clipping = a.get("tanh_clipping", 0)
            rec.mask_logits = a.get("mask_logits", True)
            out = orig(*args, **kwargs)
            rec.logprobs = out.detach().clone()
            tap.n += 1
            if tap.keep:
                tap.records.append(rec)
            if tap.on_call is not None:
                tap.on_call(rec)
            return out

        tapped.__wrapped__ = orig
        for name in sorted(sys.modules):
            mod = sys.modules[name]
            if mod is None or not name.startswith("rl4co"):
                continue
            if getattr(mod, "__dict__", {}).get("process_logits") is orig:
                mod.__dict__["process_logits"] = tapped
                self._patched.append(mod)
        return self

    def __exit__(self, *exc):
        for mod in self._patched:
            mod.__dict__["process_logits"] = self._orig
        self._patched = []
        return False

    def call(self, logits, mask=None, **knobs):
        """Run the wrapped function on a private copy of ``logits`` (nothing is recorded)."""
        fn = self._orig
        if fn is None:
            import rl4co.utils.decoding as dec

            fn = getattr(dec.process_logits, "__wrapped__", dec.process_logits)
        return fn(logits.clone(), None if mask is None else mask.clone(), **knobs)


# ------------------------------------------------------------------------------------------------
# strategy capture
# ------------------------------------------------------------------------------------------------
class StrategyCapture:
    """Context manager that keeps the ``DecodingStrategy`` objects which policies create through
    ``get_decoding_strategy`` (``ConstructivePolicy.forward`` builds one per call and drops it).  Gives
    oracles read access to the strategy's per-step buffers (``actions``, ``logprobs``) and, for
    ``BeamSearch``, to ``beam_path`` / ``parent_beam_logprobs``.  ``last`` = most recent strategy."""

    def __init__(self):
        self.strategies = []
        self._patched = []
        self._orig = None

    @property
    def last(self):
        return self.strategies[-1] if self.strategies else None

    def __enter__(self):
        import rl4co.utils.decoding as dec

        orig = dec.get_decoding_strategy
        self._orig = orig
        cap = self

        def get_decoding_strategy(*args, **kwargs):
            st = orig(*args, **kwargs)
            cap.strategies.append(st)
            return st

        get_decoding_strategy.__wrapped__ = orig
        for name in sorted(sys.modules):
            mod = sys.modules[name]
            if mod is None or not name.startswith("rl4co"):
                continue
            if getattr(mod, "__dict__", {}).get("get_decoding_strategy") is orig:
                mod.__dict__["get_decoding_strategy"] = get_decoding_strategy
                self._patched.append(mod)
        return self

    def __exit__(self, *exc):
        for mod in self._patched:
            mod.__dict__["get_decoding_strategy"] = self._orig
        self._patched = []
        return False


# ------------------------------------------------------------------------------------------------
# sampler fault
# ------------------------------------------------------------------------------------------------
_SAMPLER_WRAPPERS = '''
def multinomial(input, num_samples, replacement=False, *, generator=None, out=None):
    kw = {} if generator is None else {"generator": generator}
    res = fn(input, num_samples, replacement, **kw)
    res = fault._maybe_fault(input, num_samples, res)
    if out is not None:
        out.copy_(res)
        return out
    return res


def tensor_multinomial(self, num_samples, replacement=False, *, generator=None):
    kw = {} if generator is None else {"generator": generator}
    res = method(self, num_samples, replacement, **kw)
    return fault._maybe_fault(self, num_samples, res)
'''


class SamplerFault:
    """Context manager wrapping ``torch.multinomial`` and ``torch.Tensor.multinomial``.

    While installed every call is counted (``calls``).  After ``skip`` untouched calls, for the next
    ``faults`` calls whose input is a 2-D ``probs`` drawn with one sample per row, the draw of row
    ``row % n_rows`` is overwritten with an index of zero probability in ``probs`` -- if one exists,
    otherwise the call passes untouched and is NOT counted as fired (the budget is kept).  Which zero-
    probability index is taken is decided by ``candidates(call_no, row, probs_row) -> list[int]`` when
    given (it may narrow the zero-probability set, e.g. to env-masked indices; an empty list = do not
    fire) and then ``pick`` ("first" | "last" | int offset into the candidate list).

    ``fired`` lists ``(call_no, row, injected_index, clean_index)``; ``arm()`` schedules another burst.
    All draws still come from torch's global RNG (seed it before the library call).
    """

    def __init__(self, row: int = 0, faults: int = 1, skip: int = 0, pick="first", candidates=None):
        self.calls = 0
        self.fired = []
        self.candidates = candidates
        self._orig_fn = None
        self._orig_method = None
        self.arm(row, faults, skip, pick)

    def arm(self, row: int = 0, faults: int = 1, skip: int = 0, pick="first"):
        self.row, self.left, self.skip, self.pick = int(row), int(faults), int(skip), pick

    @property
    def pending(self) -> int:
        return self.left

    def _maybe_fault(self, probs, num_samples, out):
        call_no = self.calls
        self.calls += 1
        if self.left <= 0:
            return out
        if self.skip > 0:
            self.skip -= 1
            return out
        if probs.dim() != 2 or num_samples != 1 or out.dim() != 2:
            return out
        r = self.row % probs.shape[0]
        zero = torch.nonzero(probs[r] <= 0).flatten().tolist()
        if self.candidates is not None and zero:
            allowed = set(self.candidates(call_no, r, probs[r]))
            zero = [z for z in zero if z in allowed]
        if not zero:
            return out
        if self.pick == "first":
            z = zero[0]
        elif self.pick == "last":
            z = zero[-1]
        else:
            z = zero[int(self.pick) % len(zero)]
        out = out.clone()
        clean = int(out[r, 0])
        out[r, 0] = z
        self.left -= 1
        self.fired.append((call_no, r, int(z), clean))
        return out

    def __enter__(self):
        self._orig_fn = torch.multinomial
        self._orig_method = torch.Tensor.multinomial
        # The two thin wrappers are compiled under a pseudo file name: an exception raised by torch's
        # multinomial itself (e.g. NaN probabilities) must be attributed to the library frame that
        # called it, not to this seam (the kernel classifies by the innermost /repo-or-/verif frame).
        ns = {"fault": self, "fn": self._orig_fn, "method": self._orig_method}
        exec(compile(_SAMPLER_WRAPPERS, "/rlsim-seam/sampler-fault", "exec"), ns)
        torch.multinomial = ns["multinomial"]
        torch.Tensor.multinomial = ns["tensor_multinomial"]
        return self

    def __exit__(self, *exc):
        torch.multinomial = self._orig_fn
        torch.Tensor.multinomial = self._orig_method
        return False
