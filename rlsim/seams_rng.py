"""Extreme-draw buggify seam for torch's random number functions (DESIGN 2.2).

`ExtremeDraw` is a context manager that wraps

    torch.rand, torch.rand_like, torch.Tensor.uniform_, torch.randint, torch.randperm, torch.normal

(`torch.distributions.Uniform.sample` draws through `torch.rand`, `Normal.sample` through
`torch.normal`, so both are covered by the wrappers) and, with a per-call probability, moves a seeded
random subset of the entries of a draw to the ends of its support:

* discrete draws (`randint`) exactly to `low` / `high-1`; `randperm` to the identity or the reversed
  permutation;
* uniform continuous draws to within 1 024 grid steps of an end, `u = k * 2**-24` or
  `u = 1 - k * 2**-24`, with an offset `k` that is used **once per context and end**: no exact
  coincidence between independent continuous draws is manufactured (two entries never receive the same
  `u`), and every injected value is a value the real generator returns with positive probability
  (torch's float32 uniform is `k * 2**-24`, `uniform_(a, b)` is `u * (b - a) + a`);
* normal draws: at most three entries per call are moved to `mean +- z * std` with `2.5 <= z < 4.0`
  (float32 Box-Muller reaches 5.7 sigma), each with its own z.

The separate `ties` sub-mode does manufacture exact coincidences (copies one entry / one coordinate
vector of a continuous draw onto another, or snaps several entries onto exactly the same end).  What
only that mode can trigger has probability ~2**-48 per pair under the real generator; callers must
report it as an observation, never as a violation.

All randomness of the seam comes from the `random.Random` handed in.  Whenever the seam changes a draw
it calls `on_fire(kind, n_entries)`.
"""
from __future__ import annotations

import random

import torch

GRID = 2.0 ** -24          # float32 uniform grid of torch's CPU generator
N_OFFSETS = 1024           # "within 1 024 ulps of the end"


class ExtremeDraw:
    def __init__(self, rng: random.Random, p_call: float = 0.5, ties: bool = False, on_fire=None,
                 extreme: bool = True):
        self.rng = rng
        self.p_call = p_call
        self.ties = ties
        self.extreme = extreme
        self.on_fire = on_fire or (lambda kind, n: None)
        self._used_lo, self._used_hi = set(), set()
        self.fired = 0
        self._saved = None
        self._depth = 0

    # ---------------------------------------------------------------------------------------------
    def __enter__(self):
        o = {
            "rand": torch.rand, "rand_like": torch.rand_like, "randint": torch.randint,
            "randperm": torch.randperm, "normal": torch.normal,
            "uniform_": torch.Tensor.uniform_,
        }
        self._saved = o
        seam = self

        def rand(*a, **k):
            out = o["rand"](*a, **k)
            return seam._continuous(out, 0.0, 1.0, "rand")

        def rand_like(*a, **k):
            out = o["rand_like"](*a, **k)
            return seam._continuous(out, 0.0, 1.0, "rand_like")

        def uniform_(self_t, *a, **k):
            out = o["uniform_"](self_t, *a, **k)
            lo = a[0] if len(a) > 0 else k.get("from", 0.0)
            hi = a[1] if len(a) > 1 else k.get("to", 1.0)
            try:
                lo, hi = float(lo), float(hi)
            except (TypeError, ValueError):
                return out
            return seam._continuous(out, lo, hi, "uniform_")

        def randint(*a, **k):
            out = o["randint"](*a, **k)
            return seam._randint(out, a, k)

        def randperm(*a, **k):
            out = o["randperm"](*a, **k)
            return seam._randperm(out)

        def normal(*a, **k):
            out = o["normal"](*a, **k)
            return seam._normal(out, a, k)

        torch.rand, torch.rand_like, torch.randint = rand, rand_like, randint
        torch.randperm, torch.normal = randperm, normal
        torch.Tensor.uniform_ = uniform_
        return self

    def __exit__(self, *exc):
        o = self._saved
        torch.rand, torch.rand_like, torch.randint = o["rand"], o["rand_like"], o["randint"]
        torch.randperm, torch.normal = o["randperm"], o["normal"]
        torch.Tensor.uniform_ = o["uniform_"]
        self._saved = None
        return False

    # ---------------------------------------------------------------------------------------------
    def _room(self) -> int:
        return (N_OFFSETS * 3) // 4 - max(len(self._used_lo), len(self._used_hi))

    def _offset(self, side: str) -> int:
        """An offset (in grid steps from the end) never used before in this context for this end."""
        used, base = (self._used_lo, 0) if side == "low" else (self._used_hi, 1)
        while True:
            k = base + self.rng.randrange(N_OFFSETS)
            if k not in used:
                used.add(k)
                return k

    def _fire(self, kind, n):
        self.fired += n
        self.on_fire(kind, n)

    def _subset(self, n: int, cap: int):
        """Seeded random subset of range(n): one entry, a few, a fraction or everything."""
        r = self.rng
        how = r.random()
        if how < 0.3:
            k = 1
        elif how < 0.55:
            k = r.randint(1, min(n, 4))
        elif how < 0.8:
            k = max(1, int(n * r.choice([0.1, 0.25, 0.5])))
        else:
            k = n
        k = max(0, min(k, n, cap))
        if k == 0:
            return []
        if k == n:
            return list(range(n))
        return sorted(r.sample(range(n), k))

    def _continuous(self, out, lo: float, hi: float, kind: str):
        if not isinstance(out, torch.Tensor) or not out.is_floating_point() or out.numel() == 0:
            return out
        r = self.rng
        if r.random() >= self.p_call:
            return out
        flat = out.reshape(-1) if out.is_contiguous() else None
        if flat is None:
            return out
        n = flat.numel()
        if self.extreme and hi > lo:
            side = r.choice(["low", "high", "mixed"])
            idx = self._subset(n, max(0, self._room()))
            us = []
            for _ in idx:
                s = side if side != "mixed" else r.choice(["low", "high"])
                if s == "low":
                    us.append(self._offset("low") * GRID)
                else:
                    us.append(1.0 - self._offset("high") * GRID)
            if idx:
                u = torch.tensor(us, dtype=out.dtype)
                vals = u if (lo == 0.0 and hi == 1.0) else u * (hi - lo) + lo
                flat[torch.tensor(idx)] = vals
                self._fire(kind, len(idx))
        if self.ties and n >= 2:
            self._tie(out, lo, hi, kind)
        return out

    def _tie(self, out, lo, hi, kind):
        """ties sub-mode: manufacture exact coincidences (observation-only territory)."""
        r = self.rng
        how = r.random()
        if how < 0.6 and out.dim() >= 3 and out.shape[-2] >= 2:
            rows = out.reshape(-1, out.shape[-2], out.shape[-1])
            m = 0
            for _ in range(r.randint(1, 2)):
                b = r.randrange(rows.shape[0])
                i, j = r.sample(range(rows.shape[1]), 2)
                rows[b, j] = rows[b, i]
                m += 1
            self._fire("tie:vector:" + kind, m)
        elif how < 0.85:
            rows = out.reshape(out.shape[0], -1) if out.dim() >= 2 else out.reshape(1, -1)
            if rows.shape[1] >= 2:
                b = r.randrange(rows.shape[0])
                i, j = r.sample(range(rows.shape[1]), 2)
                rows[b, j] = rows[b, i]
                self._fire("tie:entry:" + kind, 1)
        else:
            flat = out.reshape(-1)
            k = min(flat.numel(), r.randint(2, 6))
            idx = r.sample(range(flat.numel()), k)
            u = 0.0 if r.random() < 0.5 else 1.0 - GRID
            flat[torch.tensor(idx)] = torch.tensor(u * (hi - lo) + lo, dtype=out.dtype)
            self._fire("tie:snap:" + kind, k)

    # ---------------------------------------------------------------------------------------------
    @staticmethod
    def _randint_bounds(a, k):
        ints = []
        for x in a:
            if isinstance(x, bool):
                return None
            if isinstance(x, int):
                ints.append(x)
            elif isinstance(x, torch.Tensor) and x.dim() == 0 and not x.is_floating_point():
                ints.append(int(x))
            else:
                break  # the size argument
        low, high = k.get("low"), k.get("high")
        if len(ints) == 2:
            low, high = ints
        elif len(ints) == 1:
            if high is None:
                high = ints[0]
            else:
                low = ints[0]
        if high is None:
            return None
        if low is None:
            low = 0
        return int(low), int(high)

    def _randint(self, out, a, k):
        if not self.extreme or not isinstance(out, torch.Tensor) or out.numel() == 0:
            return out
        r = self.rng
        if r.random() >= self.p_call:
            return out
        b = self._randint_bounds(a, k)
        if b is None or b[1] - b[0] <= 1 or not out.is_contiguous():
            return out
        low, high = b
        flat = out.reshape(-1)
        idx = self._subset(flat.numel(), flat.numel())
        side = r.choice(["low", "high", "mixed"])
        vals = []
        for _ in idx:
            s = side if side != "mixed" else r.choice(["low", "high"])
            vals.append(low if s == "low" else high - 1)
        if idx:
            flat[torch.tensor(idx)] = torch.tensor(vals, dtype=out.dtype)
            self._fire("randint", len(idx))
        return out

    def _randperm(self, out):
        if not self.extreme or not isinstance(out, torch.Tensor) or out.numel() < 2:
            return out
        r = self.rng
        if r.random() >= self.p_call:
            return out
        n = out.numel()
        asc = torch.arange(n, dtype=out.dtype)
        out.copy_(asc if r.random() < 0.5 else asc.flip(0))
        self._fire("randperm", n)
        return out

    def _normal(self, out, a, k):
        if not self.extreme or not isinstance(out, torch.Tensor) or out.numel() == 0:
            return out
        r = self.rng
        if r.random() >= self.p_call:
            return out
        mean = a[0] if len(a) > 0 else k.get("mean", 0.0)
        std = a[1] if len(a) > 1 else k.get("std", 1.0)
        try:
            mean = torch.broadcast_to(torch.as_tensor(mean, dtype=out.dtype), out.shape).reshape(-1)
            std = torch.broadcast_to(torch.as_tensor(std, dtype=out.dtype), out.shape).reshape(-1)
        except (RuntimeError, TypeError):
            return out
        if not out.is_contiguous():
            return out
        flat = out.reshape(-1)
        n = flat.numel()
        idx = sorted(r.sample(range(n), min(n, r.randint(1, 3))))
        for i in idx:
            z = (2.5 + 1.5 * r.random()) * (1.0 if r.random() < 0.5 else -1.0)
            flat[i] = mean[i] + z * std[i]
        self._fire("normal", len(idx))
        return out
