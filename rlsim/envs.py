"""Environment adapters: build real rl4co environments from a JSON-able configuration, draw
instances from the real generators, convert instances to/from JSON-able rows and stack rows
into batches.  Nothing here re-implements environment logic."""
from __future__ import annotations

import atexit
import os
import shutil
import tempfile

import numpy as np
import torch
from tensordict import TensorDict

from .kernel import HarnessError

_DT = {
    "float32": torch.float32, "float64": torch.float64, "int64": torch.int64,
    "int32": torch.int32, "bool": torch.bool, "uint8": torch.uint8,
    "complex64": torch.complex64, "float16": torch.float16,
}


def enc_tensor(t: torch.Tensor):
    return {"d": str(t.dtype).replace("torch.", ""), "v": t.tolist()}


def dec_tensor(e) -> torch.Tensor:
    return torch.tensor(e["v"], dtype=_DT[e["d"]])


def enc_row(row: dict) -> dict:
    return {k: enc_tensor(v) for k, v in row.items()}


def dec_row(row: dict) -> dict:
    return {k: dec_tensor(v) for k, v in row.items()}


def td_rows(td: TensorDict) -> list:
    """Split a batched TensorDict into per-instance dicts of tensors (clones)."""
    out = []
    for i in range(td.batch_size[0]):
        out.append({k: td[k][i].clone() for k in td.keys()})
    return out


def stack_rows(rows: list, pad_last: tuple = ()) -> TensorDict:
    """Stack per-instance dicts into a batch.  Keys in pad_last are zero padded on their last
    dimension to the widest row (MCP membership)."""
    keys = list(rows[0].keys())
    data = {}
    for k in keys:
        ts = [r[k] for r in rows]
        if k in pad_last:
            w = max(t.shape[-1] for t in ts)
            ts = [torch.nn.functional.pad(t, (0, w - t.shape[-1])) for t in ts]
        data[k] = torch.stack(ts, 0)
    return TensorDict(data, batch_size=[len(rows)])


# ------------------------------------------------------------------------------------------------
# stub data for the EDA environments
# ------------------------------------------------------------------------------------------------
_STUB_DIR = None


def eda_stub_dir(size: int = 8, num_freq: int = 3) -> str:
    """Create (once per process tree) a directory holding small random PDN data files; returns the
    directory to chdir into (DPPEnv's default generator reads data/dpp relative to the cwd)."""
    global _STUB_DIR
    if _STUB_DIR is not None and os.path.isdir(_STUB_DIR):
        return _STUB_DIR
    d = tempfile.mkdtemp(prefix="rlsim-eda-")
    dd = os.path.join(d, "data", "dpp")
    os.makedirs(dd)
    rs = np.random.RandomState(7)
    n = size * size
    a = rs.rand(num_freq, n, n) + 1j * rs.rand(num_freq, n, n)
    a = a + a.transpose(0, 2, 1) + n * np.eye(n)[None]
    np.save(os.path.join(dd, "10x10_pkg_chip.npy"), a.astype(np.complex64))
    np.save(os.path.join(dd, "01nF_decap.npy"), (rs.rand(num_freq, 1, 1) + 1j * rs.rand(num_freq, 1, 1)).astype(np.complex64))
    np.save(os.path.join(dd, "freq_201.npy"), np.linspace(1e6, 1e9, num_freq).astype(np.float32))
    _STUB_DIR = d
    pid = os.getpid()

    def _cleanup():
        if os.getpid() == pid:
            shutil.rmtree(d, ignore_errors=True)

    atexit.register(_cleanup)
    return d


# ------------------------------------------------------------------------------------------------
# environment construction
# ------------------------------------------------------------------------------------------------
ROUTING = ["tsp", "atsp", "cvrp", "cvrptw", "sdvrp", "svrp", "op", "pctsp", "spctsp", "pdp",
           "mtsp", "mdcpdp", "mtvrp"]
SCHEDULING = ["fjsp", "jssp", "ffsp", "smtwtp"]
SELECTION = ["flp", "mcp", "dpp", "mdpp"]
ALL_CONSTRUCTIVE = ROUTING + SCHEDULING + SELECTION

MTVRP_VARIANTS = ["cvrp", "ovrp", "vrpb", "vrpl", "vrptw", "ovrptw", "ovrpb", "ovrpl", "vrpbl",
                  "vrpbtw", "vrpltw", "ovrpbl", "ovrpbtw", "ovrpltw", "vrpbltw", "ovrpbltw"]


def only_filter(names):
    """RLSIM_ONLY=env1,env2 restricts a check to some environments (debugging aid)."""
    only = os.environ.get("RLSIM_ONLY")
    if not only:
        return list(names)
    sel = [n for n in names if n in only.split(",")]
    return sel or list(names)


def sample_cfg(name: str, rng, tier: str = "quick", small: bool = True) -> dict:
    """Swarm configuration for one environment: sizes and constructor modes."""
    big = (not small) or rng.random() < 0.08
    n = rng.choice([20, 30, 50]) if big else rng.randint(3, 8)
    cfg = {"env": name, "n": n, "kw": {}, "gen": {}}
    if name in ("tsp", "atsp"):
        cfg["gen"] = {"num_loc": max(n, 3)}
        if name == "atsp":
            cfg["gen"]["tmat_class"] = rng.random() < 0.7
    elif name in ("cvrp", "sdvrp"):
        cfg["gen"] = {"num_loc": n}
        if rng.random() < 0.4:
            # 9 = max_demand: a customer may need the whole vehicle (demand == capacity exactly)
            cfg["gen"]["capacity"] = rng.choice([9, 9, 10, 12, 15, 20, 30, 40])
        # documented generator option: a vehicle smaller than the demand normalisation (default 1.0)
        if name == "sdvrp" and rng.random() < 0.25:
            cfg["gen"]["vehicle_capacity"] = rng.choice([0.5, 0.25, 0.75, 2.0])  # dyadic: exact boundary instances stay exact
        elif name == "cvrp" and rng.random() < 0.15:
            cfg["gen"]["vehicle_capacity"] = 0.5
            cfg["gen"]["capacity"] = rng.choice([18, 20, 30, 40])  # max demand 9: 9/18 fills it exactly
            if rng.random() < 0.4:
                cfg["gen"]["vehicle_capacity"] = 2.0  # a vehicle larger than the normalisation
    elif name == "cvrptw":
        cfg["gen"] = {"num_loc": n, "scale": rng.random() < 0.4}
        if rng.random() < 0.4:
            cfg["gen"]["capacity"] = rng.choice([9, 10, 15, 20, 30])
    elif name == "svrp":
        k = rng.randint(2, 4)  # a single technician is degenerate (see DESIGN 7, observations)
        cfg["gen"] = {"num_loc": n, "tech_costs": [1, 2, 3, 4][:k]}
    elif name == "op":
        cfg["gen"] = {"num_loc": n, "prize_type": rng.choice(["dist", "unif", "const"])}
        if not big:
            cfg["gen"]["max_length"] = rng.choice([1.0, 1.5, 2.0, 3.0])
        cfg["kw"] = {"prize_type": cfg["gen"]["prize_type"]}
        if rng.random() < 0.3:
            # the environment's own `prize_type` argument is only validated; the prizes are the instance's
            cfg["kw"] = {"prize_type": rng.choice(["dist", "unif", "const"])}
    elif name in ("pctsp", "spctsp"):
        cfg["gen"] = {"num_loc": n}
    elif name == "pdp":
        n = n + (n % 2)
        cfg["n"] = n
        cfg["gen"] = {"num_loc": n}
        cfg["kw"] = {"force_start_at_depot": rng.random() < 0.5}
    elif name == "mtsp":
        m = rng.randint(1, max(1, min(4, n - 2)))
        cfg["gen"] = {"num_loc": max(n, 3), "min_num_agents": 1, "max_num_agents": m}
        cfg["kw"] = {"cost_type": rng.choice(["minmax", "minmax", "sum"])}
    elif name == "mdcpdp":
        n = n + (n % 2)
        cfg["n"] = n
        cfg["gen"] = {"num_loc": n, "num_depot": 1, "max_capacity": rng.choice([1, 2, 3, 5])}
        cfg["kw"] = {"reward_mode": rng.choice(["minmax", "minsum", "lateness"]),
                     "problem_mode": rng.choice(["close", "open"]),
                     "dist_mode": rng.choice(["L1", "L2"])}
        if rng.random() < 0.5:
            cfg["gen"]["min_lateness_weight"] = 0.25
            cfg["gen"]["max_lateness_weight"] = 0.75
    elif name == "mtvrp":
        # mixed-variant batches are the documented default use ("all"): give them real weight, and some
        # mid-size instances so that route-level limits (time, distance) bind
        if rng.random() < 0.3:
            n = rng.randint(12, 24)
            cfg["n"] = n
        preset = "all" if rng.random() < 0.4 else rng.choice(MTVRP_VARIANTS)
        cfg["gen"] = {"num_loc": n, "variant_preset": preset}
        if rng.random() < 0.3:
            cfg["gen"]["speed"] = rng.choice([0.8, 2.0])  # 0.5 makes far customers unreachable within max_time
        if rng.random() < 0.15:
            cfg["gen"]["scale_demand"] = False  # documented: integer demands against the original capacity
    elif name == "fjsp":
        j, m = (rng.randint(2, 4), rng.randint(2, 3)) if not big else (rng.randint(5, 10), rng.randint(3, 5))
        lo = rng.randint(1, 3)
        cfg["gen"] = {"num_jobs": j, "num_machines": m, "min_ops_per_job": lo,
                      "max_ops_per_job": lo + rng.randint(0, 2),
                      # 4000: long horizons (fine time units) - completion times beyond the 9999 used as
                      # "not scheduled yet" finish time
                      "max_processing_time": rng.choice([5, 20, 20, 4000]),
                      "same_mean_per_op": rng.random() < 0.5}
        cfg["kw"] = {"mask_no_ops": rng.random() < 0.5}
        if rng.random() < 0.15:
            # dense per-step rewards (the step-wise PPO set-up): what get_reward(td, actions) reports for the complete
            # action sequence is still the makespan
            cfg["kw"]["stepwise_reward"] = True
    elif name == "jssp":
        j, m = (rng.randint(2, 4), rng.randint(2, 3)) if not big else (rng.randint(5, 8), rng.randint(3, 5))
        one2one = rng.random() < 0.5
        cfg["gen"] = {"num_jobs": j, "num_machines": m, "one2one_ma_map": one2one,
                      "max_processing_time": rng.choice([5, 20, 99, 4000])}
        if not one2one:
            lo = rng.randint(1, 3)
            cfg["gen"]["min_ops_per_job"] = lo
            cfg["gen"]["max_ops_per_job"] = lo + rng.randint(0, 2)
        cfg["kw"] = {"mask_no_ops": rng.random() < 0.5}
        if rng.random() < 0.15:
            cfg["kw"]["stepwise_reward"] = True
    elif name == "ffsp":
        cfg["gen"] = {"num_stage": rng.randint(1, 3), "num_machine": rng.randint(1, 3),
                      "num_job": rng.randint(2, 5) if not big else rng.randint(6, 12),
                      "min_time": rng.choice([1, 2]), "max_time": rng.choice([4, 10]),
                      # False is what configs/env/ffsp*.yaml and the multi-stage MatNet policy use
                      "flatten_stages": rng.random() < 0.5}
    elif name == "smtwtp":
        cfg["gen"] = {"num_job": n}
    elif name == "flp":
        cfg["gen"] = {"num_loc": max(n, 3) + 2, "to_choose": rng.randint(1, max(1, n - 1))}
    elif name == "mcp":
        ns = max(n, 3)
        lo = rng.randint(1, 3)
        cfg["gen"] = {"num_items": rng.randint(4, 12), "num_sets": ns, "min_size": lo,
                      "max_size": lo + rng.randint(0, 3),
                      "n_sets_to_choose": rng.randint(1, ns - 1)}
    elif name in ("dpp", "mdpp"):
        size = 8
        cfg["gen"] = {"num_keepout_min": 1, "num_keepout_max": rng.choice([2, 8, 30]),
                      "max_decaps": rng.randint(1, 5)}
        if name == "mdpp":
            cfg["gen"]["num_probes_min"] = 2  # one probe crashes the reward (squeeze), DESIGN 7 obs.
            cfg["gen"]["num_probes_max"] = rng.choice([3, 5])
        cfg["size"] = size
    else:
        raise HarnessError(f"unknown env {name}")
    # location distributions other than the unit-box uniform (documented `loc_distribution` argument):
    # normal coordinates leave the [min_loc, max_loc] box, which is where bounds "valid for the box" break
    if name in ("tsp", "cvrp", "sdvrp", "svrp", "op", "pctsp", "spctsp", "pdp", "mtsp", "flp") \
            and rng.random() < 0.15:
        cfg["gen"].update(loc_distribution="normal", loc_mean=0.5, loc_std=rng.choice([0.2, 1.0, 3.0]))
    return cfg


def make_env(cfg: dict, check_solution: bool = False):
    """Build the real environment for a configuration."""
    name = cfg["env"]
    kw = dict(cfg.get("kw", {}))
    gen = dict(cfg.get("gen", {}))
    if name in ("dpp", "mdpp"):
        d = eda_stub_dir(cfg.get("size", 8))
        os.chdir(d)
        gen["data_dir"] = os.path.join(d, "data", "dpp")
    from rl4co.envs import get_env

    if name in ("fjsp", "jssp", "ffsp", "flp", "mcp", "mtvrp"):
        # these fix check_solution themselves or take it positionally
        if name in ("flp", "mcp", "mtvrp"):
            kw["check_solution"] = check_solution
        return get_env(name, generator_params=gen, **kw)
    return get_env(name, generator_params=gen, check_solution=check_solution, **kw)


PAD_LAST = {"mcp": ("membership",)}


def gen_rows(env, cfg, k: int, torch_seed: int, retries: int = 8):
    """k instances from the environment's real generator (seeded)."""
    last = None
    for a in range(retries):
        torch.manual_seed(torch_seed + a)
        try:
            td = env.generator(batch_size=[k])
            return td_rows(td)
        except Exception as e:  # noqa: BLE001  (generator defects are C18's business)
            last = e
    raise HarnessError(f"generator for {cfg['env']} failed {retries} times: {last!r}")


def batch_of(cfg, rows):
    return stack_rows(rows, PAD_LAST.get(cfg["env"], ()))


def reset(env, cfg, rows):
    """env.reset on a fresh stacked batch (reset mutates its input, so always a new object)."""
    return env.reset(batch_of(cfg, [{k: v.clone() for k, v in r.items()} for r in rows]))


def done_vec(td) -> torch.Tensor:
    """Per-row done flag as a [B] bool vector.  MCP/FLP with a [B,1] quota broadcast `done` to [B,B]
    (row i's own flag is on the diagonal; after rows were dropped or replicated the matrix is no longer
    square and, quotas being uniform per batch, any column serves)."""
    d = td["done"]
    if d.dim() == 2 and d.shape[1] != 1:
        d = d.diagonal() if d.shape[0] == d.shape[1] else d[:, 0]
    return d.reshape(d.shape[0], -1)[:, 0].bool()


def step(env, td, actions: torch.Tensor):
    td.set("action", actions)
    return env.step(td)["next"]


def hand_format(name: str, rows: list, rng):
    """Rewrite generator rows into other *documented-format* instances the generator never emits
    (hand-supplied data): CVRPTW with non-zero service durations (Solomon style) that keep the
    documented invariant close_j + duration_j + d(j, depot) <= depot close.  Returns (rows, tag)."""
    if name == "cvrptw":
        out = []
        for r in rows:
            r = {k: v.clone() for k, v in r.items()}
            locs = torch.cat((r["depot"][None], r["locs"]), 0)
            d0 = (locs - locs[0]).norm(dim=-1)
            tw = r["time_windows"].to(torch.float32)
            max_time = tw[0, 1]
            slack = (max_time - tw[:, 1] - d0).clamp(min=0)
            frac = torch.tensor([rng.random() for _ in range(tw.shape[0])])
            dur = (slack * frac * 0.9).to(r["durations"].dtype)
            dur[0] = 0
            r["durations"] = dur
            out.append(r)
        return out, "hand:cvrptw_durations"
    if name == "op":
        # per-instance length budgets other than the environment generator's (loaded / hand-made data; a batch
        # may mix budgets): the budget is part of the instance, not of the environment
        out = []
        for r in rows:
            r = {k: v.clone() for k, v in r.items()}
            r["max_length"] = r["max_length"] * rng.choice([0.5, 0.75, 1.0, 1.25])
            out.append(r)
        return out, "hand:op_budgets"
    if name in ("pctsp", "spctsp"):
        # instances whose total prize cannot reach the requirement (the documented "visit everybody instead"
        # case), mixed with ordinary ones
        out = []
        for i, r in enumerate(rows):
            r = {k: v.clone() for k, v in r.items()}
            if rng.random() < 0.6:
                for key in ("deterministic_prize", "stochastic_prize"):
                    tot = float(r[key].sum())
                    r[key] = r[key] * (rng.choice([0.5, 0.9]) / max(tot, 1e-9))
            out.append(r)
        return out, "hand:pctsp_low_prize"
    if name == "svrp":
        # discrete skill levels (technicians stay in ascending order, as the generator documents): a customer may
        # need exactly the level of a technician ("greater or equal" is enough), and technicians may tie
        out = []
        for r in rows:
            r = {k: v.clone() for k, v in r.items()}
            K, n = r["techs"].shape[0], r["skills"].shape[0]
            techs = sorted(float(rng.randint(1, 5)) for _ in range(K))
            top = techs[-1]
            skills = [float(rng.choice(techs)) if rng.random() < 0.6 else float(rng.randint(1, int(top))) for _ in range(n)]
            r["techs"] = torch.tensor(techs, dtype=r["techs"].dtype).reshape(r["techs"].shape)
            r["skills"] = torch.tensor(skills, dtype=r["skills"].dtype).reshape(r["skills"].shape)
            out.append(r)
        return out, "hand:svrp_discrete_levels"
    if name == "smtwtp":
        # benchmark-style integer data (OR-library wt files): integer processing times, weights and due dates;
        # a job may take no time at all (the generator's range [0, max) includes 0).  Entry 0 stays the dummy.
        out = []
        for r in rows:
            r = {k: v.clone() for k, v in r.items()}
            n = r["job_process_time"].shape[0] - 1
            pt = [float(rng.randint(0, 9)) for _ in range(n)]
            if n >= 2 and rng.random() < 0.6:
                pt[rng.randrange(n)] = 0.0
            tot = max(sum(pt), 1.0)
            r["job_process_time"] = torch.tensor([0.0] + pt, dtype=r["job_process_time"].dtype)
            r["job_weight"] = torch.tensor([0.0] + [float(rng.randint(1, 10)) for _ in range(n)],
                                           dtype=r["job_weight"].dtype)
            r["job_due_time"] = torch.tensor([0.0] + [float(rng.randint(0, int(tot))) for _ in range(n)],
                                             dtype=r["job_due_time"].dtype)
            out.append(r)
        return out, "hand:smtwtp_integer"
    if name == "mcp":
        # a set without members (all padding; MCPGenerator(min_size=0) emits them): legal data -- it can still be
        # chosen, it just covers nothing
        out = []
        for r in rows:
            r = {k: v.clone() for k, v in r.items()}
            if rng.random() < 0.7:
                r["membership"][rng.randrange(r["membership"].shape[0])] = 0
            out.append(r)
        return out, "hand:mcp_empty_set"
    if name == "atsp":
        # cost matrices in real units (minutes, kilometres): the matrix is the instance, whatever range the
        # environment's own generator draws from.  Scaling keeps the triangle inequality.
        out = []
        for r in rows:
            r = {k: v.clone() for k, v in r.items()}
            r["cost_matrix"] = r["cost_matrix"] * rng.choice([0.25, 1.0, 3.0, 10.0])
            out.append(r)
        return out, "hand:atsp_units"
    return rows, "generator"


CROSS_SIZE_ENVS = ["tsp", "cvrp", "sdvrp", "cvrptw", "svrp", "op", "mtvrp"]


def cross_size_cfg(cfg: dict, rng):
    """Configuration of an environment built for ANOTHER size than the instances it will be given.  These
    environments take every size from the data ("we do not enforce loading from self for flexibility"):
    cross-size evaluation is ordinary use, and must change nothing."""
    import copy

    if cfg["env"] not in CROSS_SIZE_ENVS:
        return None
    c = copy.deepcopy(cfg)
    n = cfg["gen"]["num_loc"]
    c["gen"]["num_loc"] = rng.choice([max(2, n - rng.randint(1, 3)), n + rng.randint(1, 4)])
    return c


def for_network(cfg: dict) -> dict:
    """Configuration tweak for scenarios that compare a REAL neural policy across batch layouts: unscaled
    CVRPTW (coordinates up to 150, times up to 480) makes the attention logits so ill-conditioned that two
    layouts differ by 1e-4..1e-3 in float32 without any defect; such comparisons use the generator's documented
    `scale=True` (all features in [0,1]).  The scripted decoder and all environment-level checks keep both."""
    if cfg.get("env") == "cvrptw":
        cfg["gen"]["scale"] = True
    return cfg
