"""Reference models for training losses and running statistics (C16, C20).

Numeric part: pure Python float64 on lists (math.fsum), written from the definitions
  REINFORCE        L = -mean_i((R_i - b_i) * ll_i) + L_baseline
  shared baseline  b_i = mean of R over the rollouts of i's own instance (POMO, Kwon et al. 2020)
  SymNCO           L = L_ps + beta * L_ss + alpha * L_inv, both REINFORCE terms with a group-mean baseline
  A2C              REINFORCE with b = V(x) (constant w.r.t. the actor) and L_baseline = MSE(V(x), R)
  PPO              L = -mean(min(rho*A, clip(rho, 1-eps, 1+eps)*A)) + c_v * Huber(V, R) - c_e * mean(H)
                   with rho = exp(ll_new - ll_old), A = R - V (constant), optional standardisation of A
  running stats    two-pass mean and sample standard deviation of everything observed so far
  EMA              v_0 = mean(R_0), v_t = beta * v_{t-1} + (1 - beta) * mean(R_t)
  warm-up          alpha after the callback of epoch e (< n): (e + 1) / n; value alpha*inner + (1-alpha)*EMA
Torch part (`t_*`): the same surrogates as float64 torch expressions of the *graph-carrying* tensors
(log-likelihood, critic value, entropy) with every other quantity entered as a constant, used only to
obtain reference gradients by autograd on the library's own forward graph.

Nothing in here imports rl4co.
"""
from __future__ import annotations

import math

F32_EPS = 1.1920928955078125e-07  # torch.finfo(torch.float32).eps
F64_EPS = 2.220446049250313e-16


# ------------------------------------------------------------------------------------------------
# small helpers
# ------------------------------------------------------------------------------------------------
def mean(xs) -> float:
    xs = list(xs)
    return math.fsum(xs) / len(xs)


def two_pass(xs):
    """(mean, sample std) of xs in float64; std is nan for fewer than two values."""
    xs = list(xs)
    n = len(xs)
    m = math.fsum(xs) / n
    if n < 2:
        return m, float("nan")
    var = math.fsum((x - m) * (x - m) for x in xs) / (n - 1)
    return m, math.sqrt(var)


def tol(ref: float, n: int = 1, base: float = 1e-5) -> float:
    """DESIGN section 4: |d| <= 1e-5 * max(1, |ref|) * sqrt(n)."""
    return base * max(1.0, abs(ref)) * math.sqrt(max(n, 1))


def close(got: float, ref: float, n: int = 1, base: float = 1e-5) -> bool:
    if got != got or ref != ref:
        return (got != got) and (ref != ref)
    return abs(got - ref) <= tol(ref, n, base)


# ------------------------------------------------------------------------------------------------
# instance identity of a rollout: reward recomputed on the instance the row is claimed to belong to
# ------------------------------------------------------------------------------------------------
def tour_cost(env_name: str, coords, actions) -> float:
    """Length of the solution `actions` on one instance.  coords: list of (x, y); for cvrp index 0 is
    the depot, the route starts and ends there.  tsp: closed tour over the actions."""
    def d(a, b):
        return math.hypot(coords[a][0] - coords[b][0], coords[a][1] - coords[b][1])

    acts = [int(a) for a in actions]
    if env_name == "tsp":
        return math.fsum(d(acts[i], acts[(i + 1) % len(acts)]) for i in range(len(acts)))
    if env_name == "cvrp":
        seq = [0] + acts + [0]
        return math.fsum(d(seq[i], seq[i + 1]) for i in range(len(seq) - 1))
    raise ValueError(env_name)


# ------------------------------------------------------------------------------------------------
# REINFORCE family
# ------------------------------------------------------------------------------------------------
def reinforce(reward, ll, baseline, bl_loss: float = 0.0, advantage_map=None):
    """-mean((R - b) * ll) + bl_loss.  baseline: scalar or list aligned with reward.
    advantage_map: optional function applied to the list of advantages (reward scaling)."""
    n = len(reward)
    b = baseline if isinstance(baseline, (list, tuple)) else [baseline] * n
    adv = [reward[i] - b[i] for i in range(n)]
    if advantage_map is not None:
        adv = advantage_map(adv)
    pg = -math.fsum(adv[i] * ll[i] for i in range(n)) / n
    return pg + bl_loss, pg, adv


def groups_by_instance(n_flat: int, B: int):
    """Replicated rollouts are laid out replica-major: flat row f belongs to instance f % B."""
    g = [[] for _ in range(B)]
    for f in range(n_flat):
        g[f % B].append(f)
    return g


def shared_baseline(reward, B: int):
    """Per flat row: mean reward over the rollouts of the same instance."""
    gs = groups_by_instance(len(reward), B)
    b = [0.0] * len(reward)
    means = []
    for g in gs:
        m = mean(reward[f] for f in g)
        means.append(m)
        for f in g:
            b[f] = m
    return b, means


def symnco_groups(B: int, S: int, A: int):
    """The two partitions of an instance's S*A rollouts used by the symmetric losses.

    Rollouts of instance b are the flat rows p*B + b, p = 0..S*A-1 (S = max(num_starts, 1)).
    `blocks`  : consecutive runs of S replica indices  {i*S + k : k}   (one per i in 0..A-1)
    `strides` : every S-th replica index               {i*S + k : i}   (one per k in 0..S-1)
    Which of the two is "starts" and which "augmentations" is left open (DESIGN section 7); both are
    partitions of one instance's rollouts, which is all the property states."""
    blocks, strides = [], []
    for b in range(B):
        for i in range(A):
            blocks.append([(i * S + k) * B + b for k in range(S)])
        for k in range(S):
            strides.append([(i * S + k) * B + b for i in range(A)])
    return blocks, strides


def group_mean_pg(reward, ll, groups):
    """-mean over all rows of (R - mean of own group) * ll; also returns the advantages."""
    n = len(reward)
    adv = [None] * n
    for g in groups:
        m = mean(reward[f] for f in g)
        for f in g:
            adv[f] = reward[f] - m
    if any(a is None for a in adv):
        raise ValueError("groups do not cover all rows")
    return -math.fsum(adv[f] * ll[f] for f in range(n)) / n, adv


def symnco(reward, ll, B, num_starts, num_augment, beta, alpha, loss_inv):
    """(total, L_ps, L_ss): L_ps only with more than one start, L_ss / L_inv only with more than
    one augmentation; L_inv is taken as given (not a policy-gradient term)."""
    S = num_starts if num_starts > 1 else 1
    A = num_augment if num_augment > 1 else 1
    blocks, strides = symnco_groups(B, S, A)
    ps = group_mean_pg(reward, ll, blocks)[0] if S > 1 else 0.0
    ss = group_mean_pg(reward, ll, strides)[0] if A > 1 else 0.0
    inv = loss_inv if A > 1 else 0.0
    return ps + beta * ss + alpha * inv, ps, ss


def mse(v, r) -> float:
    return math.fsum((v[i] - r[i]) ** 2 for i in range(len(v))) / len(v)


def huber(v, r, delta: float = 1.0) -> float:
    out = []
    for i in range(len(v)):
        d = abs(v[i] - r[i])
        out.append(0.5 * d * d if d <= delta else delta * (d - 0.5 * delta))
    return math.fsum(out) / len(out)


def ppo(ll_new, ll_old, reward, value, entropy, clip, vf_lambda, entropy_lambda, normalize_adv):
    """(total, surrogate, value_loss, mean entropy, ratios, advantages)."""
    n = len(reward)
    ratio = [math.exp(ll_new[i] - ll_old[i]) for i in range(n)]
    adv = [reward[i] - value[i] for i in range(n)]
    if normalize_adv:
        m, s = two_pass(adv)
        adv = [(a - m) / (s + 1e-8) for a in adv]
    terms = []
    for i in range(n):
        clipped = min(max(ratio[i], 1.0 - clip), 1.0 + clip)
        terms.append(min(ratio[i] * adv[i], clipped * adv[i]))
    surr = -math.fsum(terms) / n
    vl = huber(value, reward)
    ent = mean(entropy)
    return surr + vf_lambda * vl - entropy_lambda * ent, surr, vl, ent, ratio, adv


# ------------------------------------------------------------------------------------------------
# running statistics / stateful baselines
# ------------------------------------------------------------------------------------------------
class RunningStats:
    """Everything observed so far, kept; statistics by two passes."""

    def __init__(self):
        self.values = []
        self._cache = None
        self._scale = 0.0

    def observe(self, xs):
        xs = [float(x) for x in xs]
        self.values.extend(xs)
        self._cache = None
        self._scale = max(self._scale, max((abs(v) for v in xs), default=0.0))

    @property
    def count(self):
        return len(self.values)

    def mean_std(self):
        if self._cache is None:
            self._cache = two_pass(self.values)  # recomputed from scratch after every observation
        return self._cache

    def scale(self):
        return self._scale


def scaler_transform(xs, mode, stats: RunningStats = None, eps: float = F32_EPS):
    """Stated transformation of RewardScaler: None -> x; int k -> x / k; 'norm' -> (x - mean) /
    (std + eps); 'scale' -> x / (std + eps), statistics over everything observed *including* xs."""
    if mode is None:
        return list(xs)
    if isinstance(mode, int):
        return [x / mode for x in xs]
    m, s = stats.mean_std()
    if mode == "norm":
        return [(x - m) / (s + eps) for x in xs]
    if mode == "scale":
        return [x / (s + eps) for x in xs]
    raise ValueError(mode)


class EMA:
    """v_0 = mean(R_0); v_t = beta * v_{t-1} + (1 - beta) * mean(R_t)."""

    def __init__(self, beta: float):
        self.beta = beta
        self.v = None

    def peek(self, rewards) -> float:
        m = mean(rewards)
        if self.v is None:
            return m
        return self.beta * self.v + (1.0 - self.beta) * m

    def update(self, rewards) -> float:
        self.v = self.peek(rewards)
        return self.v


class Warmup:
    """alpha starts at 0; the callback of epoch e < n sets alpha = (e + 1) / n; callbacks with e >= n
    leave it (after n consecutive epochs it is 1 already).  value = alpha * inner + (1 - alpha) * EMA;
    at alpha == 0 only the EMA is consulted (and advanced), at alpha == 1 only the inner baseline."""

    def __init__(self, n_epochs: int, beta: float):
        self.n = n_epochs
        self.alpha = 0.0
        self.ema = EMA(beta)

    def callback(self, epoch: int):
        if epoch < self.n:
            self.alpha = (epoch + 1) / float(self.n)

    def stated_alpha(self, epoch: int) -> float:
        """min(1, (e + 1) / n): what a schedule 'from zero to one over n epochs' gives for any e."""
        return min(1.0, (epoch + 1) / float(self.n))

    def value(self, rewards, inner_value, inner_loss: float = 0.0):
        """inner_value: scalar or list (None when the inner baseline is not consulted)."""
        a = self.alpha
        if a == 1:
            return inner_value, inner_loss
        v = self.ema.update(rewards)
        if a == 0:
            return v, 0.0
        if isinstance(inner_value, (list, tuple)):
            return [a * x + (1 - a) * v for x in inner_value], a * inner_loss
        return a * inner_value + (1 - a) * v, a * inner_loss


# ------------------------------------------------------------------------------------------------
# torch float64 surrogates on the library's graph (reference gradients)
# ------------------------------------------------------------------------------------------------
import torch as _torch  # noqa: E402

_DT = [_torch.float64]  # dtype of the torch surrogates: float64 (reference) or float32 (conditioning yardstick)


def _dt():
    import torch

    if _DT[0] is None:
        _DT[0] = torch.float64
    return _DT[0]


class as_float32:
    """Evaluate the same surrogate formulas in float32: the distance between the float32 and float64
    gradients of the reference measures how ill-conditioned a step is (weights blown up by a large
    learning rate), i.e. how far a correct float32 implementation may legitimately be from float64."""

    def __enter__(self):
        import torch

        _dt()
        self.old = _DT[0]
        _DT[0] = torch.float32

    def __exit__(self, *a):
        _DT[0] = self.old


def t_const(xs, like=None):
    import torch

    _dt()
    return torch.tensor(xs, dtype=_DT[0])


def t_pg(adv, ll_t):
    """-mean(adv * ll) with adv constant (list aligned with ll_t.flatten())."""
    return -(t_const(adv) * ll_t.to(_DT[0]).reshape(-1)).mean()


def t_mse(v_t, reward):
    return ((v_t.to(_DT[0]).reshape(-1) - t_const(reward)) ** 2).mean()


def t_huber(v_t, reward, delta: float = 1.0):
    import torch

    d = (v_t.to(_DT[0]).reshape(-1) - t_const(reward)).abs()
    return torch.where(d <= delta, 0.5 * d * d, delta * (d - 0.5 * delta)).mean()


def t_ppo(ll_t, ll_old, adv, v_t, reward, ent_t, clip, vf_lambda, entropy_lambda):
    """adv: constants (already standardised if requested)."""
    import torch

    _dt()
    ratio = torch.exp(ll_t.to(_DT[0]).sum(-1).reshape(-1) - t_const(ll_old))
    a = t_const(adv)
    surr = -torch.minimum(ratio * a, ratio.clamp(1.0 - clip, 1.0 + clip) * a).mean()
    out = surr + vf_lambda * t_huber(v_t, reward)
    if entropy_lambda:
        out = out - entropy_lambda * ent_t.to(_DT[0]).mean()
    return out
