"""Reference models for the routing environments.

Pure Python, float64, one instance at a time, written from the problem definitions.  Shares no code
with rl4co.  Every model offers

    admissible()  -> {action: "must" | "may"}   (absent = must_not; self.why[action] names the constraint)
    pruned(a)     -> True when a is feasible by the problem but belongs to the documented pruning
                     (pointless moves the mask is allowed to hide)
    apply(a), done() -> "must" | "may" | "not", step_bound()
    objective(actions) -> float  (reward, i.e. what the environment should report)
    violations(actions) -> [(constraint, magnitude)]   problem-level verdict on a complete action list

The band: with slack s (positive = satisfied) and scale sigma, an action is must if s > tau,
must_not if s < -tau, may otherwise; tau = 1e-5 * max(1, sigma).
"""
from __future__ import annotations

import copy
import math

INF = float("inf")


def tau(scale: float) -> float:
    if scale != scale or scale in (INF, -INF):
        scale = 1.0
    return 1e-5 * max(1.0, abs(scale))


# Integer capacity mode (see CVRP.__init__): False = float band everywhere (C01/C05: the environment's own
# float32 mask arithmetic is inside the band); True = exact integer verdict in violations() (C06: the checker
# must accept an exactly full vehicle); "verdict" = additionally in admissible() (reference-built solutions).
INTEGER_CAPACITY = False
MAY_COUNT = 0  # number of band() calls that landed inside the band (verdict indeterminate)
EXACT = False  # boundary-builder instances: arithmetic is exact, so equality is decidable (tau = 0)


def band(slack: float, scale: float = 1.0) -> str:
    if slack != slack:
        return "not"
    if EXACT:
        return "must" if slack >= 0 else "not"
    t = tau(scale)
    if slack > t:
        return "must"
    if slack < -t:
        return "not"
    global MAY_COUNT
    MAY_COUNT += 1
    return "may"


def weakest(*bands) -> str:
    if "not" in bands:
        return "not"
    if "may" in bands:
        return "may"
    return "must"


def dist(a, b) -> float:
    return math.hypot(a[0] - b[0], a[1] - b[1])


def L(x):
    """tensor-ish -> nested python lists of float/int/bool"""
    return x.tolist() if hasattr(x, "tolist") else x


class Ref:
    name = "?"

    def __init__(self):
        self.why = {}
        self.t = 0

    def clone(self):
        return copy.deepcopy(self)

    def pruned(self, a) -> bool:
        return False

    def classify(self, a):
        adm = self.admissible()
        return adm.get(a, "not"), self.why.get(a, "")

    def done(self) -> str:
        raise NotImplementedError

    # helpers ------------------------------------------------------------------------------------
    def _adm(self):
        self.why = {}
        return {}


# ====================================================================================================
# TSP / ATSP
# ====================================================================================================
class TSP(Ref):
    name = "tsp"

    def __init__(self, inst, cfg=None):
        super().__init__()
        self.locs = L(inst["locs"])
        self.n = len(self.locs)
        self.visited = []

    def admissible(self):
        adm = self._adm()
        for j in range(self.n):
            if j in self.visited:
                self.why[j] = "visited_once"
            else:
                adm[j] = "must"
        return adm

    def apply(self, a):
        self.visited.append(a)
        self.t += 1

    def done(self):
        return "must" if len(set(self.visited)) == self.n else "not"

    def step_bound(self):
        return self.n

    def leg(self, a, b):
        return dist(self.locs[a], self.locs[b])

    def objective(self, actions):
        tot = 0.0
        for k in range(len(actions)):
            tot += self.leg(actions[k], actions[(k + 1) % len(actions)])
        return -tot

    def violations(self, actions):
        v = []
        if sorted(actions) != list(range(self.n)):
            v.append(("visited_once", 1.0))
        return v


class ATSP(TSP):
    name = "atsp"

    def __init__(self, inst, cfg=None):
        Ref.__init__(self)
        self.c = L(inst["cost_matrix"])
        self.n = len(self.c)
        self.visited = []

    def leg(self, a, b):
        return self.c[a][b]


# ====================================================================================================
# depot-based helpers
# ====================================================================================================
def routes_of(actions):
    """Split a depot-based action list (0 = depot) into routes of customer indices; empty routes kept
    out.  The last route needs no trailing depot."""
    routes, cur = [], []
    for a in actions:
        if a == 0:
            if cur:
                routes.append(cur)
            cur = []
        else:
            cur.append(a)
    if cur:
        routes.append(cur)
    return routes


def once_violations(actions, n):
    v = []
    cust = [a for a in actions if a != 0]
    missing = set(range(1, n + 1)) - set(cust)
    if missing:
        v.append(("visited_once:missing", float(len(missing))))
    if len(cust) != len(set(cust)):
        v.append(("visited_once:duplicate", float(len(cust) - len(set(cust)))))
    if any(a < 0 or a > n for a in actions):
        v.append(("index_range", 1.0))
    return v


class DepotRef(Ref):
    """locs[0] is the depot; customers 1..n."""

    def _init_locs(self, inst):
        self.locs = [L(inst["depot"])] + L(inst["locs"])
        self.n = len(self.locs) - 1

    def d(self, a, b):
        return dist(self.locs[a], self.locs[b])

    def closed_length(self, actions):
        tot, cur = 0.0, 0
        for a in actions:
            tot += self.d(cur, a)
            cur = a
        return tot + self.d(cur, 0)


# ====================================================================================================
# CVRP
# ====================================================================================================
class CVRP(DepotRef):
    name = "cvrp"

    def __init__(self, inst, cfg=None):
        super().__init__()
        self._init_locs(inst)
        self.demand = [0.0] + L(inst["demand"])
        self.cap = float((cfg or {}).get("gen", {}).get("vehicle_capacity", 1.0))
        self.visited = set()
        self.depot_visited = False
        self.cur = 0
        self.load = 0.0
        # Integer mode: generator instances carry demands k/Q (Q = `capacity` key).  When every demand is
        # such a fraction the capacity constraint is decided exactly in integers (sum k <= Q): an exactly
        # full vehicle is feasible by the problem definition, whatever float32 makes of the sum.
        self.Q = None
        self.kdem = None
        if INTEGER_CAPACITY and "capacity" in inst and self.cap == 1.0:
            q = L(inst["capacity"])
            q = float(q[0] if isinstance(q, list) else q)
            ks = [d * q for d in self.demand]
            if q >= 1 and abs(q - round(q)) < 1e-9 and all(abs(k - round(k)) < 1e-3 for k in ks):
                self.Q = int(round(q))
                self.kdem = [int(round(k)) for k in ks]
        self.kload = 0

    # constraint hooks for subclasses ---------------------------------------------------------------
    def _customer_band(self, j):
        if self.kdem is not None and INTEGER_CAPACITY == "verdict":
            b = "must" if self.kload + self.kdem[j] <= self.Q else "not"
        else:
            b = band(self.cap - (self.load + self.demand[j]), self.cap)
        if b == "not":
            self.why[j] = "capacity"
        return b

    def _depot_band(self):
        return "must"

    def admissible(self):
        adm = self._adm()
        for j in range(1, self.n + 1):
            if j in self.visited:
                self.why[j] = "visited_once"
                continue
            b = self._customer_band(j)
            if b != "not":
                adm[j] = b
        b0 = self._depot_band()
        if b0 != "not":
            adm[0] = b0
        else:
            self.why.setdefault(0, "depot_return")
        return adm

    def pruned(self, a):
        # staying at the depot while a customer is servable is pointless
        if a == 0 and self.cur == 0:
            adm = self.admissible()
            return any(k != 0 for k in adm)
        return False

    def apply(self, a):
        if a == 0:
            self.load = 0.0
            self.kload = 0
            self.depot_visited = True
        else:
            self.load += self.demand[a]
            if self.kdem is not None:
                self.kload += self.kdem[a]
            self.visited.add(a)
        self.cur = a
        self.t += 1

    def done(self):
        return "must" if (len(self.visited) == self.n and self.depot_visited) else "not"

    def step_bound(self):
        return 2 * self.n + 1

    def objective(self, actions):
        return -self.closed_length(actions)

    def violations(self, actions):
        v = once_violations(actions, self.n)
        for r in routes_of(actions):
            if self.kdem is not None and INTEGER_CAPACITY:
                k = sum(self.kdem[a] for a in r if 0 < a <= self.n)
                if k > self.Q:
                    v.append(("capacity", (k - self.Q) / self.Q))
                continue
            ld = sum(self.demand[a] for a in r if 0 < a <= self.n)
            if band(self.cap - ld, self.cap) == "not":
                v.append(("capacity", ld - self.cap))
        return v


# ====================================================================================================
# CVRPTW
# ====================================================================================================
class CVRPTW(CVRP):
    name = "cvrptw"

    def __init__(self, inst, cfg=None):
        super().__init__(inst, cfg)
        self.dur = L(inst["durations"])
        self.tw = L(inst["time_windows"])
        self.time = 0.0
        self.scale = self.tw[0][1]

    def _customer_band(self, j):
        b1 = CVRP._customer_band(self, j)
        arr = self.time + self.d(self.cur, j)
        b2 = band(self.tw[j][1] - arr, self.scale)
        if b2 == "not":
            self.why[j] = "time_window"
        return weakest(b1, b2)

    def _depot_band(self):
        arr = self.time + self.d(self.cur, 0)
        b = band(self.tw[0][1] - arr, self.scale)
        if b == "not":
            self.why[0] = "depot_deadline"
        return b

    def apply(self, a):
        if a == 0:
            self.time = 0.0
        else:
            arr = self.time + self.d(self.cur, a)
            self.time = max(arr, self.tw[a][0]) + self.dur[a]
        CVRP.apply(self, a)

    def violations(self, actions):
        v = CVRP.violations(self, actions)
        t, cur = 0.0, 0
        for a in list(actions) + [0]:
            if not (0 <= a <= self.n):
                continue
            arr = t + self.d(cur, a)
            if a == 0:
                if band(self.tw[0][1] - arr, self.scale) == "not":
                    v.append(("depot_deadline", arr - self.tw[0][1]))
                t = 0.0
            else:
                if band(self.tw[a][1] - arr, self.scale) == "not":
                    v.append(("time_window", arr - self.tw[a][1]))
                t = max(arr, self.tw[a][0]) + self.dur[a]
            cur = a
        return v


# ====================================================================================================
# SDVRP
# ====================================================================================================
class SDVRP(DepotRef):
    name = "sdvrp"

    def __init__(self, inst, cfg=None):
        super().__init__()
        self._init_locs(inst)
        self.rem = [0.0] + L(inst["demand"])
        self._rem0 = list(self.rem)
        self.total = sum(self.rem)
        self.cap = float((cfg or {}).get("gen", {}).get("vehicle_capacity", 1.0))
        self.cur = 0
        self.load = 0.0

    def _has_demand(self, j):
        return band(self.rem[j], 1.0) if self.rem[j] != 0.0 else "not"

    def _not_full(self):
        return band(self.cap - self.load, self.cap) if self.load < self.cap else "not"

    def admissible(self):
        adm = self._adm()
        nf = self._not_full()
        for j in range(1, self.n + 1):
            hd = self._has_demand(j)
            b = weakest(hd, nf)
            if b == "not":
                self.why[j] = "demand_served" if hd == "not" else "vehicle_full"
            else:
                adm[j] = b
        adm[0] = "must"
        return adm

    def pruned(self, a):
        if a == 0 and self.cur == 0:
            return any(k != 0 for k in self.admissible())
        return False

    def apply(self, a):
        if a == 0:
            self.load = 0.0
        else:
            dlv = min(self.rem[a], self.cap - self.load)
            self.rem[a] -= dlv
            self.load += dlv
        self.cur = a
        self.t += 1

    def sync(self, rem_env, load_env):
        """Compare with the environment's float32 accumulators; beyond the band -> drift (returned),
        inside -> adopt the environment's values so that both arithmetics stay on the same side of
        the discrete boundaries (DESIGN 4, accumulated float state)."""
        drift = max([abs(a - b) for a, b in zip(self.rem, rem_env)] + [abs(self.load - load_env)])
        if drift <= tau(self.cap):
            self.rem = list(rem_env)
            self.load = load_env
        return drift

    def done(self):
        if all(r == 0.0 for r in self.rem):
            return "must"
        if all(band(r, 1.0) != "must" for r in self.rem):
            return "may"
        return "not"

    def step_bound(self):
        # two steps per customer plus one, one more pair per vehicle load under split delivery
        return 2 * self.n + 1 + 2 * math.ceil(self.total / self.cap - 1e-9)

    def objective(self, actions):
        return -self.closed_length(actions)

    def violations(self, actions):
        v = []
        rem = list(self._rem0)
        load = 0.0
        for a in actions:
            if a < 0 or a > self.n:
                v.append(("index_range", 1.0))
                continue
            if a == 0:
                load = 0.0
            else:
                room = self.cap - load
                if not EXACT and rem[a] > 0 and room > 0 and abs(rem[a] - room) <= tau(self.cap):
                    # near tie between "deliver the rest" and "fill the vehicle": float32 may take the other
                    # branch and keep a residue -> the verdict on this solution is inside the band
                    global MAY_COUNT
                    MAY_COUNT += 1
                dlv = min(rem[a], room)
                rem[a] -= dlv
                load += dlv
        left = sum(rem)
        # whole deliveries cancel exactly (x - x), in float32 as in float64: all-zero is clearly served
        if left != 0.0 and (band(-left, 1.0) == "not" or any(band(-r, 1.0) == "not" for r in rem)):
            v.append(("demand_served", left))
        return v


# ====================================================================================================
# SVRP (skill VRP)
# ====================================================================================================
class SVRP(DepotRef):
    name = "svrp"

    def __init__(self, inst, cfg=None):
        super().__init__()
        self._init_locs(inst)
        self.techs = [x[0] if isinstance(x, list) else x for x in L(inst["techs"])]
        self.skills = [0.0] + [x[0] if isinstance(x, list) else x for x in L(inst["skills"])]
        self.costs = list((cfg or {}).get("gen", {}).get("tech_costs", [1, 2, 3]))
        self.T = len(self.techs)
        self.k = 0
        self.cur = 0
        self.visited = set()
        self.depot_visited = False

    def _cust(self, j):
        if self.k >= self.T:
            self.why[j] = "technicians_exhausted"
            return "not"
        # skill levels are compared as given (no arithmetic on either side): equality is decidable, and
        # "greater or equal" is enough by the problem definition
        b = "must" if self.techs[self.k] >= self.skills[j] else "not"
        if b == "not":
            self.why[j] = "skill"
        return b

    def admissible(self):
        adm = self._adm()
        for j in range(1, self.n + 1):
            if j in self.visited:
                self.why[j] = "visited_once"
                continue
            b = self._cust(j)
            if b != "not":
                adm[j] = b
        # returning hands over to the next technician; the last one may not return while work is left
        servable = [b for b in adm.values()]
        if self.k >= self.T - 1 and len(self.visited) < self.n:
            if "must" in servable:
                self.why[0] = "last_technician_must_finish"
            elif servable:
                adm[0] = "may"
            else:
                adm[0] = "must"  # dead end either way; never happens on documented instances
        else:
            adm[0] = "must"
        return adm

    def pruned(self, a):
        if a == 0:
            adm = self.admissible()
            if self.cur == 0 and any(k != 0 for k in adm):
                return True
        return False

    def apply(self, a):
        if a == 0:
            self.k += 1
            self.depot_visited = True
        else:
            self.visited.add(a)
        self.cur = a
        self.t += 1

    def done(self):
        return "must" if (len(self.visited) == self.n and self.depot_visited) else "not"

    def step_bound(self):
        return self.n + self.T

    def objective(self, actions):
        tot, cur, k = 0.0, 0, 0
        for a in actions:
            c = self.costs[min(k, len(self.costs) - 1)]
            tot += c * self.d(cur, a)
            if a == 0:
                k += 1
            cur = a
        tot += self.costs[min(k, len(self.costs) - 1)] * self.d(cur, 0)
        return -tot

    def violations(self, actions):
        v = once_violations(actions, self.n)
        k = 0
        for a in actions:
            if a == 0:
                k += 1
                continue
            if not (0 < a <= self.n):
                continue
            if k >= self.T:
                v.append(("technicians_exhausted", float(k - self.T + 1)))
            elif self.techs[k] < self.skills[a]:
                v.append(("skill", self.skills[a] - self.techs[k]))
        return v


# ====================================================================================================
# OP
# ====================================================================================================
class OP(DepotRef):
    name = "op"

    def __init__(self, inst, cfg=None):
        super().__init__()
        self._init_locs(inst)
        self.prize = [0.0] + L(inst["prize"])
        ml = L(inst["max_length"])
        self.max_length = float(ml[0] if isinstance(ml, list) else ml)
        self.cur = 0
        self.len = 0.0
        self.visited = set()
        self.finished = False
        self.forfeited = False  # depot taken as the very first action: the tour is over

    def admissible(self):
        adm = self._adm()
        adm[0] = "must"
        for j in range(1, self.n + 1):
            if j in self.visited:
                self.why[j] = "visited_once"
                continue
            if self.forfeited or self.finished:
                self.why[j] = "tour_closed"
                continue
            need = self.len + self.d(self.cur, j) + self.d(j, 0)
            b = band(self.max_length - need, self.max_length)
            if b == "not":
                self.why[j] = "max_length"
            else:
                adm[j] = b
        return adm

    def apply(self, a):
        self.len += self.d(self.cur, a)
        if a == 0:
            if self.t == 0:
                self.forfeited = True
            else:
                self.finished = True
        else:
            self.visited.add(a)
        self.cur = a
        self.t += 1

    def done(self):
        return "must" if self.finished else "not"

    def step_bound(self):
        return self.n + 2

    def objective(self, actions):
        return sum(self.prize[a] for a in set(actions) if 0 < a <= self.n)

    def violations(self, actions):
        v = []
        cust = [a for a in actions if a != 0]
        if len(cust) != len(set(cust)):
            v.append(("visited_once:duplicate", float(len(cust) - len(set(cust)))))
        if any(a < 0 or a > self.n for a in actions):
            v.append(("index_range", 1.0))
            return v
        ln = self.closed_length(actions)
        if band(self.max_length - ln, self.max_length) == "not":
            v.append(("max_length", ln - self.max_length))
        return v


# ====================================================================================================
# PCTSP / SPCTSP
# ====================================================================================================
class PCTSP(DepotRef):
    name = "pctsp"
    stochastic = False

    def __init__(self, inst, cfg=None):
        super().__init__()
        self._init_locs(inst)
        self.penalty = [0.0] + L(inst["penalty"])
        key = "stochastic_prize" if self.stochastic else "deterministic_prize"
        self.prize = [0.0] + L(inst[key])
        self.required = float((cfg or {}).get("gen", {}).get("prize_required", 1.0))
        self.cur = 0
        self.visited = set()
        self.collected = 0.0
        self.finished = False

    def admissible(self):
        adm = self._adm()
        for j in range(1, self.n + 1):
            if j in self.visited:
                self.why[j] = "visited_once"
            elif self.finished:
                self.why[j] = "tour_closed"
            else:
                adm[j] = "must"
        if len(self.visited) == self.n or self.finished:
            adm[0] = "must"
        else:
            b = band(self.collected - self.required, 1.0)
            if b == "not":
                self.why[0] = "min_prize"
            else:
                adm[0] = b
        return adm

    def apply(self, a):
        if a == 0:
            if self.t > 0:
                self.finished = True
        else:
            self.visited.add(a)
            self.collected += self.prize[a]
        self.cur = a
        self.t += 1

    def done(self):
        return "must" if self.finished else "not"

    def step_bound(self):
        return self.n + 1

    def objective(self, actions):
        vis = set(a for a in actions if 0 < a <= self.n)
        pen = sum(self.penalty[j] for j in range(1, self.n + 1) if j not in vis)
        return -(self.closed_length(actions) + pen)

    def violations(self, actions):
        v = []
        cust = [a for a in actions if a != 0]
        if len(cust) != len(set(cust)):
            v.append(("visited_once:duplicate", float(len(cust) - len(set(cust)))))
        if any(a < 0 or a > self.n for a in actions):
            v.append(("index_range", 1.0))
            return v
        got = sum(self.prize[a] for a in set(cust))
        if len(set(cust)) < self.n and band(got - self.required, 1.0) == "not":
            v.append(("min_prize", self.required - got))
        return v


class SPCTSP(PCTSP):
    name = "spctsp"
    stochastic = True


# ====================================================================================================
# PDP
# ====================================================================================================
class PDP(DepotRef):
    name = "pdp"

    def __init__(self, inst, cfg=None):
        super().__init__()
        self._init_locs(inst)
        self.half = self.n // 2
        self.force = bool((cfg or {}).get("kw", {}).get("force_start_at_depot", False))
        self.visited = set()
        self.cur = 0

    def admissible(self):
        adm = self._adm()
        if self.force and self.t == 0:
            adm[0] = "must"
            for j in range(1, self.n + 1):
                self.why[j] = "start_at_depot"
            return adm
        self.why[0] = "depot_only_at_start"
        for j in range(1, self.n + 1):
            if j in self.visited:
                self.why[j] = "visited_once"
            elif j > self.half and (j - self.half) not in self.visited:
                self.why[j] = "pickup_before_delivery"
            else:
                adm[j] = "must"
        return adm

    def apply(self, a):
        if a != 0:
            self.visited.add(a)
        self.cur = a
        self.t += 1

    def done(self):
        ok = len(self.visited) == self.n and (not self.force or self.t > 0)
        return "must" if ok else "not"

    def step_bound(self):
        return self.n + (1 if self.force else 0)

    def objective(self, actions):
        return -self.closed_length(actions)

    def violations(self, actions):
        acts = list(actions)
        v = []
        if self.force:
            # the tour is a cycle through the depot: the single depot visit may stand at either end
            if acts and acts[0] == 0:
                acts = acts[1:]
            elif acts and acts[-1] == 0:
                acts = acts[:-1]
            else:
                v.append(("start_at_depot", 1.0))
        if 0 in acts:
            v.append(("depot_mid_tour", 1.0))
        v += once_violations([a for a in acts if a != 0], self.n)
        pos = {a: k for k, a in enumerate(acts)}
        for p in range(1, self.half + 1):
            if p in pos and (p + self.half) in pos and pos[p] > pos[p + self.half]:
                v.append(("pickup_before_delivery", 1.0))
        return v


# ====================================================================================================
# mTSP
# ====================================================================================================
class MTSP(Ref):
    name = "mtsp"

    def __init__(self, inst, cfg=None):
        super().__init__()
        self.locs = L(inst["locs"])
        self.n = len(self.locs)  # node 0 is the depot
        m = L(inst["num_agents"])
        self.m = int(m[0] if isinstance(m, list) else m)
        self.mode = (cfg or {}).get("kw", {}).get("cost_type", "minmax")
        self.visited = set()
        self.cur = 0
        self.returns = 0

    def d(self, a, b):
        return dist(self.locs[a], self.locs[b])

    def admissible(self):
        adm = self._adm()
        for j in range(1, self.n):
            if j in self.visited:
                self.why[j] = "visited_once"
            else:
                adm[j] = "must"
        left = self.n - 1 - len(self.visited)
        if left == 0:
            adm[0] = "must"  # closing / padding
        elif self.cur == 0:
            self.why[0] = "empty_subtour"
        elif self.returns >= self.m - 1:
            self.why[0] = "agents_exhausted"
        else:
            adm[0] = "must"
        return adm

    def apply(self, a):
        if a == 0:
            if len(self.visited) < self.n - 1:
                self.returns += 1
        else:
            self.visited.add(a)
        self.cur = a
        self.t += 1

    def done(self):
        return "must" if len(self.visited) == self.n - 1 else "not"

    def step_bound(self):
        return self.n - 1 + self.m - 1

    def subtours(self, actions):
        return routes_of(actions)

    def objective(self, actions):
        lens = []
        for r in self.subtours(actions):
            ln, cur = 0.0, 0
            for a in r:
                ln += self.d(cur, a)
                cur = a
            lens.append(ln + self.d(cur, 0))
        if not lens:
            return 0.0
        return -(max(lens) if self.mode == "minmax" else sum(lens))

    def violations(self, actions):
        v = []
        cust = [a for a in actions if a != 0]
        if sorted(cust) != list(range(1, self.n)):
            v.append(("visited_once", 1.0))
        if len(self.subtours(actions)) > self.m:
            v.append(("agents_exhausted", float(len(self.subtours(actions)) - self.m)))
        return v


# ====================================================================================================
# MDCPDP (checked in full for one depot; see DESIGN 7.11-13)
# ====================================================================================================
class MDCPDP(Ref):
    name = "mdcpdp"

    def __init__(self, inst, cfg=None):
        super().__init__()
        dep = L(inst["depot"])
        self.D = len(dep)
        self.locs = dep + L(inst["locs"])
        self.n = len(self.locs) - self.D
        self.half = self.n // 2
        cap = L(inst["capacity"])
        self.cap = [int(c) for c in (cap if isinstance(cap, list) else [cap])]
        lw = L(inst["lateness_weight"])
        self.lw = float(lw[0] if isinstance(lw, list) else lw)
        kw = (cfg or {}).get("kw", {})
        self.reward_mode = kw.get("reward_mode", "lateness")
        self.problem_mode = kw.get("problem_mode", "close")
        self.dist_mode = kw.get("dist_mode", "L2")
        self.visited = set()
        self.carry = 0
        self.cur = 0
        self.started = False

    def d(self, a, b):
        p, q = self.locs[a], self.locs[b]
        if self.dist_mode == "L1":
            return abs(p[0] - q[0]) + abs(p[1] - q[1])
        return dist(p, q)

    def is_pickup(self, j):
        return self.D <= j < self.D + self.half

    def admissible(self):
        """One-depot reading: the vehicle starts at the depot, serves every request, never comes back
        before the end."""
        adm = self._adm()
        if not self.started:
            adm[0] = "must"
            for j in range(1, len(self.locs)):
                self.why[j] = "start_at_depot"
            return adm
        left = self.n - len(self.visited)
        if left == 0:
            adm[0] = "must"
            return adm
        self.why[0] = "depot_before_end"
        for j in range(self.D, self.D + self.n):
            if j in self.visited:
                self.why[j] = "visited_once"
            elif self.is_pickup(j):
                if self.carry >= self.cap[0]:
                    self.why[j] = "carry_capacity"
                else:
                    adm[j] = "must"
            else:
                if (j - self.half) in self.visited:
                    adm[j] = "must"
                else:
                    self.why[j] = "pickup_before_delivery"
        return adm

    def apply(self, a):
        if a < self.D:
            self.started = True
        else:
            self.visited.add(a)
            self.carry += 1 if self.is_pickup(a) else -1
        self.cur = a
        self.t += 1

    def done(self):
        return "must" if (self.started and len(self.visited) == self.n) else "not"

    def step_bound(self):
        return self.n + 2 * self.D

    def objective(self, actions):
        """Single depot: one route depot -> ... (-> depot when closed).  lateness = arrival times at
        the delivery nodes."""
        acts = [a for a in actions]
        # strip padding returns after the last customer
        while acts and acts[-1] < self.D and len(acts) > 1:
            acts.pop()
        ln, cur = 0.0, 0
        late = 0.0
        for a in acts[1:] if acts and acts[0] < self.D else acts:
            ln += self.d(cur, a)
            cur = a
            if a >= self.D + self.half:
                late += ln
        if self.problem_mode == "close":
            ln += self.d(cur, 0)
        if self.reward_mode in ("minmax", "minsum"):
            return -ln
        return -(ln * (1 - self.lw) + late * self.lw)

    def violations(self, actions):
        v = []
        cust = [a for a in actions if a >= self.D]
        if sorted(cust) != list(range(self.D, self.D + self.n)):
            v.append(("visited_once", 1.0))
        carry, seen = 0, set()
        for a in actions:
            if a < self.D:
                if carry > 0:
                    v.append(("depot_while_carrying", float(carry)))
                continue
            if self.is_pickup(a):
                carry += 1
                if carry > self.cap[0]:
                    v.append(("carry_capacity", float(carry - self.cap[0])))
            else:
                if (a - self.half) not in seen:
                    v.append(("pickup_before_delivery", 1.0))
                carry -= 1
            seen.add(a)
        return v


# ====================================================================================================
# MTVRP
# ====================================================================================================
class MTVRP(Ref):
    name = "mtvrp"

    def __init__(self, inst, cfg=None):
        super().__init__()
        self.locs = L(inst["locs"])
        self.n = len(self.locs) - 1
        self.lh = L(inst["demand_linehaul"])
        self.bh = L(inst["demand_backhaul"])
        self.limit = float(_scalar(inst["distance_limit"]))
        self.tw = L(inst["time_windows"])
        self.svc = L(inst["service_time"])
        self.cap = float(_scalar(inst["vehicle_capacity"]))
        self.open = bool(_scalar(inst["open_route"]))
        self.speed = float(_scalar(inst["speed"]))
        self.visited = set()
        self.depot_visited = False
        self.cur = 0
        self.time = 0.0
        self.rlen = 0.0
        self.load_lh = 0.0
        self.load_bh = 0.0
        self.in_backhaul = False
        self.tscale = self.tw[0][1] if self.tw[0][1] != INF else 1.0
        # integer mode (see CVRP.__init__): generator demands are k / capacity_original
        self.Q = None
        self.klh = self.kbh = None
        if INTEGER_CAPACITY and "capacity_original" in inst and self.cap == 1.0:
            q = float(_scalar(inst["capacity_original"]))
            kl, kb = [d * q for d in self.lh], [d * q for d in self.bh]
            if q >= 1 and abs(q - round(q)) < 1e-9 and all(abs(k - round(k)) < 1e-3 for k in kl + kb):
                self.Q = int(round(q))
                self.klh = [int(round(k)) for k in kl]
                self.kbh = [int(round(k)) for k in kb]
        self.kload_lh = self.kload_bh = 0

    def _cap_band(self, load, dem, kload, kdem):
        if self.Q is not None and INTEGER_CAPACITY == "verdict":
            return "must" if kload + kdem <= self.Q else "not"
        return band(self.cap - (load + dem), self.cap)

    def d(self, a, b):
        return dist(self.locs[a], self.locs[b])

    def _cust(self, j):
        bands = []
        why = None
        if self.lh[j] > 0:
            if self.in_backhaul:
                return "not", "linehaul_after_backhaul"
            b = self._cap_band(self.load_lh, self.lh[j], self.kload_lh, self.klh[j] if self.klh else 0)
            if b == "not":
                return "not", "capacity_linehaul"
            bands.append(b)
        elif self.bh[j] > 0:
            b = self._cap_band(self.load_bh, self.bh[j], self.kload_bh, self.kbh[j] if self.kbh else 0)
            if b == "not":
                return "not", "capacity_backhaul"
            bands.append(b)
        else:
            return "not", "no_demand"
        dij = self.d(self.cur, j)
        arr = self.time + dij / self.speed
        if self.tw[j][1] != INF:
            b = band(self.tw[j][1] - arr, self.tscale)
            if b == "not":
                return "not", "time_window"
            bands.append(b)
        if not self.open and self.tw[0][1] != INF:
            back = max(arr, self.tw[j][0]) + self.svc[j] + self.d(j, 0) / self.speed
            b = band(self.tw[0][1] - back, self.tscale)
            if b == "not":
                return "not", "depot_deadline"
            bands.append(b)
        if self.limit != INF:
            need = self.rlen + dij + (0.0 if self.open else self.d(j, 0))
            b = band(self.limit - need, self.limit)
            if b == "not":
                return "not", "distance_limit"
            bands.append(b)
        return weakest(*bands), why

    def admissible(self):
        adm = self._adm()
        for j in range(1, self.n + 1):
            if j in self.visited:
                self.why[j] = "visited_once"
                continue
            b, why = self._cust(j)
            if b == "not":
                self.why[j] = why
            else:
                adm[j] = b
        adm[0] = "must"
        return adm

    def pruned(self, a):
        if a == 0 and self.cur == 0:
            return any(k != 0 for k in self.admissible())
        return False

    def apply(self, a):
        if a == 0:
            self.time = 0.0
            self.rlen = 0.0
            self.load_lh = 0.0
            self.load_bh = 0.0
            self.kload_lh = self.kload_bh = 0
            self.in_backhaul = False
            self.depot_visited = True
        else:
            dij = self.d(self.cur, a)
            arr = self.time + dij / self.speed
            self.time = max(arr, self.tw[a][0]) + self.svc[a]
            self.rlen += dij
            self.load_lh += self.lh[a]
            self.load_bh += self.bh[a]
            if self.Q is not None:
                self.kload_lh += self.klh[a]
                self.kload_bh += self.kbh[a]
            if self.bh[a] > 0:
                self.in_backhaul = True
            self.visited.add(a)
        self.cur = a
        self.t += 1

    def done(self):
        return "must" if (len(self.visited) == self.n and self.depot_visited) else "not"

    def step_bound(self):
        return 2 * self.n + 1

    def objective(self, actions):
        tot, cur = 0.0, 0
        for a in list(actions) + [0]:
            leg = self.d(cur, a)
            if not (a == 0 and self.open):
                tot += leg
            cur = a
        return -tot

    def violations(self, actions):
        v = once_violations(actions, self.n)
        if any(a < 0 or a > self.n for a in actions):
            return v
        for r in routes_of(actions):
            lh = sum(self.lh[a] for a in r)
            bh = sum(self.bh[a] for a in r)
            if self.Q is not None and INTEGER_CAPACITY:
                klh, kbh = sum(self.klh[a] for a in r), sum(self.kbh[a] for a in r)
                if klh > self.Q:
                    v.append(("capacity_linehaul", (klh - self.Q) / self.Q))
                if kbh > self.Q:
                    v.append(("capacity_backhaul", (kbh - self.Q) / self.Q))
            else:
                if band(self.cap - lh, self.cap) == "not":
                    v.append(("capacity_linehaul", lh - self.cap))
                if band(self.cap - bh, self.cap) == "not":
                    v.append(("capacity_backhaul", bh - self.cap))
            seen_bh = False
            for a in r:
                if self.bh[a] > 0:
                    seen_bh = True
                elif self.lh[a] > 0 and seen_bh:
                    v.append(("linehaul_after_backhaul", 1.0))
            t, ln, cur = 0.0, 0.0, 0
            for a in r:
                dij = self.d(cur, a)
                arr = t + dij / self.speed
                if self.tw[a][1] != INF and band(self.tw[a][1] - arr, self.tscale) == "not":
                    v.append(("time_window", arr - self.tw[a][1]))
                t = max(arr, self.tw[a][0]) + self.svc[a]
                ln += dij
                cur = a
            if not self.open:
                back = t + self.d(cur, 0) / self.speed
                if self.tw[0][1] != INF and band(self.tw[0][1] - back, self.tscale) == "not":
                    v.append(("depot_deadline", back - self.tw[0][1]))
                ln += self.d(cur, 0)
            if self.limit != INF and band(self.limit - ln, self.limit) == "not":
                v.append(("distance_limit", ln - self.limit))
        return v


def _scalar(x):
    x = L(x)
    while isinstance(x, list):
        x = x[0]
    return x


REFS = {c.name: c for c in [TSP, ATSP, CVRP, CVRPTW, SDVRP, SVRP, OP, PCTSP, SPCTSP, PDP, MTSP,
                            MDCPDP, MTVRP]}


def make_ref(name, inst, cfg):
    return REFS[name](inst, cfg)
