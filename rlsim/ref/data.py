"""Reference model for datasets and persistence: a list of instance fingerprints with extras.

An *instance* is a dict ``name -> tensor`` (one row, no batch dimension).  Its fingerprint is a
blake2b hash over (dtype, shape, raw bytes) of every field, so equality of fingerprints means equal
values, equal dtypes and equal shapes.  The reference list knows, for every position, the instance
fingerprint, the per-field fingerprints and the extras attached to that position (``add_key``).
Everything here is independent of rl4co: only torch tensors are inspected.

The checks return ``None`` when the observed batches are what the reference list predicts and a
small dict (constraint name, message, detail) otherwise.  Constraint names are stable strings:
``count`` (number of batches / rows), ``batch_size``, ``keys``, ``order``, ``dtype``, ``shape``,
``value``, ``split`` (fields of one row come from different instances), ``extra`` (the extra of the
row is not the one attached to its instance), ``multiset``.
"""
from __future__ import annotations

import hashlib
from collections import Counter

import torch


# ------------------------------------------------------------------------------------------------
# fingerprints
# ------------------------------------------------------------------------------------------------
def fp_tensor(t: torch.Tensor) -> str:
    """blake2b over dtype, shape and the raw bytes of a tensor (any device/stride)."""
    t = t.detach().cpu().contiguous()
    h = hashlib.blake2b(digest_size=12)
    h.update(str(t.dtype).encode())
    h.update(repr(tuple(t.shape)).encode())
    if t.dtype == torch.bool:
        h.update(t.to(torch.uint8).numpy().tobytes())
    else:
        h.update(t.numpy().tobytes())
    return h.hexdigest()


def fp_fields(row: dict, keys=None) -> dict:
    ks = sorted(row.keys()) if keys is None else list(keys)
    return {k: fp_tensor(row[k]) for k in ks}


def fp_instance(row: dict, keys=None) -> str:
    """Fingerprint of an instance = hash over its sorted (name, field fingerprint) pairs."""
    f = fp_fields(row, keys)
    h = hashlib.blake2b(digest_size=12)
    for k in sorted(f):
        h.update(k.encode())
        h.update(f[k].encode())
    return h.hexdigest()


def describe(t: torch.Tensor) -> dict:
    return {"dtype": str(t.dtype).replace("torch.", ""), "shape": list(t.shape)}


def same_values(a: torch.Tensor, b: torch.Tensor) -> bool:
    """Equal as numbers, ignoring dtype (used only to name the discrepancy)."""
    if tuple(a.shape) != tuple(b.shape):
        return False
    try:
        return bool(torch.equal(a.to(torch.float64), b.to(torch.float64)))
    except Exception:  # noqa: BLE001
        return False


def rows_of(batch: dict) -> list:
    """Split a batch (dict name -> tensor with leading batch dim) into rows."""
    keys = list(batch.keys())
    if not keys:
        return []
    n = int(batch[keys[0]].shape[0])
    return [{k: batch[k][i] for k in keys} for i in range(n)]


def batch_len(batch: dict) -> int:
    for v in batch.values():
        return int(v.shape[0])
    return 0


# ------------------------------------------------------------------------------------------------
# the reference list
# ------------------------------------------------------------------------------------------------
class RefItem:
    __slots__ = ("index", "row", "fields", "fp", "extras", "extra_fp")

    def __init__(self, index: int, row: dict):
        self.index = index
        self.row = {k: v.clone() for k, v in row.items()}
        self.fields = fp_fields(self.row)
        self.fp = fp_instance(self.row)
        self.extras = {}
        self.extra_fp = {}


class RefList:
    """The instances that were wrapped, in order, with the extras attached by position."""

    def __init__(self, rows: list):
        self.items = [RefItem(i, r) for i, r in enumerate(rows)]
        self.keys = sorted(rows[0].keys()) if rows else []

    def __len__(self):
        return len(self.items)

    def attach(self, key: str, values):
        """values[i] travels with item i from now on (a later attach of the same key replaces it)."""
        if len(values) != len(self.items):
            raise ValueError("reference: extras and items differ in length")
        for it, v in zip(self.items, values):
            it.extras[key] = v.clone()
            it.extra_fp[key] = fp_tensor(v)
        return self

    def extra_keys(self):
        ks = set()
        for it in self.items:
            ks.update(it.extras)
        return sorted(ks)

    def by_fp(self):
        d = {}
        for it in self.items:
            d.setdefault(it.fp, []).append(it)
        return d

    def multiset(self):
        return Counter(it.fp for it in self.items)

    # -- expectations -----------------------------------------------------------------------------
    def expected_batch_sizes(self, batch_size: int, n: int = None) -> list:
        n = len(self.items) if n is None else n
        out = [batch_size] * (n // batch_size)
        if n % batch_size:
            out.append(n % batch_size)
        return out

    # -- checks -----------------------------------------------------------------------------------
    def check_epoch(self, batches: list, batch_size: int, order, allow_more_keys: bool = False,
                    ignore_extras: bool = False):
        """One pass of a loader over the data set.

        batches: list of dict name -> tensor.  order: list of item indices the loader was asked to
        deliver (exact check, ``list(range(n))`` for an unshuffled loader) or ``None`` for a
        shuffled loader (any permutation; multiset and togetherness are checked).
        """
        n = len(order) if order is not None else len(self.items)
        want_sizes = self.expected_batch_sizes(batch_size, n)
        got_sizes = [batch_len(b) for b in batches]
        if len(got_sizes) != len(want_sizes) or sum(got_sizes) != sum(want_sizes):
            return {"constraint": "count",
                    "message": f"loader delivered {len(got_sizes)} batches / {sum(got_sizes)} rows, "
                               f"expected {len(want_sizes)} batches / {sum(want_sizes)} rows",
                    "got_sizes": got_sizes, "want_sizes": want_sizes}
        if got_sizes != want_sizes:
            return {"constraint": "batch_size",
                    "message": f"batch sizes {got_sizes}, expected {want_sizes} (final partial batch last)",
                    "got_sizes": got_sizes, "want_sizes": want_sizes}
        want_keys = set(self.keys) | (set() if ignore_extras else set(self.extra_keys()))
        pos = 0
        seen = Counter()
        used = set()
        lookup = self.by_fp()
        for bi, b in enumerate(batches):
            ks = set(b.keys())
            missing = want_keys - ks
            more = ks - want_keys - (set(self.extra_keys()) if ignore_extras else set())
            if missing or (more and not allow_more_keys):
                return {"constraint": "keys",
                        "message": f"batch {bi} has keys {sorted(ks)}, expected {sorted(want_keys)}",
                        "missing": sorted(missing), "unexpected": sorted(more)}
            for ri, row in enumerate(rows_of(b)):
                inst = {k: row[k] for k in self.keys}
                if order is not None:
                    it = self.items[order[pos]]
                    bad = self._compare(inst, it)
                    if bad is not None:
                        bad.update(batch=bi, row=ri, position=pos, expected_index=it.index)
                        # name the discrepancy: is it another instance of the list (order) ?
                        other = lookup.get(fp_instance(inst))
                        if other:
                            bad["constraint"] = "order"
                            bad["message"] = (f"position {pos} (batch {bi} row {ri}) holds instance "
                                              f"{other[0].index}, expected instance {it.index}")
                            bad["found_index"] = other[0].index
                        return bad
                else:
                    f = fp_instance(inst)
                    cands = lookup.get(f)
                    if not cands:
                        bad = self._diagnose_unknown(inst)
                        bad.update(batch=bi, row=ri, position=pos)
                        return bad
                    seen[f] += 1
                    free = [c for c in cands if c.index not in used]
                    if not free:
                        return {"constraint": "multiset",
                                "message": f"instance {cands[0].index} delivered more often than it occurs",
                                "batch": bi, "row": ri, "instance": cands[0].index}
                    # identical instances may carry different extras: take the unused copy whose
                    # extras are the ones travelling with this row, if there is one
                    it = free[0]
                    if not ignore_extras:
                        for c in free:
                            if all(fp_tensor(row[k]) == efp for k, efp in c.extra_fp.items() if k in row):
                                it = c
                                break
                    used.add(it.index)
                if not ignore_extras:
                    for k, efp in it.extra_fp.items():
                        if fp_tensor(row[k]) != efp:
                            where = [o.index for o in self.items
                                     if o.extra_fp.get(k) == fp_tensor(row[k])]
                            return {"constraint": "extra",
                                    "message": f"batch {bi} row {ri}: '{k}' travelling with instance "
                                               f"{it.index} is not the value attached to it"
                                               + (f" (it is the value of instance {where[0]})" if where else ""),
                                    "key": k, "batch": bi, "row": ri, "instance": it.index,
                                    "got": row[k].tolist(), "want": it.extras[k].tolist(),
                                    "belongs_to": where[:3], **describe(row[k])}
                pos += 1
        if order is None:
            got = +seen
            want = self.multiset()
            if got != want:
                return {"constraint": "multiset",
                        "message": "shuffled epoch is not a permutation of the data set",
                        "missing": sum((want - got).values()), "duplicated": sum((got - want).values())}
        return None

    def _compare(self, inst: dict, it: RefItem):
        for k in self.keys:
            if fp_tensor(inst[k]) == it.fields[k]:
                continue
            a, b = inst[k], it.row[k]
            if a.dtype != b.dtype and same_values(a, b):
                c, msg = "dtype", f"field '{k}' came back as {a.dtype}, was {b.dtype}"
            elif tuple(a.shape) != tuple(b.shape):
                c, msg = "shape", f"field '{k}' came back with shape {tuple(a.shape)}, was {tuple(b.shape)}"
            else:
                c, msg = "value", f"field '{k}' changed"
            return {"constraint": c, "message": msg, "key": k, "got": describe(a), "want": describe(b)}
        return None

    def _diagnose_unknown(self, inst: dict):
        """A shuffled row that is no instance of the list: do its fields come from different
        instances (split), or did a field change (dtype / shape / value)?"""
        owners = {}
        for k in self.keys:
            f = fp_tensor(inst[k])
            owners[k] = [it.index for it in self.items if it.fields[k] == f]
        if all(owners[k] for k in self.keys):
            return {"constraint": "split",
                    "message": "fields of one delivered row belong to different instances",
                    "owners": {k: v[:3] for k, v in owners.items()}}
        k = [k for k in self.keys if not owners[k]][0]
        for it in self.items:
            a, b = inst[k], it.row[k]
            if a.dtype != b.dtype and same_values(a, b):
                return {"constraint": "dtype", "message": f"field '{k}' came back as {a.dtype}, was {b.dtype}",
                        "key": k, "got": describe(a), "want": describe(b)}
        b = self.items[0].row[k]
        if tuple(inst[k].shape) != tuple(b.shape):
            return {"constraint": "shape", "message": f"field '{k}' came back with shape "
                    f"{tuple(inst[k].shape)}, was {tuple(b.shape)}", "key": k,
                    "got": describe(inst[k]), "want": describe(b)}
        return {"constraint": "value", "message": f"field '{k}' of a delivered row matches no instance",
                "key": k, "got": describe(inst[k])}


# ------------------------------------------------------------------------------------------------
# persistence: exact comparison of two batched dicts
# ------------------------------------------------------------------------------------------------
def compare_saved_loaded(saved: dict, loaded: dict):
    """saved / loaded: dict name -> batched tensor.  Exact: keys, dtypes, shapes, bytes."""
    ks, kl = list(saved.keys()), list(loaded.keys())
    if sorted(ks) != sorted(kl):
        return {"constraint": "keys", "message": f"loaded keys {sorted(kl)} != saved keys {sorted(ks)}",
                "missing": sorted(set(ks) - set(kl)), "unexpected": sorted(set(kl) - set(ks))}
    for k in ks:
        a, b = loaded[k], saved[k]
        if fp_tensor(a) == fp_tensor(b):
            continue
        if a.dtype != b.dtype and same_values(a, b):
            c, msg = "dtype", f"field '{k}' loaded as {a.dtype}, saved as {b.dtype}"
        elif a.dtype != b.dtype:
            c, msg = "dtype", f"field '{k}' loaded as {a.dtype} with other values, saved as {b.dtype}"
        elif tuple(a.shape) != tuple(b.shape):
            c, msg = "shape", f"field '{k}' loaded with shape {tuple(a.shape)}, saved {tuple(b.shape)}"
        else:
            c, msg = "value", f"field '{k}' changed between save and load"
        return {"constraint": c, "message": msg, "key": k, "got": describe(a), "want": describe(b)}
    return None


# ------------------------------------------------------------------------------------------------
# scheduling instances "up to padding"
# ------------------------------------------------------------------------------------------------
def sched_canonical(row: dict):
    """Canonical, padding-free form of one FJSP/JSSP instance in generator format: a tuple over jobs
    of a tuple over operations of a tuple of (machine, duration) pairs for the eligible machines.
    Index fields may be int or float (the text reader returns floats)."""
    s = [int(x) for x in row["start_op_per_job"].tolist()]
    e = [int(x) for x in row["end_op_per_job"].tolist()]
    pt = row["proc_times"]
    n_ma, n_ops = int(pt.shape[0]), int(pt.shape[1])
    pad = row["pad_mask"].tolist()
    jobs = []
    used = 0
    for a, b in zip(s, e):
        ops = []
        for o in range(a, b + 1):
            if o >= n_ops or pad[o]:
                raise ValueError("job references a padded operation")
            col = pt[:, o].tolist()
            ops.append(tuple((m, float(col[m])) for m in range(n_ma) if col[m] != 0))
            used += 1
        jobs.append(tuple(ops))
    real = sum(1 for p in pad if not p)
    if used != real:
        raise ValueError(f"{real} unpadded operations but jobs cover {used}")
    return (n_ma, tuple(jobs))
